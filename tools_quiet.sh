#!/bin/bash
# tools_quiet.sh "C01 C02 ..." "1 2 3" [extra ./check args]  — run quick tier for each property at each seed; print one line each.
PROPS=$1; SEEDS=${2:-1}; shift; shift
cd /verif
for P in $PROPS; do for S in $SEEDS; do
  VERIF_SEED=$S ./check $P --no-evidence "$@" > /tmp/quiet_${P}_${S}.log 2>&1; RC=$?
  echo "$P seed=$S rc=$RC $(grep -E 'exit=' /tmp/quiet_${P}_${S}.log | tail -1) $(grep -E 'VIOLATION|HARNESS-ERROR' /tmp/quiet_${P}_${S}.log | head -1)"
done; done
