#!/venv/bin/python
"""tools_known.py fixed <prop> <commit> <signature> "<what failed>"   |   known <prop> <signature> "<what fails>" """
import json, sys
p = "/verif/known_findings.json"
d = json.load(open(p))
kind, prop = sys.argv[1], sys.argv[2]
if kind == "fixed":
    commit, sig, what = sys.argv[3:6]
    e = dict(property=prop, status="fixed", commit=commit, signature=sig,
             text=f"fixed: property={prop} {commit} {what}", description=what)
else:
    sig, what = sys.argv[3:5]
    e = dict(property=prop, status="known", signature=sig, text=f"known: property={prop} {what}", description=what)
d["findings"] = [x for x in d["findings"] if not (x["property"] == prop and x["signature"] == sig)] + [e]
json.dump(d, open(p, "w"), indent=1)
