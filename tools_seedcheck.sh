#!/bin/bash
# tools_seedcheck.sh CNN [check-id ...]  — confirm a seeded change in /tmp/seed/CNN and run our check(s) against it.
# Never touches /repo: the checks run with VERIF_REPO pointing at the scratch worktree (patch applied there).
ID=$1; shift; CHECKS="${@:-$ID}"
WT=/tmp/seed/$ID; OUT=$WT/out; DST=/verif/seeded/$ID
[ -f $OUT/patch.diff ] || { echo "no patch"; exit 2; }
cd $WT || exit 2
export PYTHONPATH=$WT
git diff --quiet -- luna && { echo "worktree has no change applied; applying patch"; git apply $OUT/patch.diff || exit 2; }
echo "== demo with change (expect non-zero)"; timeout 900 /venv/bin/python -W ignore out/demo.py > /tmp/seed/$ID.demo_with.log 2>&1; WITH=$?; echo "exit $WITH"; tail -3 /tmp/seed/$ID.demo_with.log
echo "== luna tests with change (expect 93 passed)"; T=$(timeout 1800 /venv/bin/python -m pytest -q -p no:cacheprovider --timeout=900 tests 2>&1 | tail -1); echo "$T"
git diff -- luna > /tmp/seed/$ID.applied.diff
git stash -q
echo "== demo without change (expect 0)"; timeout 900 /venv/bin/python -W ignore out/demo.py > /tmp/seed/$ID.demo_without.log 2>&1; WITHOUT=$?; echo "exit $WITHOUT"; tail -2 /tmp/seed/$ID.demo_without.log
git stash pop -q
unset PYTHONPATH
cd /verif
RES=""
for C in $CHECKS; do
  echo "== ./check $C against seeded tree"
  VERIF_REPO=$WT ./check $C --no-evidence > /tmp/seed/$ID.check_$C.log 2>&1; RC=$?
  grep -E "VIOLATION|HARNESS|failure|exit=" /tmp/seed/$ID.check_$C.log | head -5
  RES="$RES $C:$RC"
done
echo "SUMMARY $ID demo_with=$WITH demo_without=$WITHOUT tests='$T' checks=$RES"
