#!/bin/bash
# tools_seedcheck.sh CNN [check-id ...]  — confirm a seeded change in /tmp/seed/CNN and run our check(s) against it.
# Never touches /repo: the checks run with VERIF_REPO pointing at the scratch worktree (patch applied there).
ID=$1; shift; CHECKS="${@:-$ID}"
SEEDROOT=${SEEDROOT:-/tmp/seed}; WT=$SEEDROOT/$ID; OUT=$WT/out; DST=/verif/seeded/$ID${SEEDSUFFIX}
[ -f $OUT/patch.diff ] || { echo "no patch"; exit 2; }
cd $WT || exit 2
export PYTHONPATH=$WT
# bring the worktree to /repo's current HEAD with the seeded change re-applied on top
HEAD=$(git -C /repo rev-parse HEAD)
if [ "$(git rev-parse HEAD)" != "$HEAD" ]; then
  git diff --quiet -- luna || git apply -R $OUT/patch.diff || { git checkout -- luna; }
  git checkout -q --detach $HEAD || exit 2
  git apply $OUT/patch.diff 2>/dev/null || git apply --3way $OUT/patch.diff || { echo "PATCH DOES NOT APPLY to current HEAD"; git checkout -- luna; exit 3; }
  git reset -q 2>/dev/null
fi
git diff --quiet -- luna && { echo "worktree has no change applied; applying patch"; git apply $OUT/patch.diff || exit 2; }
echo "== demo with change (expect non-zero)"; timeout 900 /venv/bin/python -W ignore out/demo.py > $SEEDROOT/$ID.demo_with.log 2>&1; WITH=$?; echo "exit $WITH"; tail -3 $SEEDROOT/$ID.demo_with.log
echo "== luna tests with change (expect 93 passed)"; T=$(timeout 1800 /venv/bin/python -m pytest -q -p no:cacheprovider --timeout=900 tests 2>&1 | tail -1); echo "$T"
git diff -- luna > $SEEDROOT/$ID.applied.diff
git apply -R $SEEDROOT/$ID.applied.diff
echo "== demo without change (expect 0)"; timeout 900 /venv/bin/python -W ignore out/demo.py > $SEEDROOT/$ID.demo_without.log 2>&1; WITHOUT=$?; echo "exit $WITHOUT"; tail -2 $SEEDROOT/$ID.demo_without.log
git apply $SEEDROOT/$ID.applied.diff
unset PYTHONPATH
cd /verif
RES=""
for C in $CHECKS; do
  echo "== ./check $C against seeded tree"
  VERIF_REPO=$WT ./check $C --no-evidence > $SEEDROOT/$ID.check_$C.log 2>&1; RC=$?
  grep -E "VIOLATION|HARNESS|failure|exit=" $SEEDROOT/$ID.check_$C.log | head -5
  RES="$RES $C:$RC"
done
echo "SUMMARY $ID demo_with=$WITH demo_without=$WITHOUT tests='$T' checks=$RES"
# archive under /verif/seeded/<id>/
mkdir -p $DST && cp $SEEDROOT/$ID.applied.diff $DST/patch.diff && cp $OUT/demo.py $DST/ && cp $OUT/notes.md $DST/notes.md 2>/dev/null
NEEDS="${NEEDS:-see notes.md}"
/venv/bin/python - "$ID" "$WITH" "$WITHOUT" "$T" "$RES" "$NEEDS" <<'PY'
import json, sys
pid, w, wo, t, res, needs = sys.argv[1:7]
import os
nd = json.load(open("/verif/seeded/needs.json")) if os.path.exists("/verif/seeded/needs.json") else {}
needs = nd.get(pid + os.environ.get("SEEDSUFFIX", ""), needs)
checks = {r.split(":")[0]: int(r.split(":")[1]) for r in res.split()}
meta = dict(property=pid, breaks=pid, needs_to_manifest=needs,
            origin="independent sub-agent given only the property text and a scratch worktree (no access to /verif)",
            confirmed=dict(demo_exit_with_change=int(w), demo_exit_without_change=int(wo), luna_tests_with_change=t,
                           commands=["cd <worktree> && PYTHONPATH=<worktree> /venv/bin/python out/demo.py (with / without patch)",
                                     "cd <worktree> && PYTHONPATH=<worktree> /venv/bin/python -m pytest -q -p no:cacheprovider --timeout=900 tests",
                                     "VERIF_REPO=<worktree> ./check <id> (quick tier, seed 1)"]),
            check_exit_codes=checks,
            detected={k: (v == 1) for k, v in checks.items()})
json.dump(meta, open(f"/verif/seeded/{pid}{os.environ.get('SEEDSUFFIX','')}/meta.json", "w"), indent=1)
print("archived", pid, meta["detected"])
PY
