#!/venv/bin/python
"""Builds SEEDED.md from seeded/<id>/meta.json (+ the check logs left by tools_seedcheck.sh, when still present)."""
import glob, json, os, re
rows = []
for d in sorted(glob.glob("/verif/seeded/C*")):
    pid = os.path.basename(d)
    base = pid.split(".")[0]
    m = json.load(open(d + "/meta.json"))
    how = m.get("detected_by")
    if not how:
        for root in (("/tmp/seed3",) if "." in pid else ("/tmp/seed2", "/tmp/seed")):
            p = f"{root}/{base}.check_{base}.log"
            if os.path.exists(p):
                t = open(p).read()
                f = re.search(r"failure \[(.*?)\] \[(.*?)\]", t)
                r = re.search(r"replay (\S+): FAIL \[(.*?)\]", t)
                e = re.search(r"evaluations=(\d+)", t)
                if f:
                    how = f"generated search, sub `{f.group(1)}`, signature `{f.group(2)}`" + (f", after {e.group(1)} evaluations" if e else "")
                elif r:
                    how = f"committed replay {os.path.basename(r.group(1))} (signature `{r.group(2)}`)"
                if how:
                    break
        if how:
            m["detected_by"] = how
            json.dump(m, open(d + "/meta.json", "w"), indent=1)
    rows.append((pid, m))
out = ["# Independently seeded changes and the checks that catch them\n",
       "Each change was written by a fresh sub-agent that was given only the property text and its own scratch git worktree of /repo "
       "(nothing from /verif). It compiles, passes LUNA's 93 tests, and comes with a demonstration program that exits 0 "
       "without it and non-zero with it; all of that was re-confirmed (tools_seedcheck.sh) on the repaired tree before the "
       "change was kept. `patch.diff` applies to /repo's HEAD (`git -C /repo apply seeded/<id>/patch.diff`).\n",
       "| id | what the change needs in order to manifest | quick check | how it was detected |", "|---|---|---|---|"]
for pid, m in rows:
    det = m.get("detected", {})
    ok = all(det.values()) and det
    out.append(f"| {pid} | {m.get('needs_to_manifest','')} | {'**caught**' if ok else ('not observable with legal inputs' if m.get('undetectable_under_sound_inputs') else 'MISSED')} (exit {m.get('check_exit_codes',{}).get(base)}) | {m.get('detected_by','')} |")
open("/verif/SEEDED.md", "w").write("\n".join(out) + "\n")
print(sum(1 for _, m in rows if all(m.get("detected", {}).values())), "of", len(rows), "caught")
