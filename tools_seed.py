#!/venv/bin/python
"""tools_seed.py CNN... : create scratch worktrees /tmp/seed/CNN and print the seeding prompt for each (to /tmp/seed/CNN.prompt)."""
import json, os, subprocess, sys
props = {json.loads(l)["id"]: json.loads(l) for l in open("/verif/properties.jsonl")}
tmpl = open("/verif/seed_prompt_template.txt").read()
for pid in sys.argv[1:]:
    root = os.environ.get("SEEDROOT", "/tmp/seed"); wt = f"{root}/{pid}"
    if not os.path.exists(wt):
        os.makedirs(root, exist_ok=True)
        subprocess.check_call(["git", "-C", "/repo", "worktree", "add", "--detach", "-q", wt, "HEAD"])
        os.makedirs(wt + "/out", exist_ok=True)
    p = props[pid]
    s = (tmpl.replace("@WT@", wt).replace("@ID@", pid).replace("@TITLE@", p["title"])
         .replace("@STATEMENT@", p["statement"]).replace("@QUANT@", p["quantifier"]["text"])
         .replace("@FILES@", ", ".join(p["anchors"]["files"])))
    if os.environ.get("SEED_AVOID"):
        nd = json.load(open("/verif/seeded/needs.json"))
        prev = [nd[k].split(" [second-round")[0] for k in (pid, pid + ".2", pid + ".3", pid + ".4") if k in nd]
        if prev:
            s += ("\nEarlier, independent attempts already produced these kinds of change, so do something DIFFERENT IN KIND "
                  "(another mechanism, another part of the code involved, another clause of the statement, another "
                  "configuration):\n" + "".join(f"  - {p}\n" for p in prev))
    open(f"{root}/{pid}.prompt", "w").write(s)
    print(pid, wt)
