#!/bin/bash
# tools_applyfix.sh <diff> "<commit subject (without fix:)>" ["body"]  — apply to /repo, run the 93 tests, commit as "fix: ...".
D=$1; SUBJ=$2; BODY=$3
cd /repo || exit 2
git diff --quiet || { echo "repo dirty"; exit 2; }
patch -p1 --no-backup-if-mismatch < "$D" > /tmp/applyfix.log 2>&1 || { cat /tmp/applyfix.log; git checkout -- .; exit 2; }
find . -name '*.orig' -delete; find . -name '*.rej' -delete
R=$(/venv/bin/python -m pytest -q -p no:cacheprovider --timeout=900 tests 2>&1 | tail -1)
echo "$R"
case "$R" in *"93 passed"*) ;; *) echo "TESTS FAILED - reverting"; git checkout -- .; exit 1;; esac
git add -A && git commit -q -m "fix: $SUBJ" -m "$BODY" && git log --oneline | head -1
