#!/bin/bash
# Offline setup: make sure hypothesis is importable by /venv/bin/python (install from the local wheelhouse otherwise).
cd "$(dirname "$0")" || exit 1
if ! /venv/bin/python -c "import hypothesis" 2>/dev/null; then
    /venv/bin/python -m pip install -q --no-index --find-links /opt/veriftools/wheels --target "$PWD/.deps" hypothesis || exit 1
fi
mkdir -p evidence replays/found
/venv/bin/python -c "import sys; sys.path[:0]=['/repo','$PWD']; import luna, lunaverif.run; print('setup ok')"
