#!/bin/bash
# Runs the thorough tier of the given properties with a wall cap each; prints one line per property.
cd "$(dirname "$0")"
CAP=${CAP:-420}
for P in "$@"; do
  VERIF_SEED=${VERIF_SEED:-5} ./check $P --tier thorough --max-wall $CAP --no-evidence > /tmp/thor_$P.log 2>&1; RC=$?
  echo "$P rc=$RC $(grep -E 'exit=' /tmp/thor_$P.log | tail -1) $(grep -E 'VIOLATION|HARNESS-ERROR' /tmp/thor_$P.log | head -1)"
done
