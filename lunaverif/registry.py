"""Registry of claimed properties -> MANIFEST.json (python -m lunaverif.registry writes it)."""
import json
import os

VERIF_DIR = os.path.dirname(os.path.dirname(os.path.abspath(__file__)))

# id -> (technique, level text, level note, design_ref)
CLAIMED = {
    "C18": ("Hypothesis per-cycle operation sequences vs. reference commit/rollback queue model (pysim)",
            "Generated-input exploration: 3e4 (quick) / 1e6 (thorough) random per-cycle strobe histories over 13 "
            "(width,depth) configurations, every output compared every cycle with an independent queue model and a "
            "final drain; finds shallow and medium-depth pointer/flag bugs, does not establish absence.",
            "Assumes commit&discard of one port are never simultaneous; strobes act on start-of-cycle state; pysim "
            "faithful to the netlist.", "DESIGN.md §6 C18"),
}

CLAIMED.update({
    "C35": ("Hypothesis + exhaustive enumeration: generator->detector round trip and detector-only corruption streams vs bit-serial CRC-5 reference (pysim)",
            "Exhaustive over all 256 commands x 7 stall patterns and every single-bit corruption of command word and LCSTART; plus 1.5e4 random sequences (stalls, strobe/held generate, multi-bit/mirrored flips, unequal copies, not-valid words between start and command).",
            "Not generated: LCSTART directly followed by LCSTART.", "DESIGN.md §6 C35"),
    "C40": ("Hypothesis packet/gap streams vs independent reference stream parser (pysim)",
            "6e3/9e4 streams of 1-10 data packets (0-40 bytes, all CRC corruptions, aborted DPPs, not-valid words at any word position incl. around the CRC, adjacent traffic); exactly-once / good-iff-CRCs / after-payload / byte-exact payload.",
            "Header-corrupt packets judged conservatively (never good, at most one bad); EDB-terminated complete payloads accept either verdict.", "DESIGN.md §6 C40"),
    "C36": ("Hypothesis packet sequences; wire compared symbol-by-symbol with an independent encoder + round trip through the repo's receivers (pysim, closed-loop producer)",
            "5e3/8e4 sequences of 1-5 packets, payload 0-64 bytes (every length mod 4), delayed/abort path, held/strobed generate, PHY stalls; framing, CRC-16/5/32 placement, done timing, each payload word consumed once.",
            "Bubble-free payload producer assumed; receiver reset between packets; pad symbols after EPF not judged.", "DESIGN.md §6 C36"),
    "C44": ("Hypothesis symbol/enable histories and deadline-targeted event lists vs interval oracles (pysim)",
            "8e3 idle-handshake histories (valid/not-valid words, enable windows) + 2.5e3 timer histories at 4 clock rates with gaps at K+-2 / R+-2 cycles and a 10 ms long-silence case.",
            "Safety direction only for the handshake (completion implies the counts); integer-cycle clock rates, not the real 125 MHz constants.", "DESIGN.md §6 C44"),
    "C17": ("model-based PBT: endpoint-level host BFM, trace oracle (pysim)",
            "USBSignalInEndpoint at its EndpointInterface over 20 width/endianness configurations; 4e3/5e4 poll/ACK/lost-ACK histories with the signal changing at any time; one-value-per-response, byte order, retry identity, toggle only after ACK.",
            "Value window = end of IN token .. first transmitted byte; signal_domain='usb' only; response delays 1/2/10 cycles.", "DESIGN.md §6 C17"),
    "C15": ("model-based PBT: endpoint-level host BFM, per-beat and per-frame oracle (pysim)",
            "USBIsochronousStreamInEndpoint at its EndpointInterface, mps 8/13/64/1024; 3e3/4e4 frame histories (bytes_in_frame 0..3*mps, 0-4 IN tokens, stream gaps, tx stalls).",
            "PID label of surplus zero-length packets not asserted (statement silent); bytes_in_frame stable around SOF.", "DESIGN.md §6 C15"),
    "C11": ("model-based PBT: host toggle reassembly with reactive drain (pysim)",
            "USBStreamInEndpoint/USBInTransferManager at the EndpointInterface, mps 8/16/64/512; 2.5e3/6e4 histories of input stream (last markers, gaps, flush) x IN tokens, ACK / lost ACK, foreign tokens, tx stalls; exactly-once, packet size, short-packet/ZLP ends, retry identity, NAK when empty.",
            "discard held low; ACKs addressed to other devices not modelled; tx.ready low during the PID byte (as the real packet generator does).", "DESIGN.md §6 C11"),
    "C09": ("model-based PBT: request-loop driver vs reference descriptor table (pysim)",
            "GetDescriptorHandlerBlock / Distributed / Mux as built by StandardRequestHandler (26 fixed configurations) plus Hypothesis-generated collections (one elaboration per case); 3e3/4e4 requests (type,index,wLength, mps 8..64, ready patterns).",
            "wLength >= 1; unit level (full-device integration is exercised by C07/C57 histories).", "DESIGN.md §6 C09"),
    "C16": ("model-based PBT: frame parser + in-order subsequence oracle + must-deliver rule (pysim)",
            "USBIsochronousStreamOutEndpoint at its EndpointInterface, 9 mps/buffer configurations; 2e3/3e4 histories of OUT packets (0..mps, good/corrupt) under consumer back-pressure.",
            "A whole-packet drop is allowed only when < mps free (2-cycle lag); high-bandwidth PIDs and mps=1024 not covered.", "DESIGN.md §6 C16"),
    "C13": ("model-based PBT: reactive host toggle model, delivered-stream oracle (pysim)",
            "USBStreamOutEndpoint at its EndpointInterface, 12 mps/buffer configurations, response delay 1/2/3/10/11 cycles (HS, FS@12 MHz, FS@60 MHz, with/without control-endpoint timer restart); OUT/PING, corrupt CRC, repeated toggles, back-pressure.",
            "Must-ACK / PING rules with a 2-cycle occupancy lag; clear-halt not covered here (C14).", "DESIGN.md §6 C13"),
    "C07": ("Hypothesis host programs (abandoned/repeated/interleaved control transfers) on a full USBDevice over UTMI; Python host BFM vs independent host-visible device model (pysim)",
            "1.5e3/3e4 histories of 1-10 control transfers with abandonment after any transaction, lost ACKs, early status, other-endpoint traffic between stages; every response compared (stage, PID, payload).",
            "FS bare-UTMI device only; valid request forms; no corrupted packets (C06); no PING to ep0.", "DESIGN.md §6 C07"),
    "C08": ("same full-device harness; SET_ADDRESS/SET_CONFIGURATION histories with foreign ACKs, lost status ACKs, bus resets; address probes + GET_CONFIGURATION",
            "1.5e3/3e4 histories; the commit must occur exactly at the host ACK of that request's status ZLP; bus reset returns to 0/0.",
            "One device on the bus; reset = SE0 >= 305 cycles on the 12 MHz device; toggles across reset unspecified.", "DESIGN.md §6 C08"),
    "C10": ("same full-device harness; arbitrary 8-byte setup packets + observation traffic vs device model",
            "1e3/3e4 histories; unsupported => STALL at first data-stage IN or status, no data / ACK / state change.",
            "Implemented request codes only in their valid form; state change observed through later traffic.", "DESIGN.md §6 C10"),
    "C14": ("same full-device harness; bulk IN/OUT + CLEAR_FEATURE histories vs per-endpoint toggle model and delivered-stream check",
            "1e3/2e4 histories; toggles advance once per completed transaction; a completed clear-halt resets exactly the named endpoint/direction.",
            "No bad-CRC OUT packets; signal-endpoint toggle after clear-halt not asserted; overflow ACK/NAK left to C13.", "DESIGN.md §6 C14"),
    "C20": ("same full-device harness; legal host + tx_ready patterns; UTMI transmit-burst monitor + model equality of data packets",
            "1.5e3/3e4 histories; every burst is a valid handshake or CRC-correct data packet of the addressed endpoint, solicited, not during reception.",
            "Only transmitted packets are judged (missing/different handshakes belong to C07-C14); a run stops at the first model divergence; FS-only device never chirps.", "DESIGN.md §6 C20"),
    "C12": ("metamorphic non-interference: full history vs re-run with the other endpoints' transactions replaced by equal idle time (full device, pysim)",
            "600/1e4 cases x up to 3 re-runs; per-endpoint responses, toggles and delivered streams must be identical.",
            "Device address fixed, no CLEAR_FEATURE inside the compared histories; up to 3 endpoints compared per case.", "DESIGN.md §6 C12"),
    "C57": ("full-device host BFM against USBSerialDevice; device model specialised with independently built ACM descriptors",
            "320/8e3 histories (enumeration order permutations, CDC requests, rx/tx data under back-pressure).",
            "FS only; SET_LINE_CODING in its valid form only.", "DESIGN.md §6 C57"),
})

# Only checks listed here are claimed in MANIFEST.json (verified quiet on the current tree, sensitive to their mutants).
READY = ["C18"]

NOT_BUILT_REASON = "check not built yet (work in progress; see DESIGN.md §6 for the planned generator/oracle)"


def build():
    props = [json.loads(l) for l in open(os.path.join(VERIF_DIR, "properties.jsonl"))]
    checks = []
    na = []
    for p in props:
        pid = p["id"]
        if pid in CLAIMED and pid in READY and os.path.exists(os.path.join(VERIF_DIR, "lunaverif", "props", pid.lower() + ".py")):
            tech, text, note, ref = CLAIMED[pid]
            checks.append(dict(
                property_id=pid,
                quick_cmd=f"./check {pid} --tier quick",
                thorough_cmd=f"./check {pid} --tier thorough",
                evidence_file=f"evidence/{pid}.json",
                replay_cmd_template=f"./check {pid} --replay {{path}}",
                engine="lunaverif",
                level_claimed=dict(category="exploration", text=text, design_ref=ref),
                level_note=note,
                technique=tech,
            ))
        else:
            na.append(dict(property_id=pid, reason=NA_REASONS.get(pid, NOT_BUILT_REASON)))
    man = dict(
        version=1,
        setup_cmd="./setup.sh",
        hooks=dict(guard="LUNA_VERIF", enable="no source hooks: checks import luna from /repo's working tree "
                   "(PYTHONPATH=/repo) and observe public ports only; LUNA_VERIF=1 is exported by ./check but no "
                   "repository code reads it",
                   baseline_off_cmd="cd /repo && /venv/bin/python -m pytest -ra -q -p no:cacheprovider --timeout=900 "
                                    "--continue-on-collection-errors",
                   source_commits=[], add_only=True),
        engines=[dict(name="lunaverif", path="lunaverif/run.py",
                      serves_properties=[c["property_id"] for c in checks],
                      kind_free_text="Hypothesis-driven generated-input search against reference models, executed on "
                                     "the Amaranth Python simulator; 16-way sharded; replay files bypass Hypothesis")],
        checks=checks,
        notes="All checks: exit 0 held / 1 VIOLATION / 2 harness error. VERIF_SEED selects the Hypothesis seed "
              "(worker w uses VERIF_SEED*1000+w). known_findings.json lists repaired (fixed:) and recorded defects.",
        not_applicable=na,
    )
    with open(os.path.join(VERIF_DIR, "MANIFEST.json"), "w") as f:
        json.dump(man, f, indent=1)
        f.write("\n")
    return man


NA_REASONS = {}

if __name__ == "__main__":
    m = build()
    print("claimed:", len(m["checks"]), "not_applicable:", len(m["not_applicable"]))
