"""Registry of claimed properties -> MANIFEST.json (python -m lunaverif.registry writes it)."""
import json
import os

VERIF_DIR = os.path.dirname(os.path.dirname(os.path.abspath(__file__)))

# id -> (technique, level text, level note, design_ref)
CLAIMED = {
    "C18": ("Hypothesis per-cycle operation sequences vs. reference commit/rollback queue model (pysim)",
            "Generated-input exploration: 3e4 (quick) / 1e6 (thorough) random per-cycle strobe histories over 13 "
            "(width,depth) configurations, every output compared every cycle with an independent queue model and a "
            "final drain; finds shallow and medium-depth pointer/flag bugs, does not establish absence.",
            "Assumes commit&discard of one port are never simultaneous; strobes act on start-of-cycle state; pysim "
            "faithful to the netlist.", "DESIGN.md §6 C18"),
}

NOT_BUILT_REASON = "check not built yet (work in progress; see DESIGN.md §6 for the planned generator/oracle)"


def build():
    props = [json.loads(l) for l in open(os.path.join(VERIF_DIR, "properties.jsonl"))]
    checks = []
    na = []
    for p in props:
        pid = p["id"]
        if pid in CLAIMED and os.path.exists(os.path.join(VERIF_DIR, "lunaverif", "props", pid.lower() + ".py")):
            tech, text, note, ref = CLAIMED[pid]
            checks.append(dict(
                property_id=pid,
                quick_cmd=f"./check {pid} --tier quick",
                thorough_cmd=f"./check {pid} --tier thorough",
                evidence_file=f"evidence/{pid}.json",
                replay_cmd_template=f"./check {pid} --replay {{path}}",
                engine="lunaverif",
                level_claimed=dict(category="exploration", text=text, design_ref=ref),
                level_note=note,
                technique=tech,
            ))
        else:
            na.append(dict(property_id=pid, reason=NA_REASONS.get(pid, NOT_BUILT_REASON)))
    man = dict(
        version=1,
        setup_cmd="./setup.sh",
        hooks=dict(guard="LUNA_VERIF", enable="no source hooks: checks import luna from /repo's working tree "
                   "(PYTHONPATH=/repo) and observe public ports only; LUNA_VERIF=1 is exported by ./check but no "
                   "repository code reads it",
                   baseline_off_cmd="cd /repo && /venv/bin/python -m pytest -ra -q -p no:cacheprovider --timeout=900 "
                                    "--continue-on-collection-errors",
                   source_commits=[], add_only=True),
        engines=[dict(name="lunaverif", path="lunaverif/run.py",
                      serves_properties=[c["property_id"] for c in checks],
                      kind_free_text="Hypothesis-driven generated-input search against reference models, executed on "
                                     "the Amaranth Python simulator; 16-way sharded; replay files bypass Hypothesis")],
        checks=checks,
        notes="All checks: exit 0 held / 1 VIOLATION / 2 harness error. VERIF_SEED selects the Hypothesis seed "
              "(worker w uses VERIF_SEED*1000+w). known_findings.json lists repaired (fixed:) and recorded defects.",
        not_applicable=na,
    )
    with open(os.path.join(VERIF_DIR, "MANIFEST.json"), "w") as f:
        json.dump(man, f, indent=1)
        f.write("\n")
    return man


NA_REASONS = {}

if __name__ == "__main__":
    m = build()
    print("claimed:", len(m["checks"]), "not_applicable:", len(m["not_applicable"]))
