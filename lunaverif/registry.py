"""Registry of claimed properties -> MANIFEST.json (python -m lunaverif.registry writes it)."""
import json
import os

VERIF_DIR = os.path.dirname(os.path.dirname(os.path.abspath(__file__)))

# id -> (technique, level text, level note, design_ref)
CLAIMED = {
    "C18": ("Hypothesis per-cycle operation sequences vs. reference commit/rollback queue model (pysim)",
            "Generated-input exploration: 3e4 (quick) / 1e6 (thorough) random per-cycle strobe histories over 13 "
            "(width,depth) configurations, every output compared every cycle with an independent queue model and a "
            "final drain; finds shallow and medium-depth pointer/flag bugs, does not establish absence.",
            "Assumes commit&discard of one port are never simultaneous; strobes act on start-of-cycle state; pysim "
            "faithful to the netlist.", "DESIGN.md §6 C18"),
}

CLAIMED.update({
    "C35": ("Hypothesis + exhaustive enumeration: generator->detector round trip and detector-only corruption streams vs bit-serial CRC-5 reference (pysim)",
            "Exhaustive over all 256 commands x 7 stall patterns and every single-bit corruption of command word and LCSTART; plus 1.5e4 random sequences (stalls, strobe/held generate, multi-bit/mirrored flips, unequal copies, not-valid words between start and command).",
            "Not generated: LCSTART directly followed by LCSTART.", "DESIGN.md §6 C35"),
    "C40": ("Hypothesis packet/gap streams vs independent reference stream parser (pysim)",
            "6e3/9e4 streams of 1-10 data packets (0-40 bytes, all CRC corruptions, aborted DPPs, not-valid words at any word position incl. around the CRC, adjacent traffic); exactly-once / good-iff-CRCs / after-payload / byte-exact payload.",
            "Header-corrupt packets judged conservatively (never good, at most one bad); EDB-terminated complete payloads accept either verdict.", "DESIGN.md §6 C40"),
    "C36": ("Hypothesis packet sequences; wire compared symbol-by-symbol with an independent encoder + round trip through the repo's receivers (pysim, closed-loop producer)",
            "5e3/8e4 sequences of 1-5 packets, payload 0-64 bytes (every length mod 4), delayed/abort path, held/strobed generate, PHY stalls; framing, CRC-16/5/32 placement, done timing, each payload word consumed once.",
            "Bubble-free payload producer assumed; receiver reset between packets; pad symbols after EPF not judged.", "DESIGN.md §6 C36"),
    "C44": ("Hypothesis symbol/enable histories and deadline-targeted event lists vs interval oracles (pysim)",
            "8e3 idle-handshake histories (valid/not-valid words, enable windows) + 2.5e3 timer histories at 4 clock rates with gaps at K+-2 / R+-2 cycles and a 10 ms long-silence case.",
            "Safety direction only for the handshake (completion implies the counts); integer-cycle clock rates, not the real 125 MHz constants.", "DESIGN.md §6 C44"),
    "C17": ("model-based PBT: endpoint-level host BFM, trace oracle (pysim)",
            "USBSignalInEndpoint at its EndpointInterface over 20 width/endianness configurations; 4e3/5e4 poll/ACK/lost-ACK histories with the signal changing at any time; one-value-per-response, byte order, retry identity, toggle only after ACK.",
            "Value window = end of IN token .. first transmitted byte; signal_domain='usb' only; response delays 1/2/10 cycles.", "DESIGN.md §6 C17"),
    "C15": ("model-based PBT: endpoint-level host BFM, per-beat and per-frame oracle (pysim)",
            "USBIsochronousStreamInEndpoint at its EndpointInterface, mps 8/13/64/1024; 3e3/4e4 frame histories (bytes_in_frame 0..3*mps, 0-4 IN tokens, stream gaps, tx stalls).",
            "PID label of surplus zero-length packets not asserted (statement silent); bytes_in_frame stable around SOF.", "DESIGN.md §6 C15"),
    "C11": ("model-based PBT: host toggle reassembly with reactive drain (pysim)",
            "USBStreamInEndpoint/USBInTransferManager at the EndpointInterface, mps 8/16/64/512; 2.5e3/6e4 histories of input stream (last markers, gaps, flush) x IN tokens, ACK / lost ACK, foreign tokens, tx stalls; exactly-once, packet size, short-packet/ZLP ends, retry identity, NAK when empty.",
            "discard held low; ACKs addressed to other devices not modelled; tx.ready low during the PID byte (as the real packet generator does).", "DESIGN.md §6 C11"),
    "C09": ("model-based PBT: request-loop driver vs reference descriptor table (pysim)",
            "GetDescriptorHandlerBlock / Distributed / Mux as built by StandardRequestHandler (26 fixed configurations) plus Hypothesis-generated collections (one elaboration per case); 3e3/4e4 requests (type,index,wLength, mps 8..64, ready patterns).",
            "wLength >= 1; unit level (full-device integration is exercised by C07/C57 histories).", "DESIGN.md §6 C09"),
    "C16": ("model-based PBT: frame parser + in-order subsequence oracle + must-deliver rule (pysim)",
            "USBIsochronousStreamOutEndpoint at its EndpointInterface, 9 mps/buffer configurations; 2e3/3e4 histories of OUT packets (0..mps, good/corrupt) under consumer back-pressure.",
            "A whole-packet drop is allowed only when < mps free (2-cycle lag); high-bandwidth PIDs and mps=1024 not covered.", "DESIGN.md §6 C16"),
    "C13": ("model-based PBT: reactive host toggle model, delivered-stream oracle (pysim)",
            "USBStreamOutEndpoint at its EndpointInterface, 12 mps/buffer configurations, response delay 1/2/3/10/11 cycles (HS, FS@12 MHz, FS@60 MHz, with/without control-endpoint timer restart); OUT/PING, corrupt CRC, repeated toggles, back-pressure.",
            "Must-ACK / PING rules with a 2-cycle occupancy lag; clear-halt not covered here (C14).", "DESIGN.md §6 C13"),
    "C07": ("Hypothesis host programs (abandoned/repeated/interleaved control transfers) on a full USBDevice over UTMI; Python host BFM vs independent host-visible device model (pysim)",
            "1.5e3/3e4 histories of 1-10 control transfers with abandonment after any transaction, lost ACKs, early status, other-endpoint traffic between stages; every response compared (stage, PID, payload).",
            "FS bare-UTMI device only; valid request forms; no corrupted packets (C06); no PING to ep0.", "DESIGN.md §6 C07"),
    "C08": ("same full-device harness; SET_ADDRESS/SET_CONFIGURATION histories with foreign ACKs, lost status ACKs, bus resets; address probes + GET_CONFIGURATION",
            "1.5e3/3e4 histories; the commit must occur exactly at the host ACK of that request's status ZLP; bus reset returns to 0/0.",
            "One device on the bus; reset = SE0 >= 305 cycles on the 12 MHz device; toggles across reset unspecified.", "DESIGN.md §6 C08"),
    "C10": ("same full-device harness; arbitrary 8-byte setup packets + observation traffic vs device model",
            "1e3/3e4 histories; unsupported => STALL at first data-stage IN or status, no data / ACK / state change.",
            "Implemented request codes only in their valid form; state change observed through later traffic.", "DESIGN.md §6 C10"),
    "C14": ("same full-device harness; bulk IN/OUT + CLEAR_FEATURE histories vs per-endpoint toggle model and delivered-stream check",
            "1e3/2e4 histories; toggles advance once per completed transaction; a completed clear-halt resets exactly the named endpoint/direction.",
            "No bad-CRC OUT packets; signal-endpoint toggle after clear-halt not asserted; overflow ACK/NAK left to C13.", "DESIGN.md §6 C14"),
    "C20": ("same full-device harness; legal host + tx_ready patterns; UTMI transmit-burst monitor + model equality of data packets",
            "1.5e3/3e4 histories; every burst is a valid handshake or CRC-correct data packet of the addressed endpoint, solicited, not during reception.",
            "Only transmitted packets are judged (missing/different handshakes belong to C07-C14); a run stops at the first model divergence; FS-only device never chirps.", "DESIGN.md §6 C20"),
    "C12": ("metamorphic non-interference: full history vs re-run with the other endpoints' transactions replaced by equal idle time (full device, pysim)",
            "600/1e4 cases x up to 3 re-runs; per-endpoint responses, toggles and delivered streams must be identical.",
            "Device address fixed, no CLEAR_FEATURE inside the compared histories; up to 3 endpoints compared per case.", "DESIGN.md §6 C12"),
    "C57": ("full-device host BFM against USBSerialDevice; device model specialised with independently built ACM descriptors",
            "480/8e3 histories (enumeration order permutations, CDC requests, rx/tx data under back-pressure).",
            "FS only; SET_LINE_CODING in its valid form only.", "DESIGN.md §6 C57"),
})

CLAIMED.update({
    "C01": ("Hypothesis UTMI receive histories + sharded enumeration of token words vs. reference parser with bit-serial CRC5 (pysim)",
            "8e3 (quick) / 3e5 (thorough) packet histories with per-packet device address and byte timing; every 16-bit word for IN and SOF and every CRC-valid word for OUT/SETUP/PING with equal and one-bit-different address in quick, all five PIDs x 2^16 in thorough; number and fields of new_token/new_frame strobes per packet compared with the reference. Exhaustive over 3-byte token packets at fixed minimal timing; not over timing or addresses.",
            "Assumes UTMI soundness rules (rx_valid=>rx_active, >=1 lead cycle, >=2 idle cycles) and an address that changes only between packets.", "DESIGN.md §6 C01"),
    "C02": ("Hypothesis UTMI packet histories into USBDataPacketReceiver (standalone and device.py-style CRC/timer wiring) vs. reference parser with bit-serial CRC16 (pysim)",
            "1e4 / 1.5e5 histories of good, CRC-corrupted, short, bad-PID and non-data packets with byte gaps; streamed bytes, packet_complete/crc_mismatch/packet_id/ready_for_response counts per packet compared with the reference.",
            "Assumes >=12 idle cycles between packets; no timing bound asserted on ready_for_response; nothing asserted on the mismatch strobe for packets shorter than a CRC or with non-data PIDs.", "DESIGN.md §6 C02"),
    "C03": ("Hypothesis payload/PID/tx_ready-stall schedules through USBDataPacketGenerator+CRC (device.py wiring, and a real USBDevice via a logic-free endpoint) vs. reference framing (pysim, closed-loop producer)",
            "1.5e4 / 2e5 cases of 1..6 packets (0..70 bytes, ZLP requests, 4 PIDs) under cyclic stall patterns up to 24 cycles; accepted UTMI bytes per packet and number of stream bytes consumed compared with PID|payload|CRC16.",
            "Requests are issued only while the transmitter is idle; producer obeys the USBInStream hold rule.", "DESIGN.md §6 C03"),
    "C04": ("Hypothesis per-cycle request/tx_ready vectors into USBHandshakeGenerator and UTMI packet histories into USBHandshakeDetector vs. trace oracles (pysim)",
            "1e4+1e4 / 1e5+1e5 cases; generator: each idle request -> exactly one held single-byte packet with the right PID byte, busy requests ignored; detector: exactly one strobe on the right line per well-formed one-byte handshake, none otherwise.",
            "One request kind per cycle; request-to-packet latency not asserted.", "DESIGN.md §6 C04"),
    "C05": ("Hypothesis start/speed/wait schedules on USBInterpacketTimer (3 builds, 2 interfaces) vs. delay table entered from the statement (pysim, per-cycle)",
            "5e3 / 8e4 schedules (restarts, waits around every table value, silences to 700 cycles, mid-wait speed switches, from-reset); every strobe of both interfaces compared every cycle.",
            "6.5-bit deadline may round either way (32|33, 6|7) but must strobe exactly once; fs_only builds asserted at FS only.", "DESIGN.md §6 C05"),
    "C06": ("Hypothesis wire histories (tokens, good/corrupt/short data, foreign traffic) ending in a valid SETUP into USBSetupDecoder(standalone) at FS and HS vs. reference scan (pysim)",
            "8e3 / 1e5 histories; own SETUP token immediately followed by CRC-valid 8-byte DATA0 must give exactly one received strobe with all fields and one ack no earlier than the gap; no report outside a pending own SETUP.",
            "SETUP followed by unrelated packets and then valid data, and DATA1/2 after SETUP, are not judged (statement ambiguous).", "DESIGN.md §6 C06"),
    "C21": ("Hypothesis SOF number sequences interleaved with corrupted SOFs and other packets into a real USBDevice (no endpoints) vs. model from the statement (pysim)",
            "8e3 / 8e4 histories with repeats (runs up to 8), increments, skips, wraps, jumps; frame_number, microframe_number and new_frame strobes checked per packet, no transient values.",
            "Runs of identical numbers capped at 8 (no microframe wrap); sof_detected not asserted; bare-UTMI (FS wiring) device.", "DESIGN.md §6 C21"),
    "C28": ("Hypothesis raw OUT-stream packets with strobe placement into USBOutStreamBoundaryDetector vs. trace oracle (pysim)",
            "1.5e4 / 1.5e5 cases of 1..10 packets (0..40 bytes, gaps, lead/trail); processed bytes, first/last placement and complete_out/invalid_out (exactly once, after the last byte, only when requested) checked per packet.",
            "Input shaped as USBDataPacketReceiver produces it; zero-length packets and a strobe in the first-byte cycle not judged.", "DESIGN.md §6 C28"),
    "C31": ("Hypothesis word/stall/hold schedules vs. bit-serial reference LFSR (pysim); exhaustive LFSR state walk; scramble->descramble round trip",
            "All 65535 non-zero LFSR states enumerated; 1.3e4 (quick) / 2e5 (thorough) schedules on Scrambler/Descrambler (4 initial values) judged every cycle against a keystream position derived from the statement, plus round trips with independent stall schedules.",
            "Hold is never generated over a COM-first word; clear only in not-valid cycles; producer keeps a stalled word stable.", "DESIGN.md §6 C31"),
    "C32": ("Hypothesis word histories vs. symbol-stream reference (input minus SKPs) on CTCSkipRemover (pysim)",
            "1.5e4 (quick) / 2e5 (thorough) word histories with K28.1 at every subset of byte positions, all-SKP runs, D28.1 look-alikes and not-valid words; output symbol stream compared with the filtered input after a flush tail.",
            "source.ready held at 1 as in the physical layer; latency not asserted.", "DESIGN.md §6 C32"),
    "C33": ("Hypothesis burst/idle link streams vs. reference keystream + SKP-debt model on Scrambler+CTCSkipInserter and on the real USB3PhysicalLayer (stub PIPE PHY); can_send_skp invariant on the real USB3LinkLayer under LTSSM/TS/compliance traffic (pysim)",
            "2e3 (quick) / 5e4 (thorough) link streams of up to ~3000 words judged word by word (only filler replaced, nothing lost or reordered, keystream frozen over SKPs, SKP pairs sent iff >=2 sets owed at 1 per 354 symbols +-1 word); 160 / 5e3 LTSSM event schedules on USB3LinkLayer checking can_send_skp => valid logical idle.",
            "can_send_skp exactly on filler; backlog kept below the 3-bit counter's wrap; first two words after reset not judged; arbiter inputs not observable (visible consequence checked); no U0 packet traffic through the link layer.", "DESIGN.md §6 C33"),
    "C34": ("Hypothesis symbol streams built by construction vs. re-chunking reference on RxWordAligner/RxPacketAligner (pysim)",
            "1e4 (quick) / 1.5e5 (thorough) streams with alignment sequences at all four byte offsets, offset changes, look-alikes and not-valid words; every valid output word and alignment_offset compared with the input cut into 4-symbol words from the last sequence.",
            "Sequences are exactly four COMs (runs of >=5 have no unique alignment); first word after reset not judged.", "DESIGN.md §6 C34"),
    "C42": ("Hypothesis burst/period envelopes around every window edge on LFPSDetector (polling 125/25/33 MHz, reset 100/10 kHz, synthetic patterns, ping 12.5 MHz) and generate schedules on LFPSGenerator, event-list simulation with change-driven sampling (pysim); enumerated full-length ping repeats",
            "2.6e3 (quick) / 4e4 (thorough) envelopes judged for required and forbidden detect strobes with exact cycle windows (one-cycle quantisation band unasserted); 2 (quick) / 144 (thorough) real 2-3 M-cycle ping repeats on the window edges; 5e2 / 8e3 generator schedules.",
            "Envelope synchronous to the ss clock; detection expected after two in-window bursts and repeats (detector's documented behaviour); ping real-window cases are few because each costs 4-9 M cycles; LFPSTransceiver wiring not exercised.", "DESIGN.md §6 C42"),
    "C43": ("Hypothesis start/ready/request schedules vs. cycle model with specification symbols on TSEmitter; Hypothesis word streams vs. left-to-right set parser on TSBurstDetector (pysim)",
            "4e3/8e3 (quick), 5e4/1e5 (thorough) cases over 10 emitter and 12 detector configurations (TS1, TS2+config, TSEQ, inverted TS1; burst 1..20, threshold 1..10); exact burst length, symbols, config bits and done placement; exactly one detection per N consecutive well-formed sets with idle gaps allowed, none otherwise.",
            "Well-formed = symbol 4 zero and reserved bits zero; idle gap = not-valid words; real TSEQ burst length 65536 / threshold 32 not built.", "DESIGN.md §6 C43"),
    "C47": ("property-based: header-queue histories + enumerated bit patterns vs. reference ITP decode (pysim)",
            "1e4 / 1.5e5 histories into TimestampPacketReceiver over all 27 payload bits plus 39 enumerated walking-one / field-boundary cases; counter, delta and the update strobe compared; strobes without an ITP flagged.",
            "Unit level (not inside the full protocol layer); output latency 1 (or uniformly 2) cycles accepted.", "DESIGN.md §6 C47"),
    "C45": ("property-based: closed-loop request histories vs. specification-derived transaction-packet decoder (pysim)",
            "1e4 / 1.5e5 histories on TransactionPacketGenerator (one request kind per strobe, held strobes, queue ready delays, fields changing after the request); exactly one header per request with subtype and latched fields.",
            "Two send_* strobes in one cycle not generated; retry flag / sequence compared only in ACK TPs; endpoint numbers 0..15.", "DESIGN.md §6 C45"),
    "C48": ("property-based: link-receiver-shaped packet sequences into SuperSpeedSetupDecoder; descriptor request sequences vs. byte-exact model on the usb3 GetDescriptorHandler (pysim)",
            "1.2e4+6e3 / 2e5+8e4 cases; report iff good & setup & exactly 8 bytes with equal fields; descriptor prefix, tx_length, stall for unknown descriptors under ready patterns.",
            "6 fixed descriptor collections (elaboration cost); complete single-packet responses only; wLength=0 asserted only to produce no data and no stall.", "DESIGN.md §6 C48"),
    "C46": ("model-based property test: closed-loop host / TP-generator / packet-transmitter BFM, reference packetisation, event-log oracle (pysim)",
            "4.8e3 / 8e4 histories on SuperSpeedStreamInEndpoint (mps 16/32/64/1024): IN requests, ack-and-continue/stop, retries, NRDY/ERDY flow control, stray TPs, transmitter back-pressure; data/NRDY/ERDY, sequence numbers, retry identity, exactly-once stream with short/ZLP ends.",
            "Legal non-bursting host (NumP<=1); ep_reset not exercised; a host that polls during flow control not modelled.", "DESIGN.md §6 C46"),
    "C41": ("property-based: event-list histories (cooperative partner scripts incl. one-step-omitted negatives + adversarial pulses) with I/O-history monitors (pysim)",
            "1.5e3 / 2.5e4 histories on LTSSMController at 50 kHz (12 ms/2 ms/360 ms = 600/100/18000 cycles), both loosen_requirements; link_ready preconditions since last reset / last polling-recovery-hot-reset entry, reset removes link_ready, per-substate timeouts <= timeout+1 cycles, scrambling in U0.",
            "Monitors read ports only (no FSM state); TS2 phases timed until the first completion; power_on_reset port is unused by the DUT (reset = in_usb_reset); compliance/loopback not covered.", "DESIGN.md §6 C41"),
    "C50": ("Hypothesis SPI-host waveforms (word_size 1..24 x CPOL x CPHA x bit order x CS polarity, multi-word / multi-CS / partial words, SCK jitter) vs. host-side bit bookkeeping (pysim)",
            "1e4 (quick) / 1.5e5 (thorough) transactions; every word_complete strobe + word_in, and in CPHA=1 modes every SDO bit at the host's sample edges, compared with what the host sent / was promised.",
            "Pins synchronous to the DUT clock with >=1 cycle setup/hold; word_out changes only between latch points; LSB-first transmit asserted for msb_first=False.", "DESIGN.md §6 C50"),
    "C51": ("Hypothesis SPI transaction histories (reads/writes, assigned/neighbour/foreign addresses, CS aborts at any clock incl. mid-bit, extra clocks) on 8 register maps vs. register-file model (pysim)",
            "6e3 / 8e4 histories of 1..6 transactions; SDO at the host's sample edges, every memory register every cycle, write strobes per register per transaction compared with the model.",
            "SCK phases >=3 cycles, CS high >=4 cycles, SDI hold >=1 cycle, read-side signals stable while CS asserted.", "DESIGN.md §6 C51"),
    "C52": ("Hypothesis I2C message sequences on an open-drain bus model with an autonomous target BFM (ACK/NAK, read data, clock stretching) vs. wire-level protocol decoder (pysim)",
            "5e3 / 8e4 messages on 13 configurations; START/STOP events, 9 pulses per byte, bit values, ack_o/data_o/driven ACK, SDA stability while SCL high and no drive change while idle.",
            "Well-formed messages only; operations strobed only after busy was seen low; target changes SDA only while SCL low.", "DESIGN.md §6 C52"),
    "C53": ("Hypothesis transaction histories against a HyperRAM memory BFM (RWDS behaviours, both clock-phase alignments, gaps, PHY delay) vs. HyperBus CA reference + phase/contention invariants (pysim)",
            "1e4 / 1.5e5 histories of 1..4 transactions; CA words, CS shape, write-latency lower bound, read words, DQ/RWDS enables per cycle.",
            "Fixed 2x-latency memory model (first read data at bus clock 17, write lower bound 16: an off-by-one latency would not be caught); start_transfer raised only after idle was seen.", "DESIGN.md §6 C53"),
    "C25": ("Hypothesis TX byte sequences / RX line packets (4x oversampled, every phase, drift slips, stuffing violations, op_mode, pull controls) vs. independent FS line encoder/decoder (NRZI, bit stuffing, SYNC/EOP) on 8 configurations (pysim, 12+48 MHz)",
            "5e3 / 8e4 event sequences; driven D+/D- samples compared symbol-for-symbol with the reference encoding, rx_active/rx_valid/rx_data framing at usb clock edges, rx_error for violations, no drive in op_mode 1, pull outputs every cycle.",
            "usb = usb_io/4 generated in the bench; registered UTMI producer, tx_data don't-care while idle; first bytes starting with five 1s excluded (stuffing there depends on whether SYNC's last 1 counts); drift as sample slips only; rx_error on good packets not asserted.", "DESIGN.md §6 C25"),
    "C22": ("Hypothesis PHY-side event lists through a ULPI 1.1 PHY bus-functional model into UTMITranslator (and ULPIRegisterWindow+ULPIRxEventDecoder for register reads); oracle computed from the recorded DIR/NXT/DATA wire trace",
            "1e4 (quick) / 1.3e5 (thorough) PHY histories (RxCmds, DIR+NXT and RxCmd-started receives, NXT throttling, mid-packet RxCmds, aborts, back-to-back, register reads with chained RxCmds, 1 in 4 with concurrent register writes/transmissions); UTMI bytes, packet grouping, rx_active and line-state/VBUS flags compared with the wire trace.",
            "PHY obeys ULPI 1.1 as modelled in bfm/g7_ulpi_phy.py; 'follows' judged with 1..2 cycles latency; reads not aborted after acceptance.", "DESIGN.md §6 C22"),
    "C23": ("Hypothesis UTMI transmit requests + PHY NXT/DIR schedules through the ULPI PHY BFM; oracle from what the PHY accepted",
            "6e3 / 8e4 cases of 1..40-byte packets, op_mode 0/2, NXT delay patterns, DIR bursts before and in the acceptance cycle of the transmit command; command byte, data bytes, STP cycle and data, tx_ready == PHY acceptance, data.oe low whenever DIR is high.",
            "Control inputs constant per case and start-up writes settled; PHY never raises DIR between command acceptance and STP.", "DESIGN.md §6 C23"),
    "C24": ("Hypothesis schedules of control-input changes, transmissions and PHY DIR/NXT behaviour through the ULPI PHY BFM with a register file",
            "4e3 / 6e4 event lists aimed at every phase of an in-flight register write and at transmission starts; every committed write must address 0x04/0x0A with a value requested during the write; after K=64+8*maxdelay quiet cycles the PHY's Function/OTG Control equal the requested composites; no transmission or write blocked within the cap.",
            "Bounded liveness only (explicit K and cycle cap); both PHY readings of a DIR rise in the STP cycle are generated.", "DESIGN.md §6 C24"),
    "C19": ("Hypothesis line-state event lists (durations a few cycles either side of every threshold, chirp trains, VBUS/disconnect/restriction/bus_busy) driven with tick().repeat, outputs sampled on change; oracle = necessary conditions computed from the input history",
            "48+1000 (quick) / 3e3+6e4 (thorough) histories on the shipped constants and on a subclass with all _CYCLES_* / 20; every bus_reset cycle, suspend entry, high-speed entry, chirp start, restriction while at HS and handshake duration judged against the statement's times.",
            "Only 'only-after / never / within' conditions are asserted; the scaled run checks FSM logic, not constants.", "DESIGN.md §6 C19"),
})

CLAIMED.update({
    "C30": ("Exhaustive enumeration (both CRC5s over 2^11 inputs; 65 536 tokens through USBTokenDetector) + affine-basis and Hypothesis samples of the six parallel CRC step functions in a comb wrapper + module walks, all against one bit-serial LFSR reference (pysim)",
            "CRC5 functions and token acceptance exhaustive; USB2 CRC16 step 2^21/2^24 pairs quick, all 2^24 thorough; 16x32/32x{8,16,24,32} steps: basis + 2e5 (quick) / 5e6 (thorough) random pairs; 6e3 / 1.2e5 module walks of 1..64 steps compared every cycle incl. reflection/inversion and next_crc look-aheads. Finds any wrong tap and non-affine faults with trigger probability >~1e-5; does not establish absence for the wide steps.",
            "Reference self-checked against USB2 spec vectors, the recorded USB3 headers and zlib.crc32. At most one of clear/advance_* per cycle for the USB3 modules; start together with rx_valid (start wins) for USB2, as callers do.", "DESIGN.md §6 C30"),
    "C27": ("Hypothesis start/max_length/ready schedules on 39 ConstantStreamGenerator and 9 StreamSerializer configurations vs. slice arithmetic on the constant (pysim, closed-loop consumer)",
            "1.75e4 (quick) / 2.4e5 (thorough) cases of 1..3 start requests each (start word, max_length 0..len+10, garbage while idle, stalls incl. on the last word, immediate restarts); accepted words, per-byte valid masks, first/last, hold-stability, single done pulse and output_length compared with data[start:][:max_length].",
            "start only while idle; start_position within the data (in words) and held with max_length until done; big-endian partial words read from the highest valid lane down; a failure to elaborate the default (no max_length_width) configuration is reported as a violation with its own signature.", "DESIGN.md §6 C27"),
    "C26": ("Hypothesis per-input burst schedules (valid-hold producers) and consumer ready patterns on 11 arbiter configurations; per-cycle candidate-selection oracle + end-to-end delivery (pysim, closed loop)",
            "2.3e4 (quick) / 3.4e5 (thorough) histories on StreamArbiter x1..4, SuperSpeedStreamArbiter x2/x4, HeaderQueueArbiter x1..3 and a 4-lane-valid StreamArbiter x2..3; every cycle some selected input must explain source and all ready outputs, the selection may not leave an input whose valid is held and must move to the lowest-index waiting input, idle == no input valid, accepted == delivered, bursts not interleaved.",
            "Producers hold valid/payload until ready; nothing assumed about the selection after reset or while all inputs are idle; multi-lane valid counts as offering while non-zero.", "DESIGN.md §6 C26"),
    "C55": ("Hypothesis strobe waveforms on 88 stretch_strobe_signal configurations vs. sliding-window OR (pysim)",
            "1e4 / 1e5 waveforms (runs around to_cycles, re-triggers, widened strobes) for to_cycles 1..40, allow_delay on/off, internal or caller-provided output/domain; output compared every cycle with the OR of the strobe over the last to_cycles cycles (shifted by 0 or 1, consistently, when delay is allowed).",
            "Strobe synchronous to the stretcher's domain; allow_delay permits but does not require the one-cycle shift.", "DESIGN.md §6 C55"),
    "C54": ("Hypothesis configurations (8 clock frequencies x reset/stop lengths 1..300, power-on on/off) and trigger waveforms on PHYResetController; pulse-train parser oracle (pysim)",
            "5e3 / 6e4 cases, each a freshly elaborated configuration with 0..4 trigger events (idle, during reset, during stop, straddling the end; pulses and levels); every phy_stop pulse must be exactly R+S cycles with phy_reset high in exactly its first R, start only at power-on or <=2 cycles after an idle trigger, every idle trigger must start one, and the controller must be idle R+S cycles later.",
            "'Always finishes' decided in bounded form (R+S+4 cycles); triggers while busy must not disturb the running sequence.", "DESIGN.md §6 C54"),
    "C56": ("Hypothesis input waveforms / trigger schedules / read-back orders on 75 IntegratedLogicAnalyzer configurations vs. the recorded input history (pysim)",
            "6e3 / 6e4 cases (depth 1..70, pretrigger 0..4, 1..2 captures, triggers 1..3 cycles wide plus extra triggers inside the capture, full read-back while inputs keep changing); the read-back must equal depth consecutive input values starting at T-pretrigger or T-pretrigger+1 (one reading for the whole capture, nothing else), complete low during and high after the capture.",
            "Pre-simulation inputs are 0; read address held two cycles; new captures requested only >=2 cycles after completion; 'sampling' not asserted.", "DESIGN.md §6 C56"),
    "C49": ("Hypothesis byte/word lists with per-item spacing on 40 UARTTransmitter and 24 UARTMultibyteTransmitter configurations; cycle-accurate 8N1 line decoder oracle (pysim, closed-loop producer)",
            "7e3 / 7e4 cases (divisor 1..40, widths 1..4, items already waiting / arriving within +-3 cycles of the frame end / late); tx checked every cycle: frames of exactly 10*divisor cycles, idle high, frame bytes == accepted bytes little-endian in order, and no item accepted while an earlier byte still waits for its frame.",
            "Producer holds valid/payload until ready; idle/driving outputs not asserted.", "DESIGN.md §6 C49"),
    "C29": ("Hypothesis word streams and byte-side ready patterns on USBMultibyteStreamInEndpoint (byte_width 1..8) with the inner byte endpoint stubbed at elaboration (mock.patch, no source change), plus a run with the real inner endpoint drained by a minimal host (pysim, closed loop)",
            "9.5e3 / 1.15e5 cases; bytes taken by the byte endpoint must equal the accepted words' little-endian bytes once each with first/last only on a flagged word's first/final byte, and a word may be accepted only when all earlier bytes have been taken; with the real inner endpoint additionally the concatenated host packets equal those bytes.",
            "Word producer holds valid until ready; first/last judged in the acceptance cycle; packetisation/retries are C11, the host always ACKs.", "DESIGN.md §6 C29"),
    "C37": ("model-based closed-loop PBT: legal link-partner BFM + reference acceptance model (pysim)",
            "6e3/1e5 histories of 3-24 partner actions: corrupted headers, LBAD/LRTY/retransmission cycles, wrong-sequence header, queue/source stalls, request strobes; LGOOD/queue/LBAD/LCRD/recovery judged against the model, credits+buffered <= 4 every cycle.",
            "Partner with >4 headers in flight not generated (illegal); buffer_count 4 only.", "DESIGN.md §6 C37"),
    "C38": ("Hypothesis crash-point histories: two-pass schedule-targeted link-down/reset into a closed-loop partner BFM (pysim)",
            "6e3/1e5 histories; link taken down at the dispatch/generate/first/last cycle of every command kind, 3 link-down modes (disable, warm reset, hot reset), traffic and corrupted headers while down; advertisement (LGOOD last-received, LCRD A-D), empty queue and C37's rules after re-entry.",
            "Commands completed while the link is down are not judged; headers arriving at the edge are judged by consistency.", "DESIGN.md §6 C38"),
    "C39": ("model-based closed-loop PBT: partner-receiver/protocol-layer BFM + go-back-N reference model over the reference-parsed wire (pysim)",
            "5e3/8e4 histories of 2-24 headers with corrupted transmissions and retransmissions, LBAD-aimed queue timing, credit starvation, mismatched LGOOD/LCRD and link re-entries; credits, numbering, order/content, retransmission set with DL before anything new, bounded liveness.",
            "Payload streaming, the 5 ms credit timeout and retirement after a mismatched LGOOD (unobservable: the link leaves U0) not covered.", "DESIGN.md §6 C39"),
})

# Additions made after the independently seeded changes (see DESIGN.md §13): appended to the level texts.
ADDENDA = {
    "C57": " CLEAR_FEATURE(ENDPOINT_HALT) for 0x84, 0x04, 0x83 and absent endpoints between transfers. Composite steps: un-ACKed data IN, then another endpoint's transfer with a host ACK, then the retry.",
    "C55": " The caller-provided output signal is observed as well as the returned one.",
    "C46": " One case in four runs 28-66 extra full packets (5-bit sequence number wraps). The host may re-poll a flow-controlled endpoint without ERDY; one recorded known finding (re-poll while the ERDY is pending).",
    "C44": " Nine clock frequencies incl. power-of-two cycle counts for 1 ms and 10 us.",
    "C39": " Partner ordering mismatch: LBAD overtaking LGOODs still pending for earlier headers, optionally aimed at the end of the header in flight.",
    "C36": " One DATA packet in ten carries 65-1024 bytes. A quarter of the payloads contain word-aligned byte images of framing ordered sets sent as data.",
    "C31": " Words of one repeated control code (SKP weighted) and framing ordered sets next to data. Plus a Sub on the real USB3PhysicalLayer transmit path (scrambler + SKP inserter) against the reference keystream.",
    "C24": " Plus Subs on a bus with a reset pin: multi-epoch usb-domain reset histories with a fresh PHY model after every reset.",
    "C09": " Plus a Sub on the whole USBDevice (8 configurations) with control transfers completed or abandoned at any packet boundary. wLength over the full 16 bits with weight around m*2^n.",
    "C08": " Host transactions with OTHER devices on the bus (foreign-address token, idle bus, host ACK) between the stages; one recorded known finding (late foreign-device ACK after an un-ACKed status ZLP).",
    "C05": " A segment may begin with a synchronous reset of the usb domain instead of a start. One enumerated 66300-cycle silence per configuration and speed.",
    "C01": " Several token images glued into one over-long packet (bad/valid head + filler + well-formed own token or SOF). The detector's speed input is driven HIGH/FULL/LOW per packet.",
    "C02": " Also packets with a non-data first byte and an embedded '<data PID> body CRC16'.",
    "C06": " A second Sub wires token detector (generated 7-bit device address) + CRC + timer + non-standalone decoder as device.py/control.py do; near-miss SETUP-like tokens (bad check nibble / CRC5 / foreign address) directly before valid data. CRC-valid over-long packets (payload P||crc16(P)||more; valid packet + trailing bytes).",
    "C07": " Control writes with a data stage abandoned after SETUP or 1-2 data packets, then control reads.",
    "C10": " Transfers before the judged request may be abandoned or lose an ACK; CLEAR_FEATURE over all 32 recipients and arbitrary 16-bit selectors. Plus a rig with a non-empty skiplist and an application handler.",
    "C14": " A second rig with stream endpoints 1 and 9 (IN+OUT) checks clear-halts naming endpoint numbers >= 8. Plus a Sub on USBStreamOutEndpoint at all three speeds with the FIFO filled at a chosen byte of a packet.",
    "C17": " Plus configurations with signal_domain != 'usb' (signal changing on usb cycle boundaries).",
    "C20": " Traffic addressed to another device address; rx_active tails of 0-6 cycles after the last byte. SOF frame numbers aliasing the device address.",
    "C21": " Bus resets (SE0 >= 305 cycles) and short SE0 glitches between SOFs: no new_frame without a received SOF. Data packets whose tail or middle is a well-formed SOF/token image.",
    "C22": " Plus a Sub on the real handle_clocking configuration (record with rst) with RxCmds inside/around the 60000-cycle start-up window.",
    "C23": " op_mode 0/2 mixed between packets of one case; a third of mode changes start the packet 0-6 cycles after the control change.",
    "C25": " Plus a Sub switching op_mode to non-driving at any cycle of a packet in flight. Badly encoded receive packets (omitted stuffed bits, runts, dribble bits) between good ones.",
    "C30": " Plus token sequences on one detector without reset (second exhaustive pass with an accepted neighbour token first) and the USB2 data receiver's acceptance under rx_valid gaps (C02's Sub reused). Plus USB3 header trains (back-to-back, forged/stale check fields) through RawHeaderPacketReceiver.",
    "C33": " enable_scrambling switched per word incl. the end-of-training shape on the real physical layer.",
    "C38": " Link-down instants also aimed at received headers' last word (-2..+8); a header counted by the advertisement must have been accepted (offered on the queue or LGOODed); request strobes pulsed during the down period. Plus a Sub on the complete USB3LinkLayer (mock PHY, host BFM): 2-6 U0 periods entered by training, Recovery or hot reset; advertisement and sequence numbers judged after every entry.",
    "C40": " Long packets (1020-1024, 2^k+-1) in 1 of 40. Aborted payloads whose end-bad framing symbols alias the missing CRC bytes are built by construction (one recorded known finding).",
    "C41": " Warm-reset pulses (1-640 cycles) injected after any script step incl. Hot Reset.Active/Exit and recovery substates.",
    "C45": " Plus an open-loop Sub strobing requests at every offset around the queue's acceptance cycle.",
    "C47": " Whole 128-bit header generated (link-control word incl. Delayed bit); plus a Sub on the real USB3ProtocolLayer with link.in_reset pulses around the transfer cycle.",
    "C48": " wLength over the full 16 bits with weight on 2^k, 2^k+-1.",
    "C51": " Aborts releasing CS together with the SCK edge; over-long frames with command-shaped surplus clocks.",
    "C52": " START after an ACKed read and START directly after START are generated.",
    "C56": " Extra triggers in every cycle in which sampling is high, including the last. Read address parked on the last/first/any index from the trigger or around the end of the capture; captured_sample judged whenever complete is high.",
}
for _k, _v in ADDENDA.items():
    if _k in CLAIMED:
        t = CLAIMED[_k]
        CLAIMED[_k] = (t[0], t[1] + _v, t[2], t[3])

# Only checks listed here are claimed in MANIFEST.json (verified quiet on the current tree, sensitive to their mutants).
READY = [f"C{i:02d}" for i in range(1, 58)]

NOT_BUILT_REASON = "check not built yet (work in progress; see DESIGN.md §6 for the planned generator/oracle)"


def build():
    props = [json.loads(l) for l in open(os.path.join(VERIF_DIR, "properties.jsonl"))]
    checks = []
    na = []
    for p in props:
        pid = p["id"]
        if pid in CLAIMED and pid in READY and os.path.exists(os.path.join(VERIF_DIR, "lunaverif", "props", pid.lower() + ".py")):
            tech, text, note, ref = CLAIMED[pid]
            checks.append(dict(
                property_id=pid,
                quick_cmd=f"./check {pid} --tier quick",
                thorough_cmd=f"./check {pid} --tier thorough",
                evidence_file=f"evidence/{pid}.json",
                replay_cmd_template=f"./check {pid} --replay {{path}}",
                engine="lunaverif",
                level_claimed=dict(category="exploration", text=text, design_ref=ref),
                level_note=note,
                technique=tech,
            ))
        else:
            na.append(dict(property_id=pid, reason=NA_REASONS.get(pid, NOT_BUILT_REASON)))
    man = dict(
        version=1,
        setup_cmd="./setup.sh",
        hooks=dict(guard="LUNA_VERIF", enable="no source hooks: checks import luna from /repo's working tree "
                   "(PYTHONPATH=/repo) and observe public ports only; LUNA_VERIF=1 is exported by ./check but no "
                   "repository code reads it",
                   baseline_off_cmd="cd /repo && /venv/bin/python -m pytest -ra -q -p no:cacheprovider --timeout=900 "
                                    "--continue-on-collection-errors",
                   source_commits=[], add_only=True),
        engines=[dict(name="lunaverif", path="lunaverif/run.py",
                      serves_properties=[c["property_id"] for c in checks],
                      kind_free_text="Hypothesis-driven generated-input search against reference models, executed on "
                                     "the Amaranth Python simulator; 16-way sharded; replay files bypass Hypothesis")],
        checks=checks,
        notes="All checks: exit 0 held / 1 VIOLATION / 2 harness error. VERIF_SEED selects the Hypothesis seed "
              "(worker w uses VERIF_SEED*1000+w). known_findings.json lists repaired (fixed:) and recorded defects.",
        not_applicable=na,
    )
    with open(os.path.join(VERIF_DIR, "MANIFEST.json"), "w") as f:
        json.dump(man, f, indent=1)
        f.write("\n")
    return man


NA_REASONS = {}

if __name__ == "__main__":
    m = build()
    print("claimed:", len(m["checks"]), "not_applicable:", len(m["not_applicable"]))
