"""Build-once / reset-per-case simulation harness on top of Amaranth's pysim.

Cycle model used by every harness:  in cycle t the testbench applies inputs i_t, the
DUT's outputs o_t = f(state_t, i_t) are sampled at the clock edge that ends the cycle
(i.e. exactly what the DUT's own synchronous logic sees), and state_{t+1} = g(state_t, i_t).

    h = CycleHarness(dut, ins={"name": signal, ...}, outs={"name": signal, ...})
    trace = h.run_script([{"name": value, ...}, ...])      # open-loop; returns list of tuples
    trace = h.run_driver(driver, max_cycles)               # closed-loop BFM

A *driver* is any object with ``step(t, prev) -> dict | None``: it is called before cycle t
with the outputs sampled in cycle t-1 (None for t = 0) and returns the inputs that CHANGE
in cycle t (unmentioned inputs keep their value); returning None ends the run.  This makes
BFM decisions in cycle t depend only on DUT outputs of cycles < t, as real hardware on the
other side of a registered interface would.

One elaborated simulator is reused for all cases (Simulator.reset()), which is what makes
10^4..10^5 cases per run affordable.
"""

import warnings
from collections import namedtuple

from amaranth.sim import Simulator

warnings.filterwarnings("ignore", category=RuntimeWarning)


class CycleHarness:
    def __init__(self, dut, ins, outs, domain="sync", period=1e-6, extra_clocks=None):
        self.dut = dut
        self.in_names = list(ins)
        self.in_sigs = [ins[n] for n in self.in_names]
        self.out_names = list(outs)
        self.out_sigs = [outs[n] for n in self.out_names]
        self.Out = namedtuple("Out", self.out_names)
        self.domain = domain
        self.sim = Simulator(dut)
        self.sim.add_clock(period, domain=domain)
        for d, p in (extra_clocks or {}).items():
            self.sim.add_clock(p, domain=d)
        self._job = None
        self._first = True
        self.sim.add_testbench(self._tb)

    async def _tb(self, ctx):
        job = self._job
        if job is None:
            return
        in_sigs = dict(zip(self.in_names, self.in_sigs))
        outs = self.out_sigs
        Out = self.Out
        trace = job["trace"]
        dom = self.domain
        kind = job["kind"]
        if kind == "script":
            cur = {}
            for vec in job["script"]:
                for n, v in vec.items():
                    if cur.get(n) != v:
                        ctx.set(in_sigs[n], v)
                        cur[n] = v
                vals = await ctx.tick(dom).sample(*outs)
                trace.append(Out(*[int(v) for v in vals[-len(outs):]]))
            for _ in range(job["tail"]):
                vals = await ctx.tick(dom).sample(*outs)
                trace.append(Out(*[int(v) for v in vals[-len(outs):]]))
        else:
            driver = job["driver"]
            prev = None
            cur = {}
            for t in range(job["max_cycles"]):
                upd = driver.step(t, prev)
                if upd is None:
                    break
                for n, v in upd.items():
                    if cur.get(n) != v:
                        ctx.set(in_sigs[n], v)
                        cur[n] = v
                vals = await ctx.tick(dom).sample(*outs)
                prev = Out(*[int(v) for v in vals[-len(outs):]])
                trace.append(prev)

    def _go(self, job):
        self._job = job
        if not self._first:
            self.sim.reset()
        self._first = False
        self.sim.run()
        return job["trace"]

    def run_script(self, script, tail=0):
        """script: list of dicts {input name: value}; a name missing from a dict keeps its value
        (all inputs start at their reset value, normally 0)."""
        return self._go(dict(kind="script", script=script, tail=tail, trace=[]))

    def run_driver(self, driver, max_cycles):
        return self._go(dict(kind="driver", driver=driver, max_cycles=max_cycles, trace=[]))


def tick_result_width_check():
    """ctx.tick().sample(*sigs) returns (clk_hit, rst_active, *values) in Amaranth 0.5;
    CycleHarness slices the last len(outs) entries, which is robust to either layout."""
