"""Runner: ./check CNN [--tier quick|thorough] [--replay FILE] [--workers N] [--subs a,b]

exit 0  property held on everything explored (KNOWN-FINDING lines possible)
exit 1  "VIOLATION property=CNN replay=<path>"
exit 2  harness error (never reported as a violation)
"""

import argparse
import glob
import hashlib
import importlib
import json
import multiprocessing as mp
import os
import sys
import time
import traceback

VERIF_DIR = os.path.dirname(os.path.dirname(os.path.abspath(__file__)))

_STOP = None          # mp.Event shared by fork
_MOD = None           # property module (set before fork)
_ARGS = None
_KNOWN = None         # set of known signatures for this property
_SETUP_DONE = {}


def canon(case):
    return json.dumps(case, sort_keys=True, separators=(",", ":"))


def chash(case):
    return int.from_bytes(hashlib.blake2b(canon(case).encode(), digest_size=8).digest(), "big")


def load_known(prop_id):
    path = os.path.join(VERIF_DIR, "known_findings.json")
    if not os.path.exists(path):
        return []
    with open(path) as f:
        data = json.load(f)
    return [e for e in data.get("findings", []) if e.get("property") == prop_id]


def get_sub(idx):
    sub = _MOD.SUBS[idx]
    if idx not in _SETUP_DONE:
        sub.setup()
        _SETUP_DONE[idx] = True
    return sub


class Stats:
    def __init__(self):
        self.evaluations = 0
        self.nontrivial = set()
        self.hist = {}
        self.samples = []          # (len, canon) smallest non-trivial cases
        self.any_samples = []
        self.excluded = {}
        self.fail = None           # dict(case,msg,signature)
        self.harness_error = None
        self.budget_hit = False
        self.fails_seen = 0

    def record(self, case, res):
        self.evaluations += 1
        for lab in res.labels:
            self.hist[lab] = self.hist.get(lab, 0) + 1
        if res.nontrivial:
            self.nontrivial.add(chash(case))
            c = canon(case)
            if len(self.samples) < 3:
                self.samples.append((len(c), c))
                self.samples.sort()
            elif len(c) < self.samples[-1][0]:
                self.samples[-1] = (len(c), c)
                self.samples.sort()
        elif len(self.any_samples) < 2:
            self.any_samples.append(canon(case))

    def as_dict(self):
        return dict(evaluations=self.evaluations, nontrivial=list(self.nontrivial), hist=self.hist,
                    samples=[c for _, c in self.samples], any_samples=self.any_samples,
                    excluded=self.excluded, fail=self.fail, harness_error=self.harness_error,
                    budget_hit=self.budget_hit)


def judge(sub, case, stats):
    """Run one case; returns True when the case counts as a failure (unlisted violation)."""
    try:
        res = sub.run(case)
    except Exception:
        stats.harness_error = traceback.format_exc() + "\ncase=" + canon(case)[:4000]
        _STOP.set()
        return False
    stats.record(case, res)
    if res.ok:
        return False
    sig = res.signature or "unclassified"
    if sig in _KNOWN:
        stats.excluded[sig] = stats.excluded.get(sig, 0) + 1
        return False
    c = canon(case)
    if stats.fail is None or len(c) < len(stats.fail["canon"]):
        stats.fail = dict(canon=c, msg=res.msg, signature=sig)
    stats.fails_seen += 1
    return True


def task_enumerate(sub_idx, w, nw, tier, deadline):
    stats = Stats()
    try:
        sub = get_sub(sub_idx)
        cases = sub.enumerate(tier)
        for i, case in enumerate(cases):
            if i % nw != w:
                continue
            if _STOP.is_set():
                break
            if time.monotonic() > deadline:
                stats.budget_hit = True
                break
            if judge(sub, case, stats):
                _STOP.set()
                break
    except Exception:
        stats.harness_error = traceback.format_exc()
        _STOP.set()
    return sub_idx, "enum", stats.as_dict()


def task_hypothesis(sub_idx, w, n_examples, seed, tier, deadline):
    import hypothesis
    from hypothesis import given, settings, HealthCheck, Phase, Verbosity
    stats = Stats()
    try:
        sub = get_sub(sub_idx)
        strat = sub.strategy()
        state = dict(since_fail=0)

        class Found(Exception):
            pass

        @hypothesis.seed(seed)
        @settings(max_examples=n_examples, database=None, deadline=None, derandomize=False,
                  report_multiple_bugs=False, suppress_health_check=list(HealthCheck),
                  phases=(Phase.generate, Phase.shrink), verbosity=Verbosity.quiet)
        @given(strat)
        def test(case):
            if stats.harness_error is not None:
                return
            if stats.fail is None:
                if _STOP.is_set():
                    return
                if time.monotonic() > deadline:
                    stats.budget_hit = True
                    return
            else:
                # shrinking: bounded number of further evaluations
                state["since_fail"] += 1
                if state["since_fail"] > sub.shrink_budget:
                    return
            if judge(sub, case, stats):
                raise Found()

        try:
            test()
        except Found:
            pass
        except Exception as e:      # Flaky / other Hypothesis-level errors
            if stats.fail is None and stats.harness_error is None:
                stats.harness_error = traceback.format_exc()
        if stats.fail is not None:
            _STOP.set()
    except Exception:
        stats.harness_error = traceback.format_exc()
        _STOP.set()
    return sub_idx, "hyp", stats.as_dict()


def _run_task(t):
    kind = t[0]
    if kind == "enum":
        return task_enumerate(*t[1:])
    return task_hypothesis(*t[1:])


def write_replay(prop_id, sub_name, case, msg, signature):
    d = os.path.join(VERIF_DIR, "replays", "found")
    os.makedirs(d, exist_ok=True)
    h = hashlib.blake2b(canon(case).encode(), digest_size=6).hexdigest()
    path = os.path.join(d, f"{prop_id}-{sub_name}-{h}.json")
    with open(path, "w") as f:
        json.dump(dict(property=prop_id, sub=sub_name, case=case, msg=msg, signature=signature), f, indent=1)
    return path


def replay_file(path, known):
    with open(path) as f:
        rp = json.load(f)
    names = [s.name for s in _MOD.SUBS]
    if rp["sub"] not in names:
        return "skip", f"sub {rp['sub']} not present", None
    sub = get_sub(names.index(rp["sub"]))
    res = sub.run(rp["case"])
    if res.ok:
        return "pass", "", None
    sig = res.signature or "unclassified"
    if sig in known:
        return "known", res.msg, sig
    return "fail", res.msg, sig


def main(argv=None):
    global _STOP, _MOD, _ARGS, _KNOWN
    ap = argparse.ArgumentParser()
    ap.add_argument("prop")
    ap.add_argument("--tier", default=os.environ.get("VERIF_TIER", "quick"), choices=["quick", "thorough"])
    ap.add_argument("--replay")
    ap.add_argument("--workers", type=int, default=int(os.environ.get("VERIF_WORKERS", "16")))
    ap.add_argument("--subs", default="")
    ap.add_argument("--scale", type=float, default=float(os.environ.get("VERIF_SCALE", "1")))
    ap.add_argument("--max-wall", type=float, default=None)
    ap.add_argument("--no-evidence", action="store_true")
    ap.add_argument("--also-known", default="", help="development only: comma-separated extra signatures to "
                    "treat as known findings so that the search continues past them")
    args = ap.parse_args(argv)
    _ARGS = args
    prop_id = args.prop.upper()
    seed = int(os.environ.get("VERIF_SEED", "1"))
    t0 = time.monotonic()

    try:
        _MOD = importlib.import_module("lunaverif.props." + prop_id.lower())
    except Exception:
        traceback.print_exc()
        print(f"HARNESS-ERROR property={prop_id} cannot import check module")
        return 2
    known_entries = load_known(prop_id)
    _KNOWN = {e["signature"] for e in known_entries if e.get("status") == "known"}
    if args.also_known:
        _KNOWN |= set(args.also_known.split(","))
        print("DEVELOPMENT RUN: extra signatures treated as known:", args.also_known)
        args.no_evidence = True
    _STOP = mp.Event()

    # ---- single replay -------------------------------------------------------------
    if args.replay:
        try:
            verdict, msg, sig = replay_file(args.replay, _KNOWN)
        except Exception:
            traceback.print_exc()
            print(f"HARNESS-ERROR property={prop_id} replay raised")
            return 2
        print(f"replay {args.replay}: {verdict} {msg}")
        if verdict == "fail":
            print(f"VIOLATION property={prop_id} replay={args.replay}")
            return 1
        if verdict == "known":
            print(f"KNOWN-FINDING: property={prop_id} {sig}: {msg}")
        return 0

    subs = list(enumerate(_MOD.SUBS))
    if args.subs:
        want = set(args.subs.split(","))
        subs = [(i, s) for i, s in subs if s.name in want]
    max_wall = args.max_wall or (420 if args.tier == "quick" else 6 * 3600)
    deadline = time.monotonic() + max_wall

    # ---- committed replays (regression tier) -----------------------------------------
    replays_run = 0
    known_hits = {}
    for path in sorted(glob.glob(os.path.join(VERIF_DIR, "replays", prop_id, "*.json"))):
        try:
            verdict, msg, sig = replay_file(path, _KNOWN)
        except Exception:
            traceback.print_exc()
            print(f"HARNESS-ERROR property={prop_id} replay {path} raised")
            return 2
        replays_run += 1
        if verdict == "fail":
            print(f"replay {path}: FAIL [{sig}] {msg}")
            print(f"VIOLATION property={prop_id} replay={path}")
            return 1
        if verdict == "known":
            known_hits[sig] = known_hits.get(sig, 0) + 1

    # ---- generated search ---------------------------------------------------------------
    nw = max(1, args.workers)
    tasks = []
    for i, sub in subs:
        try:
            has_enum = sub.enumerate(args.tier) is not None
        except Exception:
            traceback.print_exc()
            print(f"HARNESS-ERROR property={prop_id} enumerate() raised")
            return 2
        if has_enum:
            for w in range(nw):
                tasks.append(("enum", i, w, nw, args.tier, deadline))
        n = int(sub.budget.get(args.tier, 0) * args.scale)
        if n > 0:
            k = min(nw, n)
            per = -(-n // k)
            for w in range(k):
                tasks.append(("hyp", i, w, per, seed * 1000 + w, args.tier, deadline))
    # interleave so that slow subs start early
    tasks.sort(key=lambda t: (t[2] if t[0] == "hyp" else t[2], t[1]))

    results = []
    if nw == 1:
        for t in tasks:
            results.append(_run_task(t))
    else:
        ctx = mp.get_context("fork")
        with ctx.Pool(nw) as pool:
            for r in pool.imap_unordered(_run_task, tasks, chunksize=1):
                results.append(r)

    merged = {}
    for sub_idx, kind, st in results:
        m = merged.setdefault(sub_idx, dict(evaluations=0, nontrivial=set(), hist={}, samples=[], any_samples=[],
                                            excluded={}, fails=[], errors=[], budget_hit=False, enum=False))
        m["evaluations"] += st["evaluations"]
        m["nontrivial"].update(st["nontrivial"])
        for k, v in st["hist"].items():
            m["hist"][k] = m["hist"].get(k, 0) + v
        m["samples"].extend(st["samples"])
        m["any_samples"].extend(st["any_samples"])
        for k, v in st["excluded"].items():
            m["excluded"][k] = m["excluded"].get(k, 0) + v
        if st["fail"]:
            m["fails"].append(st["fail"])
        if st["harness_error"]:
            m["errors"].append(st["harness_error"])
        m["budget_hit"] |= st["budget_hit"]
        if kind == "enum":
            m["enum"] = True

    errors = [(i, e) for i, m in merged.items() for e in m["errors"]]
    fails = [(i, f) for i, m in sorted(merged.items()) for f in m["fails"]]
    for i, m in merged.items():
        for k, v in m["excluded"].items():
            known_hits[k] = known_hits.get(k, 0) + v

    rc = 0
    violations = 0
    if fails:
        # smallest failing case overall; confirm it reproduces in this (fresh) process
        i, f = min(fails, key=lambda x: len(x[1]["canon"]))
        sub = _MOD.SUBS[i]
        case = json.loads(f["canon"])
        try:
            res = get_sub(i).run(case)
            reproduced = not res.ok
        except Exception:
            traceback.print_exc()
            reproduced = False
        if not reproduced:
            print(f"HARNESS-ERROR property={prop_id} failure did not reproduce in a fresh process: {f['msg']}")
            print("case=" + f["canon"][:2000])
            rc = 2
        else:
            path = write_replay(prop_id, sub.name, case, f["msg"], f["signature"])
            print(f"failure [{sub.name}] [{f['signature']}]: {f['msg']}")
            print(f"VIOLATION property={prop_id} replay={path}")
            rc = 1
            violations = len({ff['signature'] for _, ff in fails})
    if errors and rc == 0:
        i, e = errors[0]
        print(e)
        print(f"HARNESS-ERROR property={prop_id} sub={_MOD.SUBS[i].name}")
        rc = 2

    for e in known_entries:
        if e.get("status") == "known":
            print(f"KNOWN-FINDING: property={prop_id} {e['signature']}: {e.get('description','')} "
                  f"(cases hitting it in this run: {known_hits.get(e['signature'], 0)})")

    if rc != 2 and not args.no_evidence:
        write_evidence(prop_id, args, seed, t0, merged, subs, replays_run, known_entries, known_hits, violations)
    tot = sum(m["evaluations"] for m in merged.values())
    nt = sum(len(m["nontrivial"]) for m in merged.values())
    print(f"{prop_id} tier={args.tier} seed={seed} evaluations={tot} distinct_nontrivial={nt} "
          f"replays={replays_run} wall={time.monotonic()-t0:.1f}s exit={rc}")
    return rc


def write_evidence(prop_id, args, seed, t0, merged, subs, replays_run, known_entries, known_hits, violations):
    subcov = {}
    samples = []
    rules = []
    tot = 0
    nt = 0
    all_exh = bool(merged)
    budget_hit = False
    for i, sub in subs:
        m = merged.get(i)
        rules.append(f"[{sub.name}] {sub.rule}")
        if not m:
            all_exh = False
            continue
        tot += m["evaluations"]
        nt += len(m["nontrivial"])
        budget_hit |= m["budget_hit"]
        exh = bool(m["enum"] and sub.exhaustive and not m["budget_hit"])
        if not (exh and sub.budget.get(args.tier, 0) == 0):
            all_exh = False
        ss = sorted(set(m["samples"]), key=len)[:3] or m["any_samples"][:2]
        subcov[sub.name] = dict(evaluations=m["evaluations"], distinct_nontrivial=len(m["nontrivial"]),
                                histogram=dict(sorted(m["hist"].items())), exhaustive_pass=exh,
                                excluded_known=m["excluded"], budget_hit=m["budget_hit"])
        for s in ss[:2]:
            samples.append(dict(sub=sub.name, case=json.loads(s)))
    ev = dict(
        property_id=prop_id, tier=args.tier, seed=seed, level="exploration",
        coverage=dict(evaluations=tot, distinct_nontrivial=nt, rule=" | ".join(rules), samples=samples[:8],
                      exhaustive=all_exh, subs=subcov, replays_run=replays_run,
                      excluded_known=known_hits, inconclusive_budget_hit=budget_hit,
                      workers=args.workers, scale=args.scale),
        assumptions=list(getattr(_MOD, "ASSUMPTIONS", [])) + [
            "Amaranth pysim executes the elaborated netlist faithfully",
            "reference models in lunaverif/ref are correct (self-checked against spec vectors at import)"],
        wall_s=round(time.monotonic() - t0, 2),
        violations=violations,
    )
    os.makedirs(os.path.join(VERIF_DIR, "evidence"), exist_ok=True)
    with open(os.path.join(VERIF_DIR, "evidence", prop_id + ".json"), "w") as f:
        json.dump(ev, f, indent=1)
        f.write("\n")


if __name__ == "__main__":
    sys.exit(main())
