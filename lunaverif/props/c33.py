"""C33 — transmit CTC inserts SKPs only in place of idle and often enough."""

from amaranth import Elaboratable, Module, Signal
from hypothesis import strategies as st

from lunaverif.core import Sub, Result, fail
from lunaverif.gen import long_lists, weighted
from lunaverif.simkit import CycleHarness
from lunaverif.ref import g3_usb3 as u3

PROPERTY = "C33"
ASSUMPTIONS = [
    "the link layer offers a word every cycle (sink.valid = 1, as physical/layer.py wires it) and the PHY side is "
    "always ready (no electrical idle after the first cycles)",
    "can_send_skp is asserted exactly on logical-idle filler words (link/layer.py:305); an all-zero word inside a "
    "burst (payload look-alike) is offered without it",
    "'transmitted symbols' counts every symbol on the wire, SKPs included; scheduling is judged with one word of "
    "slack either way",
    "idle words arrive often enough that fewer than 7 SKP ordered sets are ever outstanding (the scheduler's "
    "counter is 3 bits wide; its comment expects at most 4)",
    "the first two output words after reset (the ready handshake of the registered inserter settling) are not judged",
    "the link layer itself never sends a SKP word",
    "enable_scrambling is an LTSSM output (link/layer.py) and may change between any two words, also inside an idle "
    "run and with no COM nearby (it rises when the FSM enters Polling.Idle / Hot Reset.Exit / Recovery.Idle, a cycle or "
    "two after the last training set gave way to logical idle); it selects only whether a word is XORed: the "
    "keystream itself is the USB3 one (USB 3.2 6.4.3 / appendix B): it restarts at a COM and advances over every "
    "symbol except SKP whether or not scrambling is applied -- a receiver descrambles on exactly that assumption",
    "link-idle sub: the arbiter's inputs are internal to USB3LinkLayer.elaborate(); what is checked is the visible "
    "consequence (can_send_skp only over valid logical-idle words), under LTSSM/TS/compliance traffic, not under U0 "
    "packet traffic",
]

SKP_WORD = (0x3C3C3C3C, 0xF)
IDLE_RUNS = [1, 1, 2, 3, 5, 8, 20, 60, 120, 177, 178, 200, 400]
BURSTS = [1, 2, 5, 10, 40, 88, 89, 177, 266, 300]
MAX_BACKLOG = 6


class TxPath(Elaboratable):
    """Scrambler + CTCSkipInserter wired exactly as physical/layer.py:151-178 wires them."""

    def __init__(self):
        from luna.gateware.usb.stream import USBRawSuperSpeedStream
        self.sink = USBRawSuperSpeedStream()
        self.can_send_skp = Signal()
        self.enable_scrambling = Signal()
        self.tx_data = Signal(32)
        self.tx_datak = Signal(4)
        self.hold = Signal()

    def elaborate(self, platform):
        from luna.gateware.usb.usb3.physical.scrambling import Scrambler
        from luna.gateware.usb.usb3.physical.ctc import CTCSkipInserter
        m = Module()
        m.submodules.scrambler = scrambler = Scrambler(initial_value=0xffff)
        m.d.comb += [
            scrambler.enable.eq(self.enable_scrambling),
            scrambler.sink.stream_eq(self.sink, omit={'valid'}),
            scrambler.sink.valid.eq(1),
        ]
        m.submodules.tx_ctc = tx_ctc = CTCSkipInserter()
        m.d.comb += [
            tx_ctc.sink.stream_eq(scrambler.source),
            tx_ctc.can_send_skip.eq(self.can_send_skp),
            scrambler.hold.eq(tx_ctc.sending_skip),
            self.tx_data.eq(tx_ctc.source.data),
            self.tx_datak.eq(tx_ctc.source.ctrl),
            tx_ctc.source.ready.eq(1),
            self.hold.eq(tx_ctc.sending_skip),
        ]
        return m


class _StubPHY:
    def __init__(self):
        from luna.gateware.interface.pipe import TXDeemphMode
        widths = dict(reset=1, phy_status=1, phy_mode=2, rate=1, elas_buf_mode=1, tx_swing=1, tx_margin=3,
                      tx_ones_zeros=1, rx_termination=1, rx_polarity=1, rx_eq_training=1, power_present=1, rx_status=3,
                      power_down=2, tx_data=32, tx_datak=4, rx_data=32, rx_datak=4, rx_elec_idle=1, tx_elec_idle=1,
                      tx_detrx_lpbk=1)
        for n, w in widths.items():
            setattr(self, n, Signal(w, name="phy_" + n))
        self.tx_deemph = Signal(TXDeemphMode)


def _burst_word(bits, j):
    x = (bits + 0x9E3779B97F4A7C15 * (j + 1)) & 0xFFFFFFFFFFFFFFFF
    x ^= x >> 31
    x = (x * 0xBF58476D1CE4E5B9) & 0xFFFFFFFFFFFFFFFF
    x ^= x >> 29
    sel = x & 31
    data = (x >> 16) & 0xFFFFFFFF
    if sel < 18:
        return data, 0
    if sel < 21:
        return 0, 0                                  # payload that looks like logical idle
    if sel < 23:
        return 0xBCBCBCBC, 0xF                       # TS1/TS2 head
    if sel < 25:
        return (data & 0xFFFFFF00) | u3.COM, 0x1     # TSEQ-like head: COM + 3 data symbols
    if sel < 27:
        return 0xF7FBFBFB if sel == 25 else 0xF7FEFEFE, 0xF      # SHP SHP SHP EPF / SLC SLC SLC EPF
    if sel < 29:
        return (data & 0x00FFFFFF) | (u3.COM << 24), 0x8         # COM in the last symbol only
    syms = []
    for i in range(4):
        b = (data >> (8 * i)) & 0xFF
        k = (x >> (50 + i)) & 1
        if k:
            b = [u3.SHP, u3.SLC, u3.EPF, u3.END, u3.SDP, u3.EDB, u3.SUB, u3.COM][b & 7]
        syms.append((b, k))
    return u3.syms_to_word(syms)


def expand(case):
    """-> list of (data, ctrl, can_send_skp, enable_scrambling) offered words, honouring the backlog assumption by
    construction.  Segment kind 3 sets enable_scrambling := n & 1 from the next word on."""
    return [w + (e,) for w, e in zip(*_expand(case))]


def _expand(case):
    words = [(0, 0, 0), (0, 0, 0)]                 # reset settling: one idle word, offered twice (accepted once)
    ens = [case["enable"]] * 2
    en = case["enable"]
    n_acc = 1
    sent = 0

    def owed():
        return (4 * n_acc) // 354 - 2 * sent

    for kind, n, bits in case["segs"]:
        ens += [en] * (len(words) - len(ens))
        if kind == 3:
            en = n & 1
        elif kind == 0:
            for _ in range(IDLE_RUNS[n % len(IDLE_RUNS)]):
                words.append((0, 0, 1))
                if owed() >= 2:
                    sent += 1                      # planning estimate only (the oracle recomputes from the trace)
                n_acc += 1
        else:
            for j in range(BURSTS[n % len(BURSTS)]):
                if owed() >= MAX_BACKLOG:
                    words.append((0, 0, 1))
                    sent += 1
                    n_acc += 1
                d, c = _burst_word(bits, j)
                if kind == 2 and j % 3 == 0:
                    d, c = 0, 0
                words.append((d, c, 0))
                n_acc += 1
    words += [(0, 0, 1)] * 8
    ens += [en] * (len(words) - len(ens))
    return words, ens


_SW = st.tuples(st.just(3), st.integers(0, 1), st.just(0))          # enable_scrambling := n
_SEG = st.tuples(weighted([(0, 5), (1, 5), (2, 1)]), st.integers(0, 12), st.integers(0, (1 << 48) - 1))


class InserterSub(Sub):
    name = "inserter"
    budget = {"quick": 2000, "thorough": 50000}
    rule = ("link streams = bursts (1..300 words: data, K mixes, COM-first heads, all-zero payload look-alikes) "
            "separated by logical-idle runs of 1..400 words with can_send_skp exactly on the filler, through "
            "Scrambler+CTCSkipInserter wired as in physical/layer.py (3/4) or the real USB3PhysicalLayer with a stub "
            "PIPE PHY (1/4); oracle per output word: a SKP word only replaces filler; every other word equals the "
            "offered word scrambled with the bit-serial reference keystream that steps once per non-replaced word and "
            "restarts after COM-first words, whether or not scrambling is applied (enable_scrambling constant per case, "
            "switched at generated words, or the end-of-training shape: off, burst >= 177 words, first idle words, on); "
            "a filler word is replaced iff >= 2 SKP ordered sets are owed at one per "
            "354 transmitted symbols (+-1 word slack); non-trivial = >= 2 SKP words inserted, a burst >= 88 words, an "
            "all-zero look-alike kept, a COM restart, scrambling on")
    shrink_budget = 300

    def setup(self):
        self.h = {}

    def harness(self, name):
        if name not in self.h:
            if name == "txpath":
                dut = TxPath()
                ins = dict(data=dut.sink.data, ctrl=dut.sink.ctrl, cs=dut.can_send_skp, en=dut.enable_scrambling)
                outs = dict(txd=dut.tx_data, txk=dut.tx_datak, ready=dut.sink.ready)
                self.h[name] = CycleHarness(dut, ins, outs, domain="ss")
            else:
                from luna.gateware.usb.usb3.physical.layer import USB3PhysicalLayer
                phy = _StubPHY()
                dut = USB3PhysicalLayer(phy=phy, sync_frequency=1e6)
                ins = dict(data=dut.sink.data, ctrl=dut.sink.ctrl, cs=dut.can_send_skp, en=dut.enable_scrambling)
                outs = dict(txd=phy.tx_data, txk=phy.tx_datak, ready=dut.sink.ready)
                self.h[name] = CycleHarness(dut, ins, outs, domain="ss", extra_clocks={"sync": 1e-2})
        return self.h[name]

    def strategy(self):
        plain = st.fixed_dictionaries(dict(
            dut=weighted([("txpath", 3), ("layer", 1)]),
            enable=weighted([(1, 3), (0, 1)]),
            segs=long_lists(_SEG, min_size=1, max_size=24, average=9),
        ))
        # scrambling changes during the stream (kind-3 segments anywhere)
        switching = st.fixed_dictionaries(dict(
            dut=weighted([("txpath", 1), ("layer", 1)]),
            enable=st.integers(0, 1),
            segs=long_lists(st.one_of(_SEG, _SEG, _SEG, _SW), min_size=1, max_size=24, average=9),
        ))
        # the end of link training as the LTSSM produces it: scrambling off, a burst long enough to owe >= 2 SKP
        # ordered sets (>= 177 words without a slot), the first idle words (SKP inserted, scrambling still off),
        # scrambling on with no COM in between, further traffic
        long_burst = st.tuples(st.sampled_from([1, 2]), st.sampled_from([7, 8, 9]), st.integers(0, (1 << 48) - 1))
        first_idle = st.tuples(st.just(0), st.sampled_from([0, 2, 3, 4, 5]), st.just(0))
        late = st.builds(
            lambda dut, pre, b, i, mid, post: dict(dut=dut, enable=0,
                                                   segs=pre + [b, i] + mid + [(3, 1, 0)] + post),
            weighted([("txpath", 1), ("layer", 1)]), st.lists(_SEG, max_size=3), long_burst, first_idle,
            st.lists(st.tuples(st.just(0), st.integers(0, 4), st.just(0)), max_size=1),
            st.lists(st.one_of(_SEG, _SEG, _SW), min_size=1, max_size=6))
        return st.one_of(plain, plain, plain, switching, late).map(
            lambda c: dict(c, segs=[list(x) for x in c["segs"]]))

    def run(self, case):
        words = expand(case)
        script = [dict(data=d, ctrl=c, cs=cs, en=e) for d, c, cs, e in words]
        trace = self.harness(case["dut"]).run_script(script, tail=1)
        if [o.ready for o in trace[:3]] != [0, 1, 1] or any(not o.ready for o in trace[1:]):
            return fail(f"sink.ready pattern {[o.ready for o in trace[:6]]}.. (expected 0 then constant 1)",
                        signature="ready-pattern")
        state = u3.LFSR_INIT
        n_acc = 0              # words accepted in earlier cycles
        sent = 0               # SKP words inserted so far
        lookalike_kept = com_restart = False
        longest_burst = cur_burst = 0
        max_owed = 0
        skp_while_off = False          # a SKP word was inserted with scrambling off since the last keystream restart
        late_enable = switched = any_en = False
        for t in range(1, len(words)):
            d, c, cs, en = words[t]
            any_en = any_en or bool(en)
            switched = switched or en != words[t - 1][3]
            o = trace[t + 1]
            owed_lo = (4 * max(n_acc - 1, 0)) // 354 - 2 * sent
            owed_hi = (4 * (n_acc + 1)) // 354 - 2 * sent
            max_owed = max(max_owed, owed_lo)
            is_skp = (o.txd, o.txk) == SKP_WORD
            if is_skp:
                if not cs:
                    return fail(f"{case['dut']}: word offered in cycle {t} ({d:#010x}/{c:04b}, can_send_skp=0) was "
                                f"replaced by a SKP word", signature="non-idle-word-replaced")
                if owed_hi < 2:
                    return fail(f"{case['dut']}: SKP word sent in cycle {t + 1} with only {owed_hi} ordered sets owed "
                                f"({4 * n_acc} symbols accepted, {sent} SKP words sent)", signature="skp-not-owed")
                sent += 1
                if not en:
                    skp_while_off = True
            else:
                if en and skp_while_off:
                    late_enable = True
                key = u3.lfsr_word(state)[0] if en else 0
                exp = u3.scramble_word(d, c, key)
                if (o.txd, o.txk) != (exp, c):
                    if (o.txd ^ exp) == 0 and o.txk != c:
                        sig = "ctrl-mismatch"
                    elif en and any((o.txd, o.txk) == (u3.scramble_word(d, c, u3.lfsr_word(s2)[0]), c)
                                    for s2 in self._neighbours(state)):
                        sig = "keystream-out-of-step"
                    else:
                        sig = "word-lost-or-corrupted"
                    return fail(f"{case['dut']}: cycle {t + 1}: offered {d:#010x}/{c:04b} (can_send_skp={cs}) expected "
                                f"on the wire {exp:#010x}/{c:04b} got {o.txd:#010x}/{o.txk:04b} (LFSR {state:#06x}, "
                                f"{sent} SKP words so far)", signature=sig)
                if cs and owed_lo >= 2:
                    return fail(f"{case['dut']}: logical idle offered in cycle {t} with {owed_lo} SKP ordered sets owed "
                                f"({4 * n_acc} symbols, {sent} SKP words sent) was not replaced", signature="skp-not-sent-when-owed")
                if (d & 0xFF) == u3.COM and (c & 1):
                    state = u3.LFSR_INIT
                    com_restart = True
                    skp_while_off = False
                else:
                    state = u3.lfsr_word(state)[1]
                if not cs and (d, c) == (0, 0):
                    lookalike_kept = True
            if cs:
                cur_burst = 0
            else:
                cur_burst += 1
                longest_burst = max(longest_burst, cur_burst)
            n_acc += 1
        en = any_en
        labels = {f"dut={case['dut']}", "scrambling-switched" if switched else "scrambling-on" if en else
                  "scrambling-off", f"skp-words={min(sent, 5)}",
                  f"max-owed={min(max_owed, 7)}"}
        if longest_burst >= 88:
            labels.add("burst>=88")
        if longest_burst >= 266:
            labels.add("burst>=266")
        if lookalike_kept:
            labels.add("zero-lookalike")
        if com_restart:
            labels.add("com-restart")
        if late_enable:
            labels.add("scrambled-word-after-skp-inserted-while-off-no-com-between")
        labels.add("len>=1000" if len(words) >= 1000 else "len<1000")
        nt = sent >= 2 and longest_burst >= 88 and lookalike_kept and com_restart and bool(en)
        return Result(ok=True, nontrivial=nt, labels=tuple(sorted(labels)))

    @staticmethod
    def _neighbours(state):
        """LFSR states one or two word steps ahead / the initial state: used only to name a failure."""
        s1 = u3.lfsr_word(state)[1]
        s2 = u3.lfsr_word(s1)[1]
        return [s1, s2, u3.LFSR_INIT]


# =================================================================================================
#  "can_send_skp only when the arbiter is idle" on the real link layer
# =================================================================================================
class _StubPhysical:
    """Signal container standing in for USB3PhysicalLayer below a real USB3LinkLayer."""

    def __init__(self):
        from luna.gateware.usb.stream import USBRawSuperSpeedStream
        from luna.gateware.interface.pipe import TXDeemphMode
        self.sink = USBRawSuperSpeedStream()
        self.source = USBRawSuperSpeedStream()
        self.raw_source = USBRawSuperSpeedStream()
        widths = dict(ready=1, engage_terminations=1, tx_electrical_idle=1, tx_ones_zeros=1, invert_rx_polarity=1,
                      train_equalizer=1, vbus_present=1, enable_scrambling=1, perform_rx_detection=1,
                      link_partner_detected=1, no_link_partner_detected=1, send_lfps_polling=1, lfps_cycles_sent=16,
                      lfps_ping_detected=1, lfps_polling_detected=1, lfps_reset_detected=1, can_send_skp=1,
                      skip_removed=1)
        for n, w in widths.items():
            setattr(self, n, Signal(w, name="phys_" + n))
        self.tx_deemph = Signal(TXDeemphMode)


# event = (kind, duration code, value); the macro events are what it takes to move the LTSSM on purpose
#   0 wait                                   5 ping LFPS pulse (steps the compliance pattern)
#   1 LFPS handshake: lfps_cycles_sent       6 physical sink.ready drops for a few cycles
#     reaches 16+, polling LFPS seen,        7 PHY ready drops for the duration
#     four more bursts sent -> Polling.RxEQ  8 lone polling-LFPS pulse
#   2 warm-reset LFPS pulse                  9 lfps_cycles_sent := table[v]
#   3 VBUS drops for the duration            10 partner detect drops for the duration
#   4 wait longer than the 360 ms Polling.LFPS time-out (-> Compliance if no polling was seen)
_LEV = st.tuples(weighted([(0, 4), (1, 8), (2, 4), (3, 2), (4, 2), (5, 2), (6, 2), (7, 1), (8, 1), (9, 2), (10, 1)]),
                 st.integers(0, 7), st.integers(0, 15))
_LDUR = [1, 2, 3, 5, 9, 20, 60, 150]
_SENT = [0, 5, 12, 13, 16, 17, 20, 21, 24, 30, 40, 100, 1000, 15, 19, 25]
_LINK_CLOCK = 2e3          # 360 ms = 720 cycles, 12 ms = 24, 2 ms = 4


class LinkIdleSub(Sub):
    name = "link-idle"
    budget = {"quick": 160, "thorough": 5000}
    rule = ("real USB3LinkLayer (ss clock 2 kHz so that LTSSM time-outs are 4..720 cycles) over a stub physical "
            "layer; event schedules of PHY-ready / partner / VBUS levels, polling-, ping- and warm-reset-LFPS pulses, "
            "lfps_cycles_sent steps, physical sink.ready drops and long waits drive the LTSSM through Rx.Detect, "
            "Polling.LFPS, Polling.RxEQ (TSEQ traffic), Compliance (pattern traffic) and back; invariant checked every "
            "cycle: can_send_skp => the word offered to the physical layer is valid logical idle (00000000/0000); "
            "non-trivial = the run contains idle words with can_send_skp, >= 2 separate stretches of non-idle "
            "traffic and >= 200 non-idle words")
    shrink_budget = 60

    def setup(self):
        self.h = None

    def harness(self):
        if self.h is None:
            from luna.gateware.usb.usb3.link.layer import USB3LinkLayer
            ph = _StubPhysical()
            dut = USB3LinkLayer(physical_layer=ph, ss_clock_frequency=_LINK_CLOCK)
            ins = dict(ready=ph.ready, vbus=ph.vbus_present, partner=ph.link_partner_detected,
                       poll=ph.lfps_polling_detected, sent=ph.lfps_cycles_sent, rst=ph.lfps_reset_detected,
                       ping=ph.lfps_ping_detected, sready=ph.sink.ready)
            outs = dict(v=ph.sink.valid, d=ph.sink.data, c=ph.sink.ctrl, cs=ph.can_send_skp)
            self.h = CycleHarness(dut, ins, outs, domain="ss")
        return self.h

    def strategy(self):
        return st.fixed_dictionaries(dict(events=long_lists(_LEV, min_size=1, max_size=40, average=16)))

    def run(self, case):
        cur = dict(ready=1, vbus=1, partner=1, poll=0, sent=0, rst=0, ping=0, sready=1)
        script = [dict(cur)] * 3

        def hold(n, **over):
            if n > 0:
                script.extend([dict(cur, **over)] * n)

        for kind, dc, v in case["events"]:
            dur = _LDUR[dc]
            if kind == 0:
                hold(dur)
            elif kind == 1:
                cur["sent"] = [16, 17, 20, 13][v % 4]
                hold(1 + v % 3)
                hold(1, poll=1)
                hold(v % 2)
                cur["sent"] += 4 + (v >> 2) % 2
                hold(dur)
            elif kind == 2:
                hold(1, rst=1)
                hold(dur)
                cur["sent"] = 0
            elif kind == 3:
                hold(dur, vbus=0)
                cur["sent"] = 0
            elif kind == 4:
                cur["sent"] = 0
                hold(int(0.36 * _LINK_CLOCK) + 5 + 3 * v)
            elif kind == 5:
                hold(1, ping=1)
                hold(dur)
            elif kind == 6:
                hold(1 + v % 4, sready=0)
                hold(dur)
            elif kind == 7:
                hold(dur, ready=0)
            elif kind == 8:
                hold(1, poll=1)
                hold(dur)
            elif kind == 9:
                cur["sent"] = _SENT[v]
                hold(dur)
            else:
                hold(dur, partner=0)
        hold(10)
        trace = self.harness().run_script(script)
        idle_cs = 0
        nonidle = 0
        stretches = 0
        prev_nonidle = False
        for t, o in enumerate(trace):
            is_idle_word = o.v == 1 and o.d == 0 and o.c == 0
            if o.cs and not is_idle_word:
                return fail(f"cycle {t}: can_send_skp=1 while the link layer offers valid={o.v} data={o.d:#010x} "
                            f"ctrl={o.c:04b} (a SKP would replace it)", signature="can-send-skp-over-non-idle-word")
            if o.cs:
                idle_cs += 1
            ni = bool(o.v and (o.d or o.c))
            if ni:
                nonidle += 1
                if not prev_nonidle:
                    stretches += 1
            prev_nonidle = ni or (prev_nonidle and not o.cs)
        labels = {f"nonidle-stretches={min(stretches, 4)}", "nonidle>=200" if nonidle >= 200 else "nonidle<200",
                  "len>=3000" if len(script) >= 3000 else "len<3000"}
        nt = idle_cs > 0 and stretches >= 2 and nonidle >= 200
        return Result(ok=True, nontrivial=nt, labels=tuple(sorted(labels)))


SUBS = [InserterSub(), LinkIdleSub()]
