"""C22 — ULPI receive translation yields exactly the PHY's packet bytes."""

from hypothesis import strategies as st

from lunaverif.core import Sub, Result, fail
from lunaverif.gen import long_lists, weighted, bits
from lunaverif.bfm import g7_ulpi_phy as P
from lunaverif.bfm import g7_ulpi_gen as G

PROPERTY = "C22"
ASSUMPTIONS = [
    "the PHY obeys ULPI 1.1: one turnaround cycle after DIR rises; data bytes (DIR & NXT) only inside a receive "
    "(started by DIR rising with NXT, or an RxCmd with RxActive=1); a DIR+NXT start is followed by at least one "
    "RxCmd with RxActive=1; DIR and NXT fall together",
    "the PHY never asserts NXT in the turnaround cycle after it released the bus",
    "'follows' / 'equal the most recent RxCmd' are judged with a latency allowance of 1..2 cycles",
    "register reads (regread sub): the caller holds address/write_data from the request until done; reads are not "
    "aborted by a receive after the PHY accepted the read command",
    "startup sub: UTMITranslator built with a ULPI record that has clk.o and rst.o (handle_clocking=True); rst.o is "
    "the usb domain's reset, which is never asserted in the simulation, so cycle 0 is the first cycle after the PHY's "
    "reset line was released and the PHY may send RxCmds / receives in any simulated cycle (ULPI 1.1 does not tie "
    "the PHY to the link's own 1 ms hold-off); no PHY traffic is generated for a time at which rst.o is high",
]

FLAGS = ("line_state", "vbus_valid", "session_valid", "session_end")


def check_receive(trace, wire, rd_cycles, busy_at):
    """Oracle shared by both subs.  trace rows need rxa/rxv/rxd (optional) and the flag outputs."""
    A = P.analyse_wire(wire, rd_cycles)
    R, L = A["R"], A["L"]
    n = len(trace)
    has_rx = hasattr(trace[0], "rxv") if trace else False
    labels = set()

    def masked(t):
        return any(busy_at(u) for u in (t, t - 1)) if busy_at else False

    # ---- status flags equal the most recent RxCmd -----------------------------------------------
    for t in range(n):
        o = trace[t]
        got = {k: getattr(o, k) for k in FLAGS}
        c1 = P.decode_rxcmd(L[t - 1] if t >= 1 else 0)
        c2 = P.decode_rxcmd(L[t - 2] if t >= 2 else 0)
        if got != c1 and got != c2:
            # which RxCmd was not taken?
            tc = max([u for u, _ in A["cmds"] if u < t], default=0)
            sig = "rxcmd-ignored-while-register-window-busy" if masked(tc) else "status-flags-differ-from-last-rxcmd"
            return fail(f"cycle {t}: status flags {got} but most recent RxCmd (cycle {tc}) = 0x{L[t-1]:02x} -> {c1}",
                        signature=sig), None
    if not has_rx:
        return None, (A, labels)

    # ---- data bytes -------------------------------------------------------------------------------
    exp = [[b for _, b in p] for p in A["packets"]]
    got, cur = [], None
    for t in range(n):
        o = trace[t]
        if o.rxa:
            if cur is None:
                cur = []
                got.append(cur)
        else:
            cur = None
        if o.rxv:
            if cur is None:
                return fail(f"cycle {t}: rx_valid (0x{o.rxd:02x}) while rx_active is low",
                            signature="rx-valid-outside-rx-active"), None
            cur.append(o.rxd)
    ef = [b for p in exp for b in p]
    gf = [b for p in got for b in p]
    if ef != gf:
        # classify: first byte of an RxCmd-started receive presented right after the start RxCmd?
        sig = "rx-bytes-mismatch"
        lost_first = 0
        for p in A["packets"]:
            if p:
                t0 = p[0][0]
                d1, n1, x1 = wire[t0 - 1]
                started_by_cmd = (d1 and not n1 and (x1 & 0x10) and not R[t0 - 2]) if t0 >= 2 else False
                if started_by_cmd:
                    lost_first += 1
        cand = [b for p in A["packets"] for i, (t0, b) in enumerate(p)
                if not (i == 0 and t0 >= 2 and wire[t0 - 1][0] and not wire[t0 - 1][1] and (wire[t0 - 1][2] & 0x10)
                        and not R[t0 - 2])]
        stale = [t for t, x in A["cmds"] if (x & 0x10) and t >= 1 and not R[t - 1] and (L[t - 1] & 0x10)]
        if lost_first and cand == gf:
            sig = "first-byte-lost-when-data-follows-rxcmd-start"
        elif stale:
            sig = "rxcmd-start-missed-after-dir-terminated-receive"
        elif busy_at and any(busy_at(t) for t, _ in A["cmds"]):
            sig = "rx-bytes-mismatch-with-register-window-busy"
        return fail(f"UTMI bytes {gf} != bytes the PHY presented {ef} (PHY packets {exp})", signature=sig), None
    if [len(p) for p in exp if p] != [len(p) for p in got if p]:
        return fail(f"packet boundaries differ: PHY receives {[p for p in exp if p]} UTMI rx_active groups "
                    f"{[p for p in got if p]}", signature="rx-packet-boundaries"), None

    # ---- rx_active follows RxCmd / DIR -------------------------------------------------------------
    for t in range(n):
        r1 = R[t - 1] if t >= 1 else 0
        r2 = R[t - 2] if t >= 2 else 0
        if trace[t].rxa not in (r1, r2):
            tc = max([u for u, _ in A["cmds"] if u < t], default=0)
            sig = "rxcmd-ignored-while-register-window-busy" if masked(tc) else "rx-active-does-not-follow-phy"
            if [u for u, x in A["cmds"] if (x & 0x10) and 1 <= u < t and not R[u - 1] and (L[u - 1] & 0x10)]:
                sig = "rxcmd-start-missed-after-dir-terminated-receive"
            return fail(f"cycle {t}: rx_active={trace[t].rxa} but PHY receive state was {r2},{r1} in cycles "
                        f"{t-2},{t-1}", signature=sig), None
    return None, (A, labels)


def classify(A, wire):
    labels = set()
    pk = A["packets"]
    if any(len(p) >= 2 for p in pk):
        labels.add("packet>=2B")
    if any(len(p) >= 8 for p in pk):
        labels.add("packet>=8B")
    throttled = midcmd = False
    for p in pk:
        for (t0, _), (t1, _) in zip(p, p[1:]):
            if t1 > t0 + 1:
                throttled = True
                if len({wire[u][2] for u in range(t0 + 1, t1)} | {wire[p[0][0] - 1][2]}) > 1:
                    midcmd = True
    if throttled:
        labels.add("nxt-throttled")
    if midcmd:
        labels.add("rxcmd-changes-mid-packet")
    starts_dir = starts_cmd = 0
    for t in range(1, len(wire)):
        d, n, x = wire[t]
        if d and not wire[t - 1][0] and n:
            starts_dir += 1
        if d and wire[t - 1][0] and not n and (x & 0x10) and not A["R"][t - 1]:
            starts_cmd += 1
    if starts_dir:
        labels.add("dir+nxt-start")
    if starts_cmd:
        labels.add("rxcmd-start")
    stop_cmd = any(A["R"][t - 1] and not A["R"][t] and wire[t][0] for t in range(1, len(wire)))
    stop_dir = any(A["R"][t - 1] and not wire[t][0] for t in range(1, len(wire)))
    if stop_cmd:
        labels.add("rxcmd-stop")
    if stop_dir:
        labels.add("dir-drop-stop")
    if len({P.decode_rxcmd(x)["line_state"] for _, x in A["cmds"]}) > 1:
        labels.add("line-state-changes")
    nontrivial = ("packet>=2B" in labels) and (throttled or midcmd) and ("line-state-changes" in labels)
    return labels, nontrivial


class TranslatorRx(Sub):
    name = "translator"
    shrink_budget = 150
    budget = {"quick": 6000, "thorough": 80000}
    rule = ("UTMITranslator + ULPI PHY BFM: event lists of PHY bursts (RxCmds, receives started by DIR+NXT or by "
            "RxCmd, NXT throttling with RxCmds interleaved, stop by RxCmd or DIR drop, back to back), 1 case in 4 "
            "also with control-input changes / transmissions on the link side; oracle computed from the recorded "
            "DIR/NXT/DATA wire trace: UTMI bytes == bytes presented with NXT inside a receive (order, once, same "
            "packet grouping), rx_active within 1..2 cycles of the PHY receive state, line-state/VBUS flags == "
            "last RxCmd; non-trivial = a receive of >=2 bytes with throttling or a mid-packet RxCmd change, and "
            "RxCmds changing the line state")

    def setup(self):
        self.h = P.make_translator_harness()

    def strategy(self):
        rx_only = st.fixed_dictionaries(dict(
            init=st.just(G.RESET_CTL), delays=st.just([0]), cds=st.just(0),
            ev=long_lists(G.burst(), min_size=1, max_size=12, average=4)))
        link_ev = st.one_of(G.burst(), G.burst(trig=st.integers(0, 6)), G.ctl_change(sync=st.integers(0, 3)),
                            G.tx_request(sync=st.integers(0, 1), max_len=12, average=3))
        with_link = st.fixed_dictionaries(dict(
            init=G.ctl_values(), delays=G.DELAYS, cds=st.integers(0, 1),
            ev=long_lists(link_ev, min_size=1, max_size=14, average=6)))
        return st.one_of(rx_only, rx_only, rx_only, with_link)

    def run(self, case):
        evs = case["ev"]
        D = max(case["delays"])
        cap = 300 + sum(e["gap"] for e in evs) + 60 * len(evs)
        for e in evs:
            if e["k"] == "rx":
                cap += sum(s["n"] + sum(1 + b[1] for b in s.get("b", ())) + 3 for s in e["segs"])
            elif e["k"] == "tx":
                cap += (len(e["bytes"]) + 3) * (D + 1)
        drv = P.TranslatorDriver(case["init"], evs, case["delays"], quiet=8, cap=cap,
                                 commit_on_dir_stp=bool(case["cds"]))
        trace = self.h.run_driver(drv, cap + 2)
        phy = drv.phy
        link = any(e["k"] != "rx" for e in evs) or case["init"] != G.RESET_CTL
        # busy_at is used only to name the failure class, never for the verdict
        res, extra = check_receive(trace, phy.wire, phy.rd_cycles, lambda t: link)
        if res is not None:
            return res
        A, _ = extra
        labels, nontrivial = classify(A, phy.wire)
        if link:
            labels.add("link-side-activity")
        if any(s != "IDLE" for _, s in phy.burst_fires):
            labels.add("burst-interrupts-link")
        return Result(ok=True, nontrivial=nontrivial, labels=tuple(sorted(labels)))


# -------------------------------------------------------------------------------------------------
# One level down: ULPIRegisterWindow + ULPIRxEventDecoder, wired as in UTMITranslator, with BFM-served reads
# -------------------------------------------------------------------------------------------------

def make_window_harness():
    from amaranth import Elaboratable, Module
    from amaranth.hdl.rec import Record
    from luna.gateware.interface.ulpi import ULPIRegisterWindow, ULPIRxEventDecoder
    from lunaverif.simkit import CycleHarness

    class WindowAndDecoder(Elaboratable):
        def __init__(self):
            self.ulpi = Record([("dir", [("i", 1)]), ("nxt", [("i", 1)]), ("data", [("i", 8)])])
            self.window = ULPIRegisterWindow()
            self.decoder = ULPIRxEventDecoder(ulpi_bus=self.ulpi)

        def elaborate(self, platform):
            m = Module()
            m.submodules.window = w = self.window
            m.submodules.decoder = d = self.decoder
            # same wiring as UTMITranslator.elaborate (which masks the decoder with the window's `busy`; a
            # tree carrying proposed_fixes/C22-rxcmd-masked-by-pending-register-op.diff uses the narrower
            # `read_data_phase` output instead, and this wrapper follows it)
            m.d.comb += [
                d.register_operation_in_progress.eq(getattr(w, "read_data_phase", w.busy)),
                w.ulpi_data_in.eq(self.ulpi.data.i),
                w.ulpi_dir.eq(self.ulpi.dir.i),
                w.ulpi_next.eq(self.ulpi.nxt.i),
            ]
            return m

    dut = WindowAndDecoder()
    w, d = dut.window, dut.decoder
    ins = dict(dir=dut.ulpi.dir.i, nxt=dut.ulpi.nxt.i, di=dut.ulpi.data.i, addr=w.address, rd=w.read_request,
               wr=w.write_request, wd=w.write_data)
    outs = dict(do=w.ulpi_data_out, stp=w.ulpi_stop, busy=w.busy, done=w.done, read_data=w.read_data,
                last=d.last_rx_command, line_state=d.line_state, vbus_valid=d.vbus_valid,
                session_valid=d.session_valid, session_end=d.session_end)
    return CycleHarness(dut, ins, outs, domain="usb")


class WindowDriver:
    """PHY model + a register-request source that holds address/data from request to done."""

    def __init__(self, events, delays, cap, regs):
        self.phy = P.UlpiPhy(delays)
        self.phy.regs.update(regs)
        self.events = events
        self.ei = 0
        self.armed_at = 0
        self.cap = cap
        self.op = None
        self.ops = []
        self.quiet = 0
        self.busy = []

    def step(self, t, prev):
        upd = {}
        link = None if prev is None else (prev.do, prev.stp)
        if prev is not None:
            self.busy.append(prev.busy)
        if self.op is not None:
            if t == self.op["t"] + 1:
                upd["rd"] = 0
                upd["wr"] = 0
            if prev is not None and prev.done:
                self.op["t_done"] = t - 1
                self.op = None
        while self.ei < len(self.events):
            ev = self.events[self.ei]
            if t < self.armed_at + ev["gap"]:
                break
            if ev["k"] == "rx":
                if self.phy.burst_pending:
                    break
                self.phy.arm_burst(P.build_burst(ev))
            else:
                if self.op is not None or t == 0 or (prev is not None and (prev.busy or prev.done)):
                    break
                self.op = dict(k=ev["k"], addr=ev["addr"], data=ev.get("data", 0), t=t, t_done=None)
                self.ops.append(self.op)
                upd["addr"] = ev["addr"]
                upd["wd"] = ev.get("data", 0)
                upd["rd" if ev["k"] == "rd" else "wr"] = 1
            self.ei += 1
            self.armed_at = t
        d, n, x = self.phy.step(t, link)
        upd.update(dir=d, nxt=n, di=x)
        if self.ei >= len(self.events) and self.op is None and self.phy.idle():
            self.quiet += 1
        else:
            self.quiet = 0
        if self.quiet > 8 or t >= self.cap:
            return None
        return upd


class RegReadRx(Sub):
    name = "regread"
    shrink_budget = 150
    budget = {"quick": 4000, "thorough": 50000}
    rule = ("ULPIRegisterWindow + ULPIRxEventDecoder wired as in UTMITranslator, PHY BFM serving register reads "
            "(and writes) with RxCmd bursts before, interrupting, and chained directly after the read data; oracle: "
            "decoded line-state/VBUS flags == last RxCmd of the wire trace with read-data cycles excluded (read "
            "data never latched as RxCmd); non-trivial = a completed read whose data byte differs from the last "
            "RxCmd in the decoded flag bits, plus an RxCmd burst")

    def setup(self):
        self.h = make_window_harness()

    def strategy(self):
        rx = st.fixed_dictionaries(dict(
            k=st.just("rx"), gap=G.GAP_SMALL, nxt=st.just(0), ta=bits(8), trig=weighted([(0, 3), (4, 1), (5, 1)]),
            chain=weighted([(0, 2), (1, 1)]),
            segs=st.lists(G.status_seg(), min_size=1, max_size=3)))
        # trig 4/5 are defined for tx commands; remap below to "any pending command" triggers
        rd = st.fixed_dictionaries(dict(k=st.just("rd"), gap=G.GAP_SMALL, addr=weighted([(0x04, 1), (0x0A, 1), (0x16, 2)])))
        wr = st.fixed_dictionaries(dict(k=st.just("wr"), gap=G.GAP_SMALL, addr=st.just(0x16), data=bits(8)))
        return st.fixed_dictionaries(dict(
            regs=st.tuples(bits(8), bits(8), bits(8)).map(list), delays=G.DELAYS,
            ev=long_lists(st.one_of(rd, rd, rx, rx, wr), min_size=1, max_size=14, average=6)))

    def run(self, case):
        evs = []
        for e in case["ev"]:
            if e["k"] == "rx":
                e = dict(e)
                # pending-command triggers: 4 -> interrupt a pending read/write command, 5 -> in its accept cycle
                e["trig"] = {0: 0, 4: 7, 5: 8}[e["trig"]]
            evs.append(e)
        D = max(case["delays"])
        cap = 200 + sum(e["gap"] for e in evs) + len(evs) * (70 + 4 * D)
        regs = {0x04: case["regs"][0], 0x0A: case["regs"][1], 0x16: case["regs"][2]}
        drv = WindowDriver(evs, case["delays"], cap, regs)
        trace = self.h.run_driver(drv, cap + 2)
        phy = drv.phy
        busy = [o.busy for o in trace]
        res, extra = check_receive(trace, phy.wire, phy.rd_cycles, lambda t: 0 <= t < len(busy) and busy[t])
        if res is not None:
            return res
        labels = set()
        A = P.analyse_wire(phy.wire, phy.rd_cycles)
        nontrivial = False
        for r in phy.reads:
            if r["t_data"] is not None:
                labels.add("read-served")
                lastcmd = A["L"][r["t_data"]]
                if P.decode_rxcmd(r["value"]) != P.decode_rxcmd(lastcmd):
                    labels.add("read-data-would-change-flags")
                    if A["cmds"]:
                        nontrivial = True
        if any(s == "RRD-chain" for _, s in phy.burst_fires):
            labels.add("rxcmd-chained-after-read")
        if any(s.startswith("CMD") for _, s in phy.burst_fires):
            labels.add("command-interrupted")
        if any(w["committed"] for w in phy.writes):
            labels.add("write-committed")
        if len(phy.reads) < sum(1 for o in drv.ops if o["k"] == "rd" and o["t_done"] is not None):
            return fail("register window reported more reads done than the PHY served", signature="phantom-read")
        return Result(ok=True, nontrivial=nontrivial, labels=tuple(sorted(labels)))


# -------------------------------------------------------------------------------------------------
# The platform configuration: ULPI record with clk/rst, hence the 1 ms start-up hold-off of the link's own bus use
# -------------------------------------------------------------------------------------------------

class StartupRx(Sub):
    name = "startup"
    shrink_budget = 12
    budget = {"quick": 48, "thorough": 640}
    rule = ("UTMITranslator(handle_clocking=True) on a ULPI record WITH clk.o/rst.o (the link then keeps off the bus "
            "for 60000 cycles after reset; rst.o stays low throughout) + the same PHY BFM: 1..4 groups of PHY bursts "
            "(RxCmds, long DIR-high start-up RxCmd runs, receives started by DIR+NXT or by RxCmd) placed early in the "
            "hold-off window, anywhere inside it, within +-40 cycles of its end (also aimed at the link's first "
            "register writes) and shortly after it; same wire-trace oracle as `translator`; a fixed sweep of 10 "
            "single-RxCmd/short-receive placements runs first; non-trivial = an RxCmd that changes the flags or a "
            "receive with data, inside the window, and the run extends past the window's end.  Cost: every cycle is "
            "simulated and sampled, ~1-1.5 s per case that reaches the end of the window")

    def setup(self):
        from lunaverif.bfm import g7_ulpi_startup as S
        self.S = S
        self.h, self.window = S.make_platform_translator_harness()

    W = 60000      # _CYCLES_1_MILLISECONDS; only used to aim the generator (run() uses the DUT's constant)

    def strategy(self):
        W = self.W
        long_dir = st.fixed_dictionaries(dict(k=st.just("st"), v=bits(8),
                                              n=weighted([(40, 2), (300, 1), (1500, 1)])))
        seg = st.one_of(G.packet_seg(max_bytes=12, average=4), G.packet_seg(max_bytes=12, average=4),
                        G.status_seg(), long_dir)

        def group(at, trig=st.just(0)):
            b = st.fixed_dictionaries(dict(
                k=st.just("rx"), gap=G.GAP_RX, nxt=weighted([(0, 1), (1, 1)]), ta=bits(8), trig=trig,
                chain=st.just(0), segs=st.lists(seg, min_size=1, max_size=3)))
            return st.tuples(at, st.lists(b, min_size=1, max_size=3)).map(
                lambda p: [dict(e, at=p[0]) for e in p[1]])

        early = group(st.integers(1, 200))
        inside = group(st.integers(200, W - 200))
        edge = group(st.integers(W - 40, W + 40), trig=weighted([(0, 3), (1, 1), (2, 1), (3, 1), (7, 1)]))
        after = group(st.integers(W + 40, W + 400))
        opt = lambda s: st.one_of(st.just([]), s)
        events = st.one_of(
            st.tuples(early, opt(inside), edge, opt(after)),
            st.tuples(opt(early), inside, opt(edge), opt(after)),
            st.tuples(early, inside, st.just([]), st.just([])),
        ).map(lambda g: [e for grp in g for e in grp])
        return st.fixed_dictionaries(dict(
            init=st.one_of(st.just(G.RESET_CTL), G.ctl_values()), delays=G.DELAYS, ev=events,
            past_window=weighted([(1, 3), (0, 1)])))

    def enumerate(self, tier):
        W = self.W
        lone = lambda v: dict(k="rx", gap=1, nxt=0, ta=0, trig=0, chain=0, segs=[dict(k="st", v=v, n=1)])
        recv = dict(k="rx", gap=1, nxt=0, ta=0, trig=0, chain=0,
                    segs=[dict(k="st", v=0x0E, n=1),
                          dict(k="pk", v=0x0D, n=1, b=[[0xC3, 0, 0], [0x11, 0, 0], [0x22, 1, 0x0E], [0x33, 0, 0]],
                               end=1, ev=0x0D, en=1)])
        cases = []
        for at in (2, 1000, 30000, W - 12, W - 3, W - 1, W, W + 1, W + 3, W + 30):
            ev = [dict(lone(0x0D), at=at), dict(recv, at=at + 10), dict(lone(0x06), at=at + 40)]
            cases.append(dict(init=dict(G.RESET_CTL, op_mode=at % 2), delays=[0], ev=ev, past_window=1))
        return cases

    def run(self, case):
        W = self.window
        evs = case["ev"]
        run_to = W + 60 if case["past_window"] else 0
        cap = max([run_to] + [e["at"] for e in evs]) + 400 + sum(e["gap"] for e in evs) + 60 * len(evs)
        for e in evs:
            cap += sum(s["n"] + sum(1 + b[1] for b in s.get("b", ())) + 3 for s in e["segs"])
        drv = self.S.StartupDriver(case["init"], evs, case["delays"], quiet=8, cap=cap, run_to=run_to)
        trace = self.h.run_driver(drv, cap + 2)
        phy = drv.phy
        rst_high = [t for t, o in enumerate(trace) if o.rst]
        if rst_high:
            raise RuntimeError(f"generator soundness: rst.o high in cycle {rst_high[0]} (PHY held in reset)")
        link = case["init"] != G.RESET_CTL
        res, extra = check_receive(trace, phy.wire, phy.rd_cycles, lambda t: link and t >= W)
        if res is not None:
            return res
        A, _ = extra
        labels, _nt = classify(A, phy.wire)
        flag_change = any(t < W and P.decode_rxcmd(x) != P.decode_rxcmd(A["L"][t - 1] if t else 0)
                          for t, x in A["cmds"])
        data_in = any(p and p[0][0] < W for p in A["packets"])
        if flag_change:
            labels.add("flag-changing-rxcmd-inside-window")
        if data_in:
            labels.add("receive-data-inside-window")
        if any(W - 3 <= t <= W + 3 for t, _ in A["cmds"]):
            labels.add("rxcmd-at-window-end")
        if any(t > W + 3 for t, _ in A["cmds"]):
            labels.add("rxcmd-after-window")
        if len(trace) > W:
            labels.add("ran-past-window")
        if phy.writes:
            labels.add("startup-register-writes")
        if any(s != "IDLE" for _, s in phy.burst_fires):
            labels.add("burst-interrupts-link")
        return Result(ok=True, nontrivial=(flag_change or data_in) and len(trace) > W, labels=tuple(sorted(labels)))


SUBS = [TranslatorRx(), RegReadRx(), StartupRx()]
