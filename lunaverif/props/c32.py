"""C32 — receive CTC removes exactly the SKP symbols and nothing else."""

from hypothesis import strategies as st

from lunaverif.core import Sub, Result, fail
from lunaverif.gen import long_lists, weighted
from lunaverif.simkit import CycleHarness
from lunaverif.ref import g3_usb3 as u3

PROPERTY = "C32"
ASSUMPTIONS = [
    "source.ready is held at 1 (the physical layer's wiring; the statement is conditioned on it)",
    "a SKP symbol is the K symbol K28.1 (byte 0x3C with its ctrl bit set); D28.1 (0x3C, ctrl 0) is data",
    "the PHY presents a word every cycle (sink.valid = 1) in most cases; a minority of cases also contain "
    "not-valid words, which carry no symbols",
]

# One history element = (code, fill): code = kind * 16 + skp_mask (kind 0 valid word, 1 not-valid word);
# fill = 40 bits, 10 per symbol: bits 9:8 select 0 random data byte / 1 D28.1 (SKP's byte as *data*) /
# 2 another K symbol / 3 SKP, bits 7:0 the byte.  (Flat integers: nested strategies cost 50 ms per case.)
_OTHER_K = [k for k in u3.K_SYMBOLS if k != u3.SKP]
_MASKS = [(0, 10), (15, 5), (1, 2), (2, 2), (4, 2), (8, 2), (3, 2), (6, 2), (12, 2), (9, 1), (5, 1), (10, 1), (7, 1),
          (11, 1), (13, 1), (14, 1)]
_CODES = [(m, 12 * w) for m, w in _MASKS] + [(16 + m, w) for m, w in _MASKS]
_ELEM = st.tuples(weighted(_CODES), st.integers(0, (1 << 40) - 1))


def _fill_sym(bits10):
    sel, byte = bits10 >> 8, bits10 & 0xFF
    if sel == 0:
        return [byte, 0]
    if sel == 1:
        return [u3.SKP, 0]
    if sel == 2:
        return [_OTHER_K[byte % len(_OTHER_K)], 1]
    return [u3.SKP, 1]


def _word(skp_mask, fill):
    """fill: 40-bit integer; positions in skp_mask are overwritten with SKP."""
    return [[u3.SKP, 1] if (skp_mask >> i) & 1 else _fill_sym((fill >> (10 * i)) & 0x3FF) for i in range(4)]


class SkipRemoverSub(Sub):
    name = "remover"
    budget = {"quick": 15000, "thorough": 200000}
    rule = ("word histories (K28.1 at any subset of byte positions, all-SKP word runs, D28.1 look-alikes, other K "
            "symbols, some not-valid words) into CTCSkipRemover with source.ready=1; oracle: concatenated symbols of "
            "the valid output words == input symbols minus SKPs (whole words only, order kept) after a 6-word all-SKP flush "
            "tail; non-trivial = >=3 distinct partial SKP masks, "
            "an all-SKP word, and >=4 output words")
    shrink_budget = 600

    def setup(self):
        from luna.gateware.usb.usb3.physical.ctc import CTCSkipRemover
        dut = CTCSkipRemover()
        ins = dict(valid=dut.sink.valid, data=dut.sink.data, ctrl=dut.sink.ctrl, ready=dut.source.ready)
        outs = dict(ovalid=dut.source.valid, odata=dut.source.data, octrl=dut.source.ctrl, iready=dut.sink.ready,
                    removed=dut.skip_removed)
        self.h = CycleHarness(dut, ins, outs, domain="ss")

    def strategy(self):
        return st.fixed_dictionaries(dict(
            always_valid=weighted([(1, 3), (0, 1)]),
            words=long_lists(_ELEM, min_size=1, max_size=120, average=40),
        ))

    def run(self, case):
        script = []
        expected = []            # non-SKP symbols in order, with the cycle in which each arrived
        masks = set()
        all_skp = 0
        runlen = best_run = 0
        n_invalid = 0
        for code, fill in case["words"]:
            kind, mask = code >> 4, code & 15
            valid = 1 if (case["always_valid"] or kind == 0) else 0
            syms = _word(mask, fill)
            data, ctrl = u3.syms_to_word(syms)
            t = len(script)
            script.append(dict(valid=valid, data=data, ctrl=ctrl, ready=1))
            if not valid:
                n_invalid += 1
                continue
            true_mask = 0
            for i, (b, k) in enumerate(syms):
                if b == u3.SKP and k == 1:
                    true_mask |= 1 << i
                else:
                    expected.append((b, k, t))
            masks.add(true_mask)
            if true_mask == 15:
                all_skp += 1
                runlen += 1
                best_run = max(best_run, runlen)
            else:
                runlen = 0
        # flush tail: the PHY keeps delivering words; all-SKP words carry no symbols
        tail = dict(valid=1, data=0x3C3C3C3C, ctrl=0xF, ready=1)
        script += [tail] * 6
        trace = self.h.run_script(script)

        got = []
        for t, o in enumerate(trace):
            if not o.iready:
                return fail(f"cycle {t}: sink.ready low although the downstream is always ready (input word dropped)",
                            signature="sink-not-ready")
            if o.ovalid:
                for b, k in u3.word_to_syms(o.odata, o.octrl):
                    got.append((b, k, t))
        whole = len(expected) - len(expected) % 4
        exp_syms = [(b, k) for b, k, _ in expected[:whole]]
        got_syms = [(b, k) for b, k, _ in got]
        if got_syms != exp_syms:
            n = min(len(got_syms), len(exp_syms))
            first = next((i for i in range(n) if got_syms[i] != exp_syms[i]), n)
            if len(got_syms) < len(exp_syms) and first == n:
                sig, what = "symbols-lost-at-end", "output is a strict prefix of the expected stream"
            elif len(got_syms) > len(exp_syms) and first == n:
                sig, what = "extra-symbols", "output has extra symbols"
            else:
                sig, what = "symbol-stream-mismatch", "streams differ"
            fmt = lambda s: " ".join(("K" if k else "D") + f"{b:02x}" for b, k in s)
            return fail(f"{what}: first difference at symbol {first} (output cycle "
                        f"{got[first][2] if first < len(got) else '-'}); expected[{first}:{first+8}]="
                        f"{fmt(exp_syms[first:first+8])} got={fmt(got_syms[first:first+8])}; "
                        f"{len(exp_syms)} symbols expected, {len(got_syms)} produced", signature=sig)
        partial = {m for m in masks if m not in (0, 15)}
        labels = set()
        if all_skp:
            labels.add("all-skp-word")
        if best_run >= 2:
            labels.add("all-skp-run>=2")
        if n_invalid:
            labels.add("has-invalid-words")
        labels.add(f"partial-masks={min(len(partial), 6)}")
        for m in sorted(partial):
            labels.add(f"mask={m:04b}")
        if any(b == u3.SKP and k == 0 for b, k, _ in expected):
            labels.add("d28.1-kept")
        labels.add("out-words>=4" if whole >= 16 else "out-words<4")
        nontrivial = len(partial) >= 3 and all_skp >= 1 and whole >= 16
        return Result(ok=True, nontrivial=nontrivial, labels=tuple(sorted(labels)))


SUBS = [SkipRemoverSub()]
