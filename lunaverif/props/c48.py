"""C48 — SuperSpeed control requests are decoded and answered exactly
(SuperSpeedSetupDecoder, usb3 GetDescriptorHandler)."""

from hypothesis import strategies as st

from lunaverif.core import Sub, Result, fail
from lunaverif.gen import long_lists, weighted, bits
from lunaverif.simkit import CycleHarness

PROPERTY = "C48"
ASSUMPTIONS = [
    "setup decoder inputs are shaped like DataPacketReceiver's outputs: the header (setup flag) is updated >= 1 "
    "cycle before the payload; `first` is high from the header until the first valid word; `last` is high while "
    "<= 4 bytes remain; byte-valid masks are contiguous from lane 0; words may be separated by invalid cycles; "
    "rx_good/rx_bad strobe 1..3 cycles after the last word, or rx_bad in the cycle of a word (aborted packet)",
    "a new data packet starts only after the previous one was marked good or bad",
    "descriptor handler: value/length are stable from >= 2 cycles before the one-cycle start strobe until the "
    "response has been taken completely (they are setup-packet fields); a new start is issued only after that; "
    "tx.ready is an arbitrary pattern",
    "wLength = 0 requests are only required to produce no data and no stall (the statement asks for the first "
    "min(wLength, length) = 0 bytes)",
    "reports are registered: expected 1 cycle after rx_good (a uniform 2-cycle latency is also accepted)",
]

# ------------------------------------------------------------------------------------------------
# Setup decoder
# ------------------------------------------------------------------------------------------------

_LEN_W = [(8, 10), (4, 4), (12, 3), (0, 1), (1, 1), (3, 1), (5, 1), (6, 1), (7, 2), (9, 2), (10, 1), (11, 1), (16, 1)]


def _packet():
    return st.fixed_dictionaries(dict(
        setup=weighted([(1, 4), (0, 1)]),
        n=weighted(_LEN_W),
        data=st.lists(bits(8), min_size=16, max_size=16),
        gaps=st.lists(weighted([(0, 5), (1, 2), (3, 1)]), min_size=4, max_size=4),   # invalid cycles before word k
        end=weighted([("good", 6), ("bad", 2), ("abort", 1)]),
        at=st.integers(0, 3),                   # abort: word index at which rx_bad coincides
        delay=weighted([(1, 5), (2, 1), (3, 1)]),
        idle=weighted([(0, 3), (1, 2), (4, 1)]),
        stray=weighted([(0, 12), (1, 1), (2, 1)]),     # 1: stray rx_good, 2: stray rx_bad in the idle time before
        junk=bits(32),
    ))


def setup_waveform(packets):
    """-> (script, events) ; events: list of dict(kind='good'|'bad', cycle, pkt index) in order."""
    script = []
    ends = []
    first = 0

    def emit(**kw):
        vec = dict(valid=0, first=first, last=0, data=0, good=0, bad=0)
        vec.update(kw)
        script.append(vec)

    hdr = dict(setup=0, dlen=0)
    emit()
    for pi, p in enumerate(packets):
        for k in range(p["idle"]):
            emit(good=int(p["stray"] == 1 and k == 0), bad=int(p["stray"] == 2 and k == 0))
            if p["stray"] and k == 0:
                ends.append(dict(kind="stray", cycle=len(script) - 1, pkt=None))
        # header cycle (DPH recognised): header registers load, first := 1 (visible next cycle)
        emit()
        hdr = dict(setup=p["setup"], dlen=p["n"])
        first = 1
        n = p["n"]
        data = p["data"][:n]
        nwords = max(1, (n + 3) // 4)
        remaining = n
        aborted = False
        for w in range(nwords):
            for _ in range(p["gaps"][w]):
                emit(last=int(remaining <= 4), data=p["junk"], hs=hdr)
            chunk = data[4 * w:4 * w + 4]
            word = 0
            for i in range(4):
                b = chunk[i] if i < len(chunk) else (p["junk"] >> (8 * i)) & 0xFF
                word |= b << (8 * i)
            mask = (1 << min(4, remaining)) - 1 if remaining > 0 else 0
            ab = p["end"] == "abort" and p["at"] == w and mask != 0
            emit(valid=mask, last=int(remaining <= 4), data=word, bad=int(ab), hs=hdr)
            if mask:
                first = 0
            if ab:
                ends.append(dict(kind="bad", cycle=len(script) - 1, pkt=pi, complete=False))
                aborted = True
                break
            remaining = max(0, remaining - 4)
        if not aborted:
            for _ in range(p["delay"] - 1):
                emit(hs=hdr)
            good = p["end"] == "good"
            emit(good=int(good), bad=int(not good), hs=hdr)
            ends.append(dict(kind="good" if good else "bad", cycle=len(script) - 1, pkt=pi, complete=True))
    for _ in range(4):
        emit()
    # attach the header lines to every cycle (they hold their value)
    cur = dict(setup=0, dlen=0)
    out = []
    for vec in script:
        if "hs" in vec:
            cur = vec.pop("hs")
        vec["setup"] = cur["setup"]
        vec["dlen"] = cur["dlen"]
        out.append(vec)
    return out, ends


def fields_of(b):
    """USB 2.0 §9.3 / USB 3.2 §9.3 setup data -> field dict."""
    return dict(recipient=b[0] & 0x1F, type=(b[0] >> 5) & 3, is_in=b[0] >> 7, request=b[1],
                value=b[2] | (b[3] << 8), index=b[4] | (b[5] << 8), length=b[6] | (b[7] << 8))


class SetupSub(Sub):
    name = "setup"
    budget = {"quick": 12000, "thorough": 200000}
    rule = ("sequences of data packets shaped like the link receiver's output (setup flag on/off, 0..16 bytes "
            "weighted to 8/4/12, inter-word gaps, good / bad / aborted endings, occasional stray strobes); oracle: "
            "packet.received strobes exactly once after each packet that is flagged setup, exactly 8 bytes and "
            "marked good, with all seven fields equal to the bytes, and never otherwise; non-trivial = a "
            "reportable packet that follows a flagged packet that must NOT be reported (wrong length, bad or "
            "aborted)")

    def setup(self):
        from luna.gateware.usb.usb3.application.request import SuperSpeedSetupDecoder
        dut = SuperSpeedSetupDecoder()
        s, p = dut.sink, dut.packet
        self.h = CycleHarness(
            dut,
            ins=dict(valid=s.valid, first=s.first, last=s.last, data=s.data, good=dut.rx_good, bad=dut.rx_bad,
                     setup=dut.header_in.setup, dlen=dut.header_in.data_length),
            outs=dict(received=p.received, recipient=p.recipient, type=p.type, is_in=p.is_in_request,
                      request=p.request, value=p.value, index=p.index, length=p.length),
            domain="ss")

    def strategy(self):
        return st.fixed_dictionaries(dict(pkts=long_lists(_packet(), min_size=1, max_size=14, average=5)))

    def enumerate(self, tier):
        base = dict(setup=1, n=8, data=[0xC1, 0xAA, 0x11, 0x22, 0x44, 0x33, 0x04, 0x00] + [0x5A] * 8,
                    gaps=[0, 0, 0, 0], end="good", at=0, delay=1, idle=0, stray=0, junk=0xDEADBEEF)
        cases = [dict(pkts=[base])]
        for n in (0, 4, 5, 7, 9, 12):
            cases.append(dict(pkts=[dict(base, n=n), base]))
        cases.append(dict(pkts=[dict(base, end="bad"), base]))
        cases.append(dict(pkts=[dict(base, end="abort", at=1), base]))
        cases.append(dict(pkts=[dict(base, end="abort", at=0), base]))
        cases.append(dict(pkts=[dict(base, setup=0), base]))
        cases.append(dict(pkts=[dict(base, n=4), dict(base, setup=0, n=4)]))
        return cases

    def run(self, case):
        pkts = case["pkts"]
        script, ends = setup_waveform(pkts)
        trace = self.h.run_script(script, tail=2)

        expect = {}         # good-strobe cycle -> fields
        labels = set()
        blocker = False
        nontrivial = False
        for e in ends:
            if e["pkt"] is None:
                labels.add("stray-strobe")
                continue
            p = pkts[e["pkt"]]
            reportable = bool(p["setup"] and p["n"] == 8 and e["kind"] == "good")
            if reportable:
                expect[e["cycle"]] = fields_of(p["data"][:8])
                labels.add("reportable")
                if blocker:
                    nontrivial = True
                    labels.add("reportable-after-unreportable-setup")
            elif p["setup"]:
                blocker = True
                if p["n"] != 8:
                    labels.add("setup-len-%s" % ("lt8" if p["n"] < 8 else "gt8"))
                if e["kind"] == "bad":
                    labels.add("setup-aborted" if not e["complete"] else "setup-bad")
            else:
                labels.add("non-setup-data")
                if p["n"] == 4:
                    labels.add("non-setup-4-bytes")

        strobes = [t for t, o in enumerate(trace) if o.received]
        verdict = None
        for lat in (1, 2):
            exp = {c + lat: f for c, f in expect.items()}
            v = None
            if sorted(exp) != strobes:
                missing = sorted(set(exp) - set(strobes))
                extra = sorted(set(strobes) - set(exp))
                if missing:
                    c = missing[0] - lat
                    pi = next(e["pkt"] for e in ends if e["cycle"] == c)
                    before = [pkts[e["pkt"]] for e in ends if e["pkt"] is not None and e["pkt"] < pi]
                    sig = "setup-not-reported"
                    prev_end = [e for e in ends if e["pkt"] == pi - 1]
                    if before and before[-1]["setup"] and prev_end and not prev_end[0].get("complete", True) \
                            and before[-1]["at"] == 0:
                        sig = "setup-not-reported-after-abort-on-first-word"
                    elif before and before[-1]["setup"] and before[-1]["n"] != 8:
                        sig = "setup-not-reported-after-wrong-length-setup"
                    v = (f"packet {pi} (setup flag, 8 bytes, rx_good in cycle {c}) was not reported in cycle "
                         f"{missing[0]}; strobes at {strobes}", sig)
                else:
                    t = extra[0]
                    o = trace[t]
                    v = (f"packet.received strobed in cycle {t} although no good 8-byte setup packet ended "
                         f"{lat} cycle(s) earlier (reported request={o.request:#x} value={o.value:#x}); "
                         f"packet endings: {[(e['kind'], e['cycle'], e['pkt']) for e in ends]}",
                         "spurious-setup-report")
            else:
                for t in strobes:
                    f = exp[t]
                    o = trace[t]
                    got = dict(recipient=o.recipient, type=o.type, is_in=o.is_in, request=o.request,
                               value=o.value, index=o.index, length=o.length)
                    if got != f:
                        bad = [k for k in f if f[k] != got[k]]
                        v = (f"cycle {t}: setup fields differ from the packet bytes: " +
                             ", ".join(f"{k} expected {f[k]:#x} got {got[k]:#x}" for k in bad),
                             "wrong-setup-" + "+".join(bad))
                        break
            if v is None:
                verdict = None
                break
            if verdict is None:
                verdict = v
        if verdict is not None:
            return fail(verdict[0], signature=verdict[1])
        return Result(ok=True, nontrivial=nontrivial, labels=tuple(sorted(labels)))


# ------------------------------------------------------------------------------------------------
# GET_DESCRIPTOR handler
# ------------------------------------------------------------------------------------------------

def _blob(seed, length, dtype):
    """Deterministic pseudo-random descriptor body: bLength, bDescriptorType, then an LCG byte stream."""
    out = [length & 0xFF, dtype]
    x = (seed * 2654435761 + 12345) & 0xFFFFFFFF
    while len(out) < length:
        x = (x * 1103515245 + 12345) & 0xFFFFFFFF
        out.append((x >> 16) & 0xFF)
    return bytes(out[:length])


# (type, index, length) per collection; lengths cover 1..3 bytes, word multiples, word multiples +-1, long ones
_COLLECTION_SHAPES = [
    [(1, 0, 18), (2, 0, 32), (3, 0, 4), (3, 1, 14), (3, 2, 9), (15, 0, 22)],
    [(1, 0, 18), (2, 0, 67), (3, 0, 4), (3, 1, 3), (0x21, 0, 1)],
    [(1, 0, 20), (2, 0, 64), (2, 1, 33), (3, 0, 6), (3, 3, 2), (15, 0, 5)],
    [(1, 0, 17), (2, 0, 31), (3, 0, 8), (3, 1, 12), (3, 2, 16), (3, 3, 63), (6, 0, 10), (0x30, 7, 7)],
    [(2, 0, 121), (1, 0, 18)],
    [(1, 0, 8), (15, 0, 44), (3, 0, 4), (3, 5, 25)],
]


def build_collection(ci):
    from usb_protocol.emitters.descriptors import DeviceDescriptorCollection
    c = DeviceDescriptorCollection(automatic_language_descriptor=False)
    table = {}
    for (t, i, n) in _COLLECTION_SHAPES[ci]:
        raw = _blob(ci * 1000 + t * 16 + i, n, t)
        c.add_descriptor(raw, index=i, descriptor_type=t)
        table[(t << 8) | i] = raw
    return c, table


def _req(ci):
    shapes = _COLLECTION_SHAPES[ci]
    known = st.sampled_from(range(len(shapes)))

    def mk(sel, near, wmode, delta, rnd, ready, pre, big):
        t, i, n = shapes[sel]
        if near == 0:
            value = (t << 8) | i
        elif near == 1:
            value = (t << 8) | ((i + 1 + rnd % 3) & 0xFF)          # right type, wrong index
        elif near == 2:
            value = (((t + 1 + rnd % 5) & 0xFF) << 8) | i          # wrong type
        else:
            value = rnd & 0xFFFF
        if wmode == 0:
            wl = n + delta
        elif wmode == 1:
            wl = max(1, (rnd >> 4) % (n + 1))
        elif wmode == 2:
            wl = [0xFFFF, 0x100, 0xFF, 255 + n, 4, 1, 2, 3][rnd % 8]
        elif wmode == 3:
            wl = 0
        elif wmode == 4:                                           # 2^k - 1, 2^k, 2^k + 1 for k = 0..16
            wl = min(0xFFFF, max(1, (1 << (big % 17)) + ((big >> 5) % 3) - 1))
        elif wmode == 5:                                           # anything a host can put into the 16-bit field
            wl = big
        else:                                                      # high bits set, low part around the descriptor length
            k = 7 + (big % 9)                                      # multiple of 2^7 .. 2^15 ...
            wl = (((big >> 4) | 1) << k) + [0, 1, n - 1, n, n + 1, 3][(big >> 13) % 6] * ((rnd >> 3) & 1)
        return dict(value=value, wl=max(0, wl) & 0xFFFF, ready=ready + [1], pre=pre)      # bounded gaps

    return st.builds(mk, known, weighted([(0, 8), (1, 1), (2, 1), (3, 1)]),
                     weighted([(0, 4), (1, 4), (2, 2), (3, 1), (4, 3), (5, 1), (6, 2)]), st.integers(-5, 5), bits(16),
                     st.lists(weighted([(1, 3), (0, 2)]), min_size=0, max_size=12), st.integers(2, 5), bits(16))


class _DescDriver:
    def __init__(self, reqs, table):
        self.reqs = reqs
        self.table = table
        self.i = 0
        self.phase = "pre"
        self.n = 0
        self.k = 0
        self.starts = []        # (cycle, req index)
        self.windows = []       # (req index, first cycle, last cycle)
        self.rlog = []          # tx.ready per cycle
        self.w0 = 0

    def _out(self, **kw):
        self.rlog.append(kw.get("ready", 0))
        return kw

    def step(self, t, prev):
        if self.i >= len(self.reqs):
            if self.n >= 6:
                return None
            self.n += 1
            return self._out(start=0, ready=1)
        r = self.reqs[self.i]
        if self.phase == "pre":
            if self.n == 0:
                self.w0 = t
            self.n += 1
            if self.n <= r["pre"]:
                return self._out(start=0, value=r["value"], length=r["wl"], ready=(t + self.i) & 1)
            self.phase = "run"
            self.k = 0
            self.quiet = 0
            self.starts.append((t, self.i))
            return self._out(start=1, value=r["value"], length=r["wl"], ready=r["ready"][0])
        # run: consume with the ready pattern until a word with `last` was taken, or nothing happens for 8 cycles
        took_last = bool(prev.valid and prev.last and self.rlog[-1])
        self.quiet = 0 if prev.valid else self.quiet + 1
        self.k += 1
        if took_last or self.quiet >= 8 or self.k > 600:
            self.windows.append((self.i, self.w0, t - 1))
            self.i += 1
            self.phase = "pre"
            self.n = 0
            return self.step(t, prev)
        return self._out(start=0, ready=r["ready"][self.k % len(r["ready"])])


class DescriptorSub(Sub):
    name = "descriptor"
    budget = {"quick": 6000, "thorough": 80000}
    rule = ("6 descriptor collections (1..121-byte descriptors of several types/indices, lengths around word "
            "multiples); request sequences with known values, near-miss unknown values (wrong index / wrong type / "
            "random), wLength around the descriptor length, far above, 1..3 and 0, over the whole 16-bit field (2^k and "
            "2^k+-1 for k = 0..16, uniform, multiples of 2^7..2^15 plus 0/1/len-1/len/len+1), and tx.ready patterns; oracle: "
            "the words taken decode (by their byte-valid masks) to exactly descriptor[:min(wLength, len)], first/"
            "last flags frame them, tx_length equals that byte count whenever the stream is valid, no stall; "
            "unknown value => stall with the start strobe and no data; non-trivial = a response truncated by "
            "wLength (0 < wLength < len) that was also back-pressured")

    def setup(self):
        self.h = {}

    def harness(self, ci):
        if ci not in self.h:
            from luna.gateware.usb.usb3.application.descriptor import GetDescriptorHandler
            coll, table = build_collection(ci)
            dut = GetDescriptorHandler(coll)
            tx = dut.tx
            h = CycleHarness(
                dut, ins=dict(value=dut.value, length=dut.length, start=dut.start, ready=tx.ready),
                outs=dict(valid=tx.valid, first=tx.first, last=tx.last, data=tx.data, txlen=dut.tx_length,
                          stall=dut.stall),
                domain="ss")
            self.h[ci] = (h, table)
        return self.h[ci]

    def strategy(self):
        return st.integers(0, len(_COLLECTION_SHAPES) - 1).flatmap(
            lambda ci: st.fixed_dictionaries(dict(
                cfg=st.just(ci), reqs=long_lists(_req(ci), min_size=1, max_size=8, average=3))))

    shrink_budget = 150

    def enumerate(self, tier):
        cases = []
        for ci, shapes in enumerate(_COLLECTION_SHAPES):
            for (t, i, n) in shapes:
                v = (t << 8) | i
                reqs = [dict(value=v, wl=wl, ready=rd, pre=2)
                        for wl, rd in ((n, [1]), (max(1, n - 1), [0, 1]), (n + 5, [1, 0, 0, 1]), (0xFFFF, [1]))]
                cases.append(dict(cfg=ci, reqs=reqs))
            # wLength sweep over the 16-bit field for the collection's first descriptor: 2^k - 1, 2^k, 2^k + 1
            t, i, n = shapes[0]
            sweep = sorted({min(0xFFFF, max(1, (1 << k) + d)) for k in range(17) for d in (-1, 0, 1)})
            cases.append(dict(cfg=ci, reqs=[dict(value=(t << 8) | i, wl=wl, ready=[1], pre=2) for wl in sweep]))
            cases.append(dict(cfg=ci, reqs=[dict(value=0x0F01 + ci, wl=64, ready=[1], pre=2),
                                            dict(value=0x0100, wl=8, ready=[1, 0, 1], pre=2)]))
        return cases

    def run(self, case):
        h, table = self.harness(case["cfg"])
        reqs = case["reqs"]
        drv = _DescDriver(reqs, table)
        trace = h.run_driver(drv, 700 * len(reqs) + 50)
        rlog = drv.rlog
        labels = set()
        nontrivial = False
        start_of = {i: t for t, i in drv.starts}
        if len(drv.windows) != len(reqs):
            # the last request never finished inside the cycle budget
            i = len(drv.windows)
            return fail(f"request {i} (value {reqs[i]['value']:#06x} wLength {reqs[i]['wl']}) did not finish",
                        signature="descriptor-response-never-ends")
        for (i, c0, c1) in drv.windows:
            r = reqs[i]
            ts = start_of[i]
            desc = table.get(r["value"])
            words = []
            held = None
            stalls = [t for t in range(c0, c1 + 1) if trace[t].stall]
            backpressure = False
            for t in range(c0, c1 + 1):
                o = trace[t]
                if o.valid:
                    cur = (o.valid, o.first, o.last, o.data, o.txlen)
                    if held is not None and held != cur:
                        return fail(f"request {i}: cycle {t}: tx changed while valid and not ready "
                                    f"{held} -> {cur}", signature="descriptor-stream-unstable")
                    if rlog[t]:
                        words.append((t, o))
                        held = None
                    else:
                        held = cur
                        backpressure = True
                else:
                    held = None
            if desc is None:
                labels.add("unknown-descriptor")
                if words:
                    return fail(f"request {i}: unknown descriptor value {r['value']:#06x} answered with data in "
                                f"cycle {words[0][0]}", signature="unknown-descriptor-answered")
                if not any(ts <= t <= ts + 1 for t in stalls):
                    return fail(f"request {i}: unknown descriptor value {r['value']:#06x} (start in cycle {ts}) "
                                f"was not stalled", signature="unknown-descriptor-not-stalled")
                continue
            if stalls:
                return fail(f"request {i}: known descriptor {r['value']:#06x} but stall in cycle {stalls[0]}",
                            signature="known-descriptor-stalled")
            n = min(r["wl"], len(desc))
            exp = desc[:n]
            got = bytearray()
            for wi, (t, o) in enumerate(words):
                cnt = {0b0001: 1, 0b0011: 2, 0b0111: 3, 0b1111: 4}.get(o.valid)
                if cnt is None:
                    return fail(f"request {i}: cycle {t}: byte-valid mask {o.valid:#06b} is not contiguous",
                                signature="descriptor-valid-mask")
                if wi != len(words) - 1 and cnt != 4:
                    return fail(f"request {i}: cycle {t}: partial word (valid {o.valid:#06b}) before the last word",
                                signature="descriptor-valid-mask")
                got += o.data.to_bytes(4, "little")[:cnt]
                if o.first != int(wi == 0) or o.last != int(wi == len(words) - 1):
                    return fail(f"request {i}: cycle {t}: word {wi} of {len(words)} has first={o.first} "
                                f"last={o.last}", signature="descriptor-framing")
                if o.txlen != n:
                    return fail(f"request {i} (value {r['value']:#06x}, wLength {r['wl']}, descriptor length "
                                f"{len(desc)}): cycle {t}: tx_length={o.txlen}, expected {n}",
                                signature="descriptor-tx-length")
            if bytes(got) != exp:
                return fail(f"request {i} (value {r['value']:#06x}, wLength {r['wl']}, descriptor length "
                            f"{len(desc)}): sent {bytes(got).hex()} expected {exp.hex()}",
                            signature="descriptor-data" if len(got) == len(exp) else "descriptor-length")
            if n == 0:
                labels.add("wlength-0")
            elif r["wl"] < len(desc):
                labels.add("truncated-by-wlength")
                if n % 4:
                    labels.add("truncated-unaligned")
                if backpressure:
                    nontrivial = True
            elif r["wl"] == len(desc):
                labels.add("wlength-equals-length")
            else:
                labels.add("wlength-above-length")
                if r["wl"] >= 1024:
                    labels.add("wlength>=2^%d" % (r["wl"].bit_length() - 1))
            if backpressure:
                labels.add("back-pressure")
            if len(desc) % 4:
                labels.add("descriptor-unaligned-length")
        labels.add(f"cfg={case['cfg']}")
        return Result(ok=True, nontrivial=nontrivial, labels=tuple(sorted(labels)))


SUBS = [SetupSub(), DescriptorSub()]
