"""C47 — Isochronous timestamp packets are decoded in full (TimestampPacketReceiver)."""

from hypothesis import strategies as st

from lunaverif.core import Sub, Result, fail
from lunaverif.gen import long_lists, weighted, bits
from lunaverif.simkit import CycleHarness
from lunaverif.ref import g5_hp as hp

PROPERTY = "C47"
ASSUMPTIONS = [
    "header_sink is driven like the link layer's header queue (HeaderPacketReceiver.queue through "
    "HeaderQueueDemultiplexer): valid and header are held until some consumer asserts ready; headers of other "
    "types are taken by 'another consumer' after a generated number of cycles; while valid is low the header "
    "lines carry arbitrary (stale) data",
    "the report is registered: it is expected 1 cycle after the header is taken (a uniform 2-cycle latency is "
    "also accepted)",
]

OTHER_TYPES = [hp.TYPE_LMP, hp.TYPE_TP, hp.TYPE_DPH, 0b01101, 0b01110, 0b00001, 0b11100, 0b01111, 0b11111]

# 27-bit ITP payloads that matter most: all-ones, walking ones, field boundaries
_EDGE = [0x7FFFFFF, 0, 1, 2, 0x3FFF, 0x4000, 0x3FFF ^ 0x7FFFFFF, 0x2000, 0x2000 << 1, 1 << 26, 0x5555555, 0x2AAAAAA]


def _item():
    itp = st.fixed_dictionaries(dict(
        k=st.just("itp"),
        p=st.one_of(bits(27), st.sampled_from(_EDGE), st.integers(0, 26).map(lambda b: 1 << b)),
        w1=st.one_of(st.just(0), bits(32)), w2=st.one_of(st.just(0), bits(32)),
        # link-control word (CRC16, sequence number, hub depth, delayed, deferred, CRC5): any value — the
        # statement says "on each isochronous timestamp packet", whatever its link-layer flags
        w3=st.one_of(st.just(0), bits(32), st.integers(0, 31).map(lambda b: 1 << b))))
    other = st.fixed_dictionaries(dict(
        k=st.just("other"), t=st.sampled_from(OTHER_TYPES), p=bits(27), w1=bits(32), w2=bits(32),
        n=st.integers(1, 4)))
    idle = st.fixed_dictionaries(dict(
        k=st.just("idle"), t=weighted([(hp.TYPE_ITP, 3), (hp.TYPE_TP, 1), (0, 1)]), p=bits(27), n=st.integers(1, 3)))
    return st.one_of(itp, itp, itp, other, idle)


class _Driver:
    """Header-queue producer: holds each header until taken."""

    def __init__(self, items):
        self.items = items
        self.i = 0
        self.left = None
        self.log = []          # per cycle: (valid, dw0, item index)
        self.tail = 4

    def step(self, t, prev):
        # did the consumer take the header presented in the previous cycle?
        if self.log:
            pv, pdw0, pidx = self.log[-1]
            it = self.items[pidx] if pidx is not None and pidx < len(self.items) else None
            if it is not None:
                if it["k"] == "itp":
                    if prev.ready:
                        self.i += 1
                        self.left = None
                    else:
                        self.left -= 1
                        if self.left <= 0:      # never taken: give up on it (oracle will flag the missing strobe)
                            self.i += 1
                            self.left = None
                else:
                    self.left -= 1
                    if self.left <= 0:
                        self.i += 1
                        self.left = None
        if self.i >= len(self.items):
            self.tail -= 1
            if self.tail < 0:
                return None
            self.log.append((0, 0, None))
            return dict(valid=0)
        it = self.items[self.i]
        if self.left is None:
            self.left = 6 if it["k"] == "itp" else it["n"]
        if it["k"] == "itp":
            dw0 = hp.TYPE_ITP | (it["p"] << 5)
            upd = dict(valid=1, dw0=dw0, dw1=it["w1"], dw2=it["w2"], dw3=it.get("w3", 0))
        elif it["k"] == "other":
            dw0 = it["t"] | (it["p"] << 5)
            upd = dict(valid=1, dw0=dw0, dw1=it["w1"], dw2=it["w2"])
        else:
            dw0 = it["t"] | (it["p"] << 5)
            upd = dict(valid=0, dw0=dw0)
        self.log.append((upd["valid"], dw0, self.i))
        return upd


class ItpSub(Sub):
    name = "itp"
    budget = {"quick": 10000, "thorough": 150000}
    rule = ("header-queue histories mixing ITP headers over all 27 payload bits (random, walking ones, field "
            "boundaries, back to back), headers of other types held 1-4 cycles, and invalid cycles carrying stale "
            "ITP-typed data; every ITP taken must be followed by update_received with bus_interval_counter == "
            "DW0[18:5] and delta == DW0[31:19]; no strobe without an ITP; non-trivial = some ITP with counter >= 2 "
            "and some ITP with delta >= 2 (bits above bit 0 of both fields exercised)")

    def setup(self):
        from luna.gateware.usb.usb3.protocol.timestamp import TimestampPacketReceiver
        dut = TimestampPacketReceiver()
        hs = dut.header_sink
        self.h = CycleHarness(
            dut, ins=dict(valid=hs.valid, dw0=hs.header.dw0, dw1=hs.header.dw1, dw2=hs.header.dw2, dw3=self._dw3(hs.header)),
            outs=dict(ready=hs.ready, upd=dut.update_received, ctr=dut.bus_interval_counter, delta=dut.delta),
            domain="ss")
        self.widths = (len(dut.bus_interval_counter), len(dut.delta))

    @staticmethod
    def _dw3(header):
        from amaranth import Cat
        return Cat(header.crc16, header.sequence_number, header.dw3_reserved, header.hub_depth,
                   header.delayed, header.deferred, header.crc5)

    def strategy(self):
        return st.fixed_dictionaries(dict(items=long_lists(_item(), min_size=1, max_size=40, average=12)))

    def enumerate(self, tier):
        cases = [dict(items=[dict(k="itp", p=p, w1=0, w2=0, w3=0)]) for p in _EDGE + [1 << b for b in range(27)]]
        cases += [dict(items=[dict(k="itp", p=0x2AAAAAA, w1=0, w2=0, w3=1 << b)]) for b in range(32)]
        return cases

    def run(self, case):
        drv = _Driver(case["items"])
        trace = self.h.run_driver(drv, 40 * 8 + 16)
        log = drv.log[:len(trace)]

        taken = []          # (cycle, counter, delta)
        labels = set()
        prev_itp = False
        for t, ((v, dw0, idx), o) in enumerate(zip(log, trace)):
            is_itp = v and hp.header_type(dw0) == hp.TYPE_ITP
            if is_itp and o.ready:
                f = hp.parse_itp(dw0)
                taken.append((t, f["counter"], f["delta"]))
                if prev_itp:
                    labels.add("back-to-back-itp")
            prev_itp = bool(is_itp and o.ready)
            if v and not is_itp:
                labels.add("other-type-header")
            if not v and hp.header_type(dw0) == hp.TYPE_ITP and idx is not None:
                labels.add("stale-itp-while-invalid")
        presented = sum(1 for it in case["items"] if it["k"] == "itp")
        if len(taken) != presented:
            return fail(f"{presented} ITP headers presented (each held up to 6 cycles) but {len(taken)} were taken",
                        signature="itp-not-accepted")

        strobes = [t for t, o in enumerate(trace) if o.upd]
        verdict = None
        for lat in (1, 2):
            exp = {t + lat: (c, d) for t, c, d in taken}
            if sorted(exp) != strobes:
                missing = sorted(set(exp) - set(strobes))
                extra = sorted(set(strobes) - set(exp))
                if missing:
                    v = (f"ITP taken in cycle {missing[0] - lat} but update_received is low in cycle {missing[0]}",
                         "missing-update-strobe")
                else:
                    v = (f"update_received high in cycle {extra[0]} without an ITP header {lat} cycle(s) earlier",
                         "strobe-without-itp")
            else:
                v = None
                for t in strobes:
                    c, d = exp[t]
                    o = trace[t]
                    if o.ctr != c or o.delta != d:
                        which = [n for n, a, b in (("counter", o.ctr, c), ("delta", o.delta, d)) if a != b]
                        sig = "wrong-" + "+".join(which)
                        wc, wd = self.widths
                        if (wc < 14 or wd < 13) and o.ctr == c & ((1 << wc) - 1) and o.delta == d & ((1 << wd) - 1):
                            sig = "outputs-truncated"
                        v = (f"cycle {t}: ITP counter={c:#06x} delta={d:#06x} but reported bus_interval_counter="
                             f"{o.ctr:#x} ({wc} bit) delta={o.delta:#x} ({wd} bit)", sig)
                        break
            if v is None:
                verdict = None
                break
            if verdict is None:
                verdict = v
        if verdict is not None:
            return fail(verdict[0], signature=verdict[1])

        hi_c = any(c >= 2 for _, c, _ in taken)
        hi_d = any(d >= 2 for _, _, d in taken)
        if hi_c:
            labels.add("counter-high-bits")
        if hi_d:
            labels.add("delta-high-bits")
        if any(c == 0x3FFF for _, c, _ in taken):
            labels.add("counter-all-ones")
        if any(d == 0x1FFF for _, _, d in taken):
            labels.add("delta-all-ones")
        if any(it["k"] == "itp" and (it.get("w3", 0) >> 25) & 1 for it in case["items"]):
            labels.add("itp-with-delayed-flag")
        return Result(ok=True, nontrivial=hi_c and hi_d, labels=tuple(sorted(labels)))


SUBS = [ItpSub()]
