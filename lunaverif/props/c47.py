"""C47 — Isochronous timestamp packets are decoded in full (TimestampPacketReceiver)."""

from hypothesis import strategies as st

from lunaverif.core import Sub, Result, fail, HarnessError
from lunaverif.gen import long_lists, weighted, bits
from lunaverif.simkit import CycleHarness
from lunaverif.ref import g5_hp as hp

PROPERTY = "C47"
ASSUMPTIONS = [
    "header_sink is driven like the link layer's header queue (HeaderPacketReceiver.queue through "
    "HeaderQueueDemultiplexer): valid and header are held until some consumer asserts ready; headers of other "
    "types are taken by 'another consumer' after a generated number of cycles; while valid is low the header "
    "lines carry arbitrary (stale) data",
    "the report is registered: it is expected 1 cycle after the header is taken (a uniform 2-cycle latency is "
    "also accepted)",
    "layer sub: USB3ProtocolLayer sits on a stub link that behaves like USB3LinkLayer at the ports the layer uses: "
    "header_source is HeaderPacketReceiver.queue (valid = buffers_filled > 0, combinational; the buffers are emptied "
    "by a *registered* assignment while usb_reset = link.in_reset is high), so a header can be offered -- and "
    "transferred -- in the first cycle of an in_reset pulse (in_reset = request_hot_reset | in_usb_reset comes from "
    "the LTSSM / LFPS detector and is unrelated to the header path), but never in a later cycle of the same pulse; a "
    "header still waiting in that first cycle is flushed; after the pulse at least two empty cycles follow (on the real "
    "link: a whole retraining). An ITP that is transferred (valid & ready) is 'an isochronous timestamp packet' of "
    "the statement whatever in_reset is in that cycle: the statement has no reset exemption, the link layer has "
    "handed the packet over and nothing will deliver it again",
]

OTHER_TYPES = [hp.TYPE_LMP, hp.TYPE_TP, hp.TYPE_DPH, 0b01101, 0b01110, 0b00001, 0b11100, 0b01111, 0b11111]

# 27-bit ITP payloads that matter most: all-ones, walking ones, field boundaries
_EDGE = [0x7FFFFFF, 0, 1, 2, 0x3FFF, 0x4000, 0x3FFF ^ 0x7FFFFFF, 0x2000, 0x2000 << 1, 1 << 26, 0x5555555, 0x2AAAAAA]


def _item():
    itp = st.fixed_dictionaries(dict(
        k=st.just("itp"),
        p=st.one_of(bits(27), st.sampled_from(_EDGE), st.integers(0, 26).map(lambda b: 1 << b)),
        w1=st.one_of(st.just(0), bits(32)), w2=st.one_of(st.just(0), bits(32)),
        # link-control word (CRC16, sequence number, hub depth, delayed, deferred, CRC5): any value — the
        # statement says "on each isochronous timestamp packet", whatever its link-layer flags
        w3=st.one_of(st.just(0), bits(32), st.integers(0, 31).map(lambda b: 1 << b))))
    other = st.fixed_dictionaries(dict(
        k=st.just("other"), t=st.sampled_from(OTHER_TYPES), p=bits(27), w1=bits(32), w2=bits(32),
        n=st.integers(1, 4)))
    idle = st.fixed_dictionaries(dict(
        k=st.just("idle"), t=weighted([(hp.TYPE_ITP, 3), (hp.TYPE_TP, 1), (0, 1)]), p=bits(27), n=st.integers(1, 3)))
    return st.one_of(itp, itp, itp, other, idle)


class _Driver:
    """Header-queue producer: holds each header until taken."""

    def __init__(self, items):
        self.items = items
        self.i = 0
        self.left = None
        self.log = []          # per cycle: (valid, dw0, item index)
        self.tail = 4

    def step(self, t, prev):
        # did the consumer take the header presented in the previous cycle?
        if self.log:
            pv, pdw0, pidx = self.log[-1]
            it = self.items[pidx] if pidx is not None and pidx < len(self.items) else None
            if it is not None:
                if it["k"] == "itp":
                    if prev.ready:
                        self.i += 1
                        self.left = None
                    else:
                        self.left -= 1
                        if self.left <= 0:      # never taken: give up on it (oracle will flag the missing strobe)
                            self.i += 1
                            self.left = None
                else:
                    self.left -= 1
                    if self.left <= 0:
                        self.i += 1
                        self.left = None
        if self.i >= len(self.items):
            self.tail -= 1
            if self.tail < 0:
                return None
            self.log.append((0, 0, None))
            return dict(valid=0)
        it = self.items[self.i]
        if self.left is None:
            self.left = 6 if it["k"] == "itp" else it["n"]
        if it["k"] == "itp":
            dw0 = hp.TYPE_ITP | (it["p"] << 5)
            upd = dict(valid=1, dw0=dw0, dw1=it["w1"], dw2=it["w2"], dw3=it.get("w3", 0))
        elif it["k"] == "other":
            dw0 = it["t"] | (it["p"] << 5)
            upd = dict(valid=1, dw0=dw0, dw1=it["w1"], dw2=it["w2"])
        else:
            dw0 = it["t"] | (it["p"] << 5)
            upd = dict(valid=0, dw0=dw0)
        self.log.append((upd["valid"], dw0, self.i))
        return upd


class ItpSub(Sub):
    name = "itp"
    budget = {"quick": 10000, "thorough": 150000}
    rule = ("header-queue histories mixing ITP headers over all 27 payload bits (random, walking ones, field "
            "boundaries, back to back), headers of other types held 1-4 cycles, and invalid cycles carrying stale "
            "ITP-typed data; every ITP taken must be followed by update_received with bus_interval_counter == "
            "DW0[18:5] and delta == DW0[31:19]; no strobe without an ITP; non-trivial = some ITP with counter >= 2 "
            "and some ITP with delta >= 2 (bits above bit 0 of both fields exercised)")

    def setup(self):
        from luna.gateware.usb.usb3.protocol.timestamp import TimestampPacketReceiver
        dut = TimestampPacketReceiver()
        hs = dut.header_sink
        self.h = CycleHarness(
            dut, ins=dict(valid=hs.valid, dw0=hs.header.dw0, dw1=hs.header.dw1, dw2=hs.header.dw2, dw3=self._dw3(hs.header)),
            outs=dict(ready=hs.ready, upd=dut.update_received, ctr=dut.bus_interval_counter, delta=dut.delta),
            domain="ss")
        self.widths = (len(dut.bus_interval_counter), len(dut.delta))

    @staticmethod
    def _dw3(header):
        from amaranth import Cat
        return Cat(header.crc16, header.sequence_number, header.dw3_reserved, header.hub_depth,
                   header.delayed, header.deferred, header.crc5)

    def strategy(self):
        return st.fixed_dictionaries(dict(items=long_lists(_item(), min_size=1, max_size=40, average=12)))

    def enumerate(self, tier):
        cases = [dict(items=[dict(k="itp", p=p, w1=0, w2=0, w3=0)]) for p in _EDGE + [1 << b for b in range(27)]]
        cases += [dict(items=[dict(k="itp", p=0x2AAAAAA, w1=0, w2=0, w3=1 << b)]) for b in range(32)]
        return cases

    def run(self, case):
        drv = _Driver(case["items"])
        trace = self.h.run_driver(drv, 40 * 8 + 16)
        log = drv.log[:len(trace)]

        taken = []          # (cycle, counter, delta)
        labels = set()
        prev_itp = False
        for t, ((v, dw0, idx), o) in enumerate(zip(log, trace)):
            is_itp = v and hp.header_type(dw0) == hp.TYPE_ITP
            if is_itp and o.ready:
                f = hp.parse_itp(dw0)
                taken.append((t, f["counter"], f["delta"]))
                if prev_itp:
                    labels.add("back-to-back-itp")
            prev_itp = bool(is_itp and o.ready)
            if v and not is_itp:
                labels.add("other-type-header")
            if not v and hp.header_type(dw0) == hp.TYPE_ITP and idx is not None:
                labels.add("stale-itp-while-invalid")
        presented = sum(1 for it in case["items"] if it["k"] == "itp")
        if len(taken) != presented:
            return fail(f"{presented} ITP headers presented (each held up to 6 cycles) but {len(taken)} were taken",
                        signature="itp-not-accepted")

        strobes = [t for t, o in enumerate(trace) if o.upd]
        verdict = None
        for lat in (1, 2):
            exp = {t + lat: (c, d) for t, c, d in taken}
            if sorted(exp) != strobes:
                missing = sorted(set(exp) - set(strobes))
                extra = sorted(set(strobes) - set(exp))
                if missing:
                    v = (f"ITP taken in cycle {missing[0] - lat} but update_received is low in cycle {missing[0]}",
                         "missing-update-strobe")
                else:
                    v = (f"update_received high in cycle {extra[0]} without an ITP header {lat} cycle(s) earlier",
                         "strobe-without-itp")
            else:
                v = None
                for t in strobes:
                    c, d = exp[t]
                    o = trace[t]
                    if o.ctr != c or o.delta != d:
                        which = [n for n, a, b in (("counter", o.ctr, c), ("delta", o.delta, d)) if a != b]
                        sig = "wrong-" + "+".join(which)
                        wc, wd = self.widths
                        if (wc < 14 or wd < 13) and o.ctr == c & ((1 << wc) - 1) and o.delta == d & ((1 << wd) - 1):
                            sig = "outputs-truncated"
                        v = (f"cycle {t}: ITP counter={c:#06x} delta={d:#06x} but reported bus_interval_counter="
                             f"{o.ctr:#x} ({wc} bit) delta={o.delta:#x} ({wd} bit)", sig)
                        break
            if v is None:
                verdict = None
                break
            if verdict is None:
                verdict = v
        if verdict is not None:
            return fail(verdict[0], signature=verdict[1])

        hi_c = any(c >= 2 for _, c, _ in taken)
        hi_d = any(d >= 2 for _, _, d in taken)
        if hi_c:
            labels.add("counter-high-bits")
        if hi_d:
            labels.add("delta-high-bits")
        if any(c == 0x3FFF for _, c, _ in taken):
            labels.add("counter-all-ones")
        if any(d == 0x1FFF for _, _, d in taken):
            labels.add("delta-all-ones")
        if any(it["k"] == "itp" and (it.get("w3", 0) >> 25) & 1 for it in case["items"]):
            labels.add("itp-with-delayed-flag")
        return Result(ok=True, nontrivial=hi_c and hi_d, labels=tuple(sorted(labels)))


# ------------------------------------------------------------------------------------------------
# The receiver as wired in USB3ProtocolLayer (protocol/layer.py), on a stub link
# ------------------------------------------------------------------------------------------------

class _StubLink:
    """The ports of USB3LinkLayer that USB3ProtocolLayer.elaborate() touches (declared as link/layer.py declares them)."""

    def __init__(self):
        from amaranth import Signal
        from luna.gateware.usb.usb3.link.header import HeaderQueue
        from luna.gateware.usb.usb3.link.data import DataHeaderPacket
        from luna.gateware.usb.stream import SuperSpeedStreamInterface
        self.header_sink = HeaderQueue()
        self.header_source = HeaderQueue()
        self.data_source = SuperSpeedStreamInterface()
        self.data_header_from_host = DataHeaderPacket()
        self.data_source_complete = Signal()
        self.data_source_invalid = Signal()
        self.data_sink = SuperSpeedStreamInterface()
        self.data_sink_send_zlp = Signal()
        self.data_sink_sequence_number = Signal(5)
        self.data_sink_endpoint_number = Signal(4)
        self.data_sink_length = Signal(range(1024 + 1))
        self.data_sink_direction = Signal()
        self.ready = Signal()
        self.in_reset = Signal()


def _layer_dut():
    """USB3ProtocolLayer with the strobe / delta of the timestamp receiver it instantiates brought out."""
    from amaranth import Elaboratable, Module, Signal
    from luna.gateware.usb.usb3.protocol.layer import USB3ProtocolLayer

    class Wrapped(Elaboratable):
        def __init__(self):
            self.link = _StubLink()
            self.layer = USB3ProtocolLayer(link_layer=self.link)
            self.upd = Signal()
            self.ctr = Signal(16)
            self.delta = Signal(16)

        def elaborate(self, platform):
            m = Module()
            inner = self.layer.elaborate(platform)
            itp = inner.submodules.itp_handler          # the instance layer.py attached to the header demultiplexer
            m.submodules.layer = inner
            m.d.comb += [self.upd.eq(itp.update_received), self.ctr.eq(itp.bus_interval_counter),
                         self.delta.eq(itp.delta)]
            self.widths = (len(itp.bus_interval_counter), len(itp.delta))
            return m

    return Wrapped()


# in_reset relative to the header: none / pulse that ends 2..3 cycles before the offer / rising in the offer cycle /
# rising in the cycle after the transfer (= the report cycle) / rising two cycles after
RST_NONE, RST_BEFORE, RST_WITH, RST_AFTER1, RST_AFTER2 = range(5)


def _layer_item():
    rst = weighted([(RST_NONE, 5), (RST_BEFORE, 1), (RST_WITH, 3), (RST_AFTER1, 1), (RST_AFTER2, 1)])
    rl = weighted([(1, 3), (2, 2), (3, 1), (6, 1), (12, 1)])
    itp = st.fixed_dictionaries(dict(
        k=st.just("itp"),
        p=st.one_of(bits(27), st.sampled_from(_EDGE), st.integers(0, 26).map(lambda b: 1 << b)),
        w1=st.one_of(st.just(0), bits(32)), w2=st.one_of(st.just(0), bits(32)),
        w3=st.one_of(st.just(0), bits(32)), rst=rst, rl=rl, gap=st.integers(2, 3)))
    other = st.fixed_dictionaries(dict(
        k=st.just("other"), t=st.sampled_from([hp.TYPE_LMP, hp.TYPE_TP, hp.TYPE_DPH]), p=bits(27), w1=bits(32),
        w2=bits(32), w3=bits(32), rst=rst, rl=rl, gap=st.integers(2, 3)))
    idle = st.fixed_dictionaries(dict(
        k=st.just("idle"), t=weighted([(hp.TYPE_ITP, 3), (hp.TYPE_TP, 1), (0, 1)]), p=bits(27), n=st.integers(1, 3),
        rst=weighted([(RST_NONE, 3), (RST_WITH, 1)]), rl=rl, gap=st.integers(2, 3)))
    return st.one_of(itp, itp, itp, other, idle)


class _LinkDriver:
    """The link layer's side of header_source + in_reset (see ASSUMPTIONS)."""

    HOLD = 6

    def __init__(self, items, link_ready):
        self.items = items
        self.link_ready = link_ready
        self.i = 0
        self.q = []            # cycles already decided: dict(valid, dw0.., rst) -- consumed before the next item
        self.phase = None
        self.log = []          # per cycle (valid, dw0, in_reset, item index)
        self.tail = 4

    def _emit(self, idx, valid=0, rst=0, dw0=None, it=None):
        upd = dict(valid=valid, rst=rst)
        if dw0 is not None:
            upd.update(dw0=dw0)
            if valid:
                upd.update(dw1=it["w1"], dw2=it["w2"], dw3=it["w3"])
        self.log.append((valid, dw0 if dw0 is not None else (self.log[-1][1] if self.log else 0), rst, idx))
        return upd

    def step(self, t, prev):
        if t == 0:
            first = dict(lready=self.link_ready)
        else:
            first = {}
        upd = self._step(t, prev)
        if upd is None:
            return None
        upd.update(first)
        return upd

    def _step(self, t, prev):
        while True:
            if self.q:
                kind, idx = self.q.pop(0)
                return self._emit(idx, valid=0, rst=1 if kind == "rst" else 0)
            if self.i >= len(self.items):
                self.tail -= 1
                return None if self.tail < 0 else self._emit(None)
            it = self.items[self.i]
            idx = self.i
            if self.phase is None:
                self.phase = "offer"
                self.left = self.HOLD if it["k"] != "idle" else it["n"]
                self.first = True
                if it["rst"] == RST_BEFORE:
                    self.q = [("rst", idx)] * it["rl"] + [("gap", idx)] * it["gap"]
                    continue
            # offer phase
            if not self.first:
                pv, _, prst, _ = self.log[-1]
                taken = bool(pv and prev.ready)
                flushed = bool(prst)                 # offered in the first cycle of a reset: the queue is empty now
                self.left -= 1
                if taken or flushed or self.left <= 0:
                    after = []
                    if it["rst"] == RST_WITH:
                        after = [("rst", idx)] * (it["rl"] - 1) + [("gap", idx)] * it["gap"]
                    elif it["rst"] == RST_AFTER1:
                        after = [("rst", idx)] * it["rl"] + [("gap", idx)] * it["gap"]
                    elif it["rst"] == RST_AFTER2:
                        after = [("gap", idx)] + [("rst", idx)] * it["rl"] + [("gap", idx)] * it["gap"]
                    self.q = after
                    self.i += 1
                    self.phase = None
                    continue
            rst = 1 if (it["rst"] == RST_WITH and self.first) else 0
            self.first = False
            if it["k"] == "idle":
                return self._emit(idx, valid=0, rst=rst, dw0=it["t"] | (it["p"] << 5))
            ty = hp.TYPE_ITP if it["k"] == "itp" else it["t"]
            return self._emit(idx, valid=1, rst=rst, dw0=ty | (it["p"] << 5), it=it)


class LayerItpSub(Sub):
    name = "layer"
    budget = {"quick": 4000, "thorough": 60000}
    rule = ("USB3ProtocolLayer on a stub link: header-queue histories on link.header_source (ITP headers over all 27 "
            "payload bits, LMP/TP/DPH headers for the layer's other consumers, empty cycles with stale data) with "
            "link.in_reset pulses of 1..12 cycles placed before the offer, rising in the offer cycle (the header is "
            "then withdrawn after that cycle, as the real queue is flushed), in the report cycle or after it; link.ready "
            "0/1 per case; every ITP transferred (valid & ready on header_source) must be followed by the timestamp "
            "receiver's update_received with bus_interval_counter == DW0[18:5] == layer.bus_interval and delta == "
            "DW0[31:19]; ITPs offered outside a reset must be taken; no strobe without a transfer; non-trivial = an "
            "ITP with non-zero counter and delta transferred in a cycle in which in_reset is high, and another "
            "outside a reset")

    def setup(self):
        dut = _layer_dut()
        hs = dut.link.header_source
        self.h = CycleHarness(
            dut, ins=dict(valid=hs.valid, dw0=hs.header.dw0, dw1=hs.header.dw1, dw2=hs.header.dw2,
                          dw3=ItpSub._dw3(hs.header), rst=dut.link.in_reset, lready=dut.link.ready),
            outs=dict(ready=hs.ready, upd=dut.upd, ctr=dut.ctr, delta=dut.delta, busint=dut.layer.bus_interval),
            domain="ss")
        self.dut = dut

    def strategy(self):
        return st.fixed_dictionaries(dict(items=long_lists(_layer_item(), min_size=1, max_size=24, average=8),
                                          link_ready=weighted([(1, 3), (0, 1)])))

    def enumerate(self, tier):
        cases = []
        for rst in range(5):
            for rl in (1, 2, 6):
                cases.append(dict(link_ready=1, items=[
                    dict(k="itp", p=0x5555555, w1=0, w2=0, w3=0, rst=RST_NONE, rl=1, gap=2),
                    dict(k="itp", p=0x2AAAAAA, w1=0, w2=0, w3=0, rst=rst, rl=rl, gap=2),
                    dict(k="itp", p=0x7FFFFFF, w1=0, w2=0, w3=0, rst=RST_NONE, rl=1, gap=2)]))
        return cases

    def run(self, case):
        drv = _LinkDriver(case["items"], case["link_ready"])
        trace = self.h.run_driver(drv, 24 * 40 + 16)
        log = drv.log[:len(trace)]
        wc, wd = self.dut.widths
        labels = set()
        taken = []              # (cycle, counter, delta, in_reset)
        offered_clear = {}      # item index -> was it taken (ITPs offered with in_reset low only)
        for t, ((v, dw0, rst, idx), o) in enumerate(zip(log, trace)):
            is_itp = v and hp.header_type(dw0) == hp.TYPE_ITP
            if t and rst and log[t - 1][2] and v:
                raise HarnessError("driver offered a header inside a reset pulse")
            if is_itp:
                if not rst:
                    offered_clear[idx] = offered_clear.get(idx, False) or bool(o.ready)
                if o.ready:
                    f = hp.parse_itp(dw0)
                    taken.append((t, f["counter"], f["delta"], rst))
            elif v:
                labels.add("other-type-header")
        lost = [i for i, ok in offered_clear.items() if not ok]
        if lost:
            return fail(f"ITP header (item {lost[0]}) offered for {drv.HOLD} cycles with in_reset low was never taken",
                        signature="itp-not-accepted")

        strobes = [t for t, o in enumerate(trace) if o.upd]
        verdict = None
        for lat in (1, 2):
            exp = {t + lat: (c, d, r) for t, c, d, r in taken}
            v = None
            if sorted(exp) != strobes:
                missing = sorted(set(exp) - set(strobes))
                extra = sorted(set(strobes) - set(exp))
                if missing:
                    r = exp[missing[0]][2]
                    v = (f"ITP transferred in cycle {missing[0] - lat} (link.in_reset={r}) but update_received is low "
                         f"in cycle {missing[0]}",
                         "missing-update-strobe-itp-during-reset" if r else "missing-update-strobe")
                else:
                    v = (f"update_received high in cycle {extra[0]} without an ITP header {lat} cycle(s) earlier",
                         "strobe-without-itp")
            else:
                for t in strobes:
                    c, d, r = exp[t]
                    o = trace[t]
                    if o.ctr != c or o.delta != d or o.busint != c:
                        which = [n for n, a, b in (("counter", o.ctr, c), ("delta", o.delta, d),
                                                   ("bus_interval", o.busint, c)) if a != b]
                        sig = "wrong-" + "+".join(which)
                        if (wc < 14 or wd < 13) and o.ctr == c & ((1 << wc) - 1) and o.delta == d & ((1 << wd) - 1) \
                                and o.busint == o.ctr:
                            sig = "outputs-truncated"
                        v = (f"cycle {t}: ITP counter={c:#06x} delta={d:#06x} (transferred with link.in_reset={r}) but "
                             f"reported bus_interval_counter={o.ctr:#x} ({wc} bit) delta={o.delta:#x} ({wd} bit) "
                             f"layer.bus_interval={o.busint:#x}", sig)
                        break
            if v is None:
                verdict = None
                break
            if verdict is None:
                verdict = v
        if verdict is not None:
            return fail(verdict[0], signature=verdict[1])

        in_rst = [x for x in taken if x[3] and x[1] and x[2]]
        clear = [x for x in taken if not x[3] and x[1] and x[2]]
        if any(x[3] for x in taken):
            labels.add("itp-transferred-in-first-reset-cycle")
        if any(it["rst"] == RST_AFTER1 and it["k"] == "itp" for it in case["items"]):
            labels.add("reset-rises-in-report-cycle")
        if any(it["rst"] == RST_BEFORE for it in case["items"]):
            labels.add("reset-before-offer")
        labels.add(f"link-ready={case['link_ready']}")
        return Result(ok=True, nontrivial=bool(in_rst and clear), labels=tuple(sorted(labels)))


SUBS = [ItpSub(), LayerItpSub()]
