"""C31 — SuperSpeed scrambling uses the USB3 LFSR and descrambling inverts it."""

from hypothesis import strategies as st

from amaranth import Signal

from lunaverif.core import Sub, Result, fail, HarnessError
from lunaverif.gen import long_lists, weighted
from lunaverif.simkit import CycleHarness
from lunaverif.ref import g3_usb3 as u3

PROPERTY = "C31"
ASSUMPTIONS = [
    "a word is 'actually transferred' in a cycle with sink.valid & source.ready & ~hold; a word presented with "
    "hold=1 is consumed by the SKP inserter and replaced on the wire, so it takes no key",
    "hold is never asserted over a word whose symbol 0 is COM (the inserter holds only over logical idle; whether "
    "such a word should restart the keystream is not defined by the statement)",
    "a producer keeps a word (and the scrambler's enable) stable while it is stalled (valid & ~ready)",
    "the 'clear' strobe (driven by no in-repo caller) is only generated in cycles without a valid word",
    "keystream byte i of a word belongs to symbol i (symbol 0 = bits 7:0, first on the wire)",
    "physical-layer sub: the link layer asserts can_send_skp only over logical-idle words (00000000/0000), never "
    "offers an all-SKP word itself, and leaves an idle slot of >= 2 words after at most 200 words of traffic (so the "
    "inserter's backlog stays within its 4 ordered sets); enable_scrambling is constant within a case",
]

# -------------------------------------------------------------------------------------------------
# word encoding shared by the scrambler subs: a 36-bit integer -> four symbols; 9 bits per symbol:
#   bit 8 = K flag; for K symbols the byte is taken from a table that favours COM.
_KTAB = [u3.COM, u3.COM, u3.COM, u3.SKP, u3.SHP, u3.SLC, u3.EPF, u3.END, u3.SDP, u3.EDB, u3.SUB, u3.RSD, 0x00, 0xFF,
         0x4A, u3.COM]


# words as a link partner / link layer frames them: one control code repeated over the whole word (SKP weighted up:
# it is the one code besides COM that the scrambling rules of the standard treat specially), and the ordered sets of
# the link layer (three framing symbols + EPF), SKP pairs next to data, SKP runs of every length and position.
_UNIFORM = [u3.SKP, u3.SKP, u3.SKP, u3.SHP, u3.SLC, u3.EPF, u3.END, u3.SDP, u3.EDB, u3.SUB, u3.RSD, 0x00, 0xFF, 0x4A]
_D = None       # placeholder: a data symbol taken from the case's bits
_SETS = [[u3.SHP, u3.SHP, u3.SHP, u3.EPF], [u3.SDP, u3.SDP, u3.SDP, u3.EPF], [u3.END, u3.END, u3.END, u3.EPF],
         [u3.EDB, u3.EDB, u3.EDB, u3.EPF], [u3.SLC, u3.SLC, u3.SLC, u3.EPF],
         [u3.SKP, u3.SKP, _D, _D], [_D, _D, u3.SKP, u3.SKP], [u3.SKP, u3.SKP, u3.SKP, _D], [_D, u3.SKP, u3.SKP, u3.SKP],
         [u3.SKP, _D, _D, _D], [_D, _D, _D, u3.SKP], [u3.SKP, u3.SKP, u3.SKP, u3.SKP], [u3.SUB, u3.SUB, _D, _D],
         [u3.SKP, u3.SKP, u3.SHP, u3.SHP], [u3.END, u3.EPF, u3.SKP, u3.SKP]]


def decode_word(shape, bits):
    """shape: 0 random D/K mix, 1 all data, 2 COM in symbol 0 + data, 3 K-COM only in a later symbol, 4 four COMs,
    5 logical idle (all-zero data), 6 all K, 7 the *data* byte 0xBC in symbol 0, 8 one non-COM control code in all
    four symbols, 9 an ordered-set-like word (framing sets, SKP runs/pairs next to data)."""
    if shape == 8:
        return u3.syms_to_word([(_UNIFORM[(bits >> 27) % len(_UNIFORM)], 1)] * 4)
    if shape == 9:
        pat = _SETS[(bits >> 27) % len(_SETS)]
        return u3.syms_to_word([((bits >> (9 * i)) & 0xFF, 0) if b is None else (b, 1) for i, b in enumerate(pat)])
    syms = []
    for i in range(4):
        f = (bits >> (9 * i)) & 0x1FF
        b, k = f & 0xFF, f >> 8
        if k:
            b = _KTAB[b & 15]
        if shape in (1, 2, 7):
            b, k = f & 0xFF, 0
        elif shape == 4:
            b, k = u3.COM, 1
        elif shape == 5:
            b, k = 0, 0
        elif shape == 6:
            b, k = _KTAB[f & 15], 1
        syms.append((b, k))
    if shape == 2:
        syms[0] = (u3.COM, 1)
    elif shape == 3:
        if syms[0] == (u3.COM, 1):
            syms[0] = (u3.COM, 0)
        syms[1 + bits % 3] = (u3.COM, 1)
    elif shape == 7:
        syms[0] = (u3.COM, 0)
    return u3.syms_to_word(syms)


_SHAPE = weighted([(0, 6), (1, 8), (2, 3), (3, 2), (4, 1), (5, 4), (6, 1), (7, 1), (8, 2), (9, 2)])
# op = (shape, bits, gap cycles before, stall cycles, hold)
_OP = st.tuples(_SHAPE, st.integers(0, (1 << 36) - 1), weighted([(0, 8), (1, 2), (2, 1), (5, 1)]),
                weighted([(0, 8), (1, 2), (2, 1), (3, 1)]), weighted([(0, 7), (1, 1)]))

INITS = [0xFFFF, 0x7DBD, 0x0001, 0xACE1]


def build_script(ops, enable_mode, enable_bits, with_clear):
    """-> (script, words) ; words = list of dict(t=transfer cycle, first=first presented cycle, data, ctrl, hold,
    enable).  enable_mode 0: off, 1: on, 2: chosen per word from enable_bits."""
    script = []
    words = []
    clears = []
    for n, (shape, bits, gap, stall, hold) in enumerate(ops):
        data, ctrl = decode_word(shape, bits)
        if (data & 0xFF) == u3.COM and (ctrl & 1):
            hold = 0          # the SKP inserter only ever holds over logical idle; never over a COM-first word
        en = enable_mode if enable_mode < 2 else (enable_bits >> (n % 48)) & 1
        for g in range(gap):
            # not-valid cycles: bus carries junk (a COM-looking junk word must not restart anything)
            junk = (bits * 0x9E3779B1 + g) & 0xFFFFFFFF if n % 3 else 0xBCBCBCBC
            clr = int(with_clear and g == 0 and (bits >> 20) & 3 == 0)
            if clr:
                clears.append(len(script))
            script.append(dict(valid=0, data=junk, ctrl=(bits >> 5) & 0xF if n % 3 else 0xF, ready=(bits >> 9) & 1,
                               hold=(bits >> 10) & 1 & (1 - clr), enable=en, clear=clr))
        first = len(script)
        for s in range(stall):
            script.append(dict(valid=1, data=data, ctrl=ctrl, ready=0, hold=0, enable=en, clear=0))
        script.append(dict(valid=1, data=data, ctrl=ctrl, ready=1, hold=hold, enable=en, clear=0))
        words.append(dict(t=len(script) - 1, first=first, data=data, ctrl=ctrl, hold=hold, enable=en, shape=shape))
    return script, words, clears


class KeyModel:
    """Keystream position per the statement: restart after a transferred word whose symbol 0 is COM (and on the
    clear strobe); one 4-byte step per transferred word; nothing else moves it."""

    def __init__(self, init):
        self.init = init
        self.state = init

    def key(self):
        return u3.lfsr_word(self.state)[0]

    def transferred(self, data, ctrl):
        if (data & 0xFF) == u3.COM and (ctrl & 1):
            self.state = self.init
        else:
            self.state = u3.lfsr_word(self.state)[1]

    def clear(self):
        self.state = self.init


# =================================================================================================
class LfsrSub(Sub):
    name = "lfsr"
    budget = {"quick": 1500, "thorough": 20000}
    rule = ("ScramblerLFSR: exhaustive walk over all 65535 non-zero states (16 chunks started through initial_value, "
            "value compared with 4 bit-serial reference bytes at every step) + random advance/clear schedules on 5 "
            "initial values; non-trivial (random part) = a clear after >=1 advance, followed by more advances, and "
            "a cycle with clear&advance")
    CHUNK = 4096

    def setup(self):
        self.h = {}

    def harness(self, init):
        if init not in self.h:
            from luna.gateware.usb.usb3.physical.scrambling import ScramblerLFSR
            dut = ScramblerLFSR(initial_value=init)
            self.h[init] = CycleHarness(dut, dict(clear=dut.clear, advance=dut.advance), dict(value=dut.value),
                                        domain="ss")
        return self.h[init]

    _starts = None

    def enumerate(self, tier):
        if self._starts is not None:
            return self._starts
        # chunk c starts from the state reached after c*CHUNK word steps from FFFF; gcd(32, 65535) = 1, so word
        # stepping visits every non-zero state once in 65535 steps.
        starts = []
        s = u3.LFSR_INIT
        for i in range(65535):
            if i % self.CHUNK == 0:
                starts.append(s)
            s = u3.lfsr_word(s)[1]
        assert s == u3.LFSR_INIT
        LfsrSub._starts = [dict(kind="walk", init=st_, steps=self.CHUNK + 1) for st_ in starts] + \
                          [dict(kind="walk", init=0, steps=8)]
        return self._starts

    def strategy(self):
        return st.fixed_dictionaries(dict(
            kind=st.just("sched"),
            init=st.sampled_from(INITS + [0x8000]),
            # per cycle: 0 idle, 1 advance, 2 clear, 3 both
            sched=long_lists(weighted([(1, 10), (0, 3), (2, 1), (3, 1)]), min_size=1, max_size=200, average=70),
        ))

    def run(self, case):
        init = case["init"]
        if case["kind"] == "walk":
            sched = [1] * case["steps"]
        else:
            sched = case["sched"]
        script = [dict(clear=(c >> 1) & 1, advance=c & 1) for c in sched]
        trace = self.h_run(init, script)
        state = init
        advanced = 0
        clear_after_adv = False
        adv_after_clear = False
        both = False
        for t, (c, o) in enumerate(zip(sched, trace)):
            exp = u3.lfsr_word(state)[0]
            if o.value != exp:
                return fail(f"initial_value={init:#06x} cycle {t}: LFSR state {state:#06x} should give keystream word "
                            f"{exp:#010x}, value={o.value:#010x}",
                            signature="lfsr-value-mismatch" if advanced == 0 else "lfsr-sequence-mismatch")
            if c & 2:
                if advanced:
                    clear_after_adv = True
                if c & 1:
                    both = True
                state = init
            elif c & 1:
                state = u3.lfsr_word(state)[1]
                advanced += 1
                if clear_after_adv:
                    adv_after_clear = True
        labels = [case["kind"], f"init={init:#06x}" if case["kind"] == "sched" else "walk-chunk"]
        if both:
            labels.append("clear&advance")
        nt = case["kind"] == "walk" or (clear_after_adv and adv_after_clear and both)
        return Result(ok=True, nontrivial=nt, labels=tuple(labels))

    def h_run(self, init, script):
        return self.harness(init).run_script(script)


# =================================================================================================
def _scrambler_harness(cls_name, init):
    from luna.gateware.usb.usb3.physical import scrambling
    dut = getattr(scrambling, cls_name)(initial_value=init)
    ins = dict(valid=dut.sink.valid, data=dut.sink.data, ctrl=dut.sink.ctrl, ready=dut.source.ready,
               hold=dut.hold, enable=dut.enable, clear=dut.clear)
    outs = dict(ovalid=dut.source.valid, odata=dut.source.data, octrl=dut.source.ctrl, iready=dut.sink.ready)
    return CycleHarness(dut, ins, outs, domain="ss")


def _case_strategy(max_ops, avg):
    return st.fixed_dictionaries(dict(
        dut=weighted([("Scrambler", 2), ("Descrambler", 1)]),
        init=st.sampled_from(INITS),
        enable_mode=weighted([(1, 6), (2, 2), (0, 1)]),
        enable_bits=st.integers(0, (1 << 48) - 1),
        with_clear=weighted([(0, 4), (1, 1)]),
        ops=long_lists(_OP, min_size=1, max_size=max_ops, average=avg),
    ))


class ScramblerSub(Sub):
    name = "scrambler"
    budget = {"quick": 9000, "thorough": 140000}
    rule = ("Scrambler/Descrambler (4 initial values) driven with word schedules: data/K mixes, COM in symbol 0 / in "
            "later symbols / as data byte, logical idle, one control code (SKP, framing codes, others) in all four "
            "symbols, ordered-set-like words (framing sets, SKP runs and pairs next to data), invalid gaps with junk, "
            "ready stalls, hold on the transfer "
            "cycle, enable off/on/per word, rare clear; oracle per cycle: valid/ctrl pass through, sink.ready = "
            "source.ready, output data = D symbols XOR bit-serial reference keystream at the position defined by the "
            "statement (one step per transferred word, restart after a transferred COM-first word), stable while "
            "stalled; non-trivial = enable on, a COM-first restart followed by >=2 scrambled data words, a mixed D/K "
            "word, a stall and a hold")
    shrink_budget = 800

    def setup(self):
        self.h = {}

    def strategy(self):
        return _case_strategy(90, 35)

    def run(self, case):
        key = (case["dut"], case["init"])
        if key not in self.h:
            self.h[key] = _scrambler_harness(*key)
        script, words, clears = build_script(case["ops"], case["enable_mode"], case["enable_bits"], case["with_clear"])
        trace = self.h[key].run_script(script)

        model = KeyModel(case["init"])
        by_first = {w["first"]: w for w in words}
        clear_at = set(clears)
        cur = None
        restarts = 0
        scrambled_after_restart = 0
        best_after_restart = 0
        uniform_open = False
        seen = set()
        for t, (vec, o) in enumerate(zip(script, trace)):
            if o.ovalid != vec["valid"] or o.iready != vec["ready"]:
                return fail(f"cycle {t}: handshake not passed through (source.valid={o.ovalid} for sink.valid="
                            f"{vec['valid']}, sink.ready={o.iready} for source.ready={vec['ready']})",
                            signature="handshake-not-passed-through")
            if t in clear_at:
                model.clear()
                seen.add("clear")
            if t in by_first:
                cur = by_first[t]
            if not vec["valid"]:
                continue
            w = cur
            if o.octrl != w["ctrl"]:
                return fail(f"cycle {t}: ctrl {o.octrl:04b} differs from input {w['ctrl']:04b}", signature="ctrl-changed")
            stalled = not vec["ready"]
            if vec["ready"] and vec["hold"]:
                seen.add("hold")
                continue            # replaced on the wire: takes no key, restarts nothing, value not asserted
            keyw = model.key() if w["enable"] else 0
            exp = u3.scramble_word(w["data"], w["ctrl"], keyw)
            if o.odata != exp:
                com_first = (w["data"] & 0xFF) == u3.COM and (w["ctrl"] & 1)
                k_changed = any(((o.odata ^ w["data"]) >> (8 * i)) & 0xFF for i in range(4) if (w["ctrl"] >> i) & 1)
                if k_changed:
                    sig = "control-symbol-scrambled"
                elif com_first and t > w["first"]:
                    sig = "com-word-rekeyed-while-stalled"
                elif not w["enable"]:
                    sig = "scrambled-while-disabled"
                else:
                    sig = "keystream-mismatch"
                return fail(f"{case['dut']}(init={case['init']:#06x}) cycle {t} (word first presented in cycle "
                            f"{w['first']}, {'stalled' if stalled else 'transferred'}): input {w['data']:#010x}/"
                            f"{w['ctrl']:04b} enable={w['enable']} expected {exp:#010x} (key {keyw:#010x}, LFSR "
                            f"{model.state:#06x}) got {o.odata:#010x}", signature=sig)
            if stalled:
                seen.add("stall")
                continue
            # transferred
            com_first = (w["data"] & 0xFF) == u3.COM and (w["ctrl"] & 1)
            if com_first:
                restarts += 1
                scrambled_after_restart = 0
                if t > w["first"]:
                    seen.add("stalled-com-word")
            elif restarts and w["enable"] and w["ctrl"] != 0xF:
                scrambled_after_restart += 1
                best_after_restart = max(best_after_restart, scrambled_after_restart)
            if w["ctrl"] not in (0, 0xF):
                seen.add("mixed-word")
            if w["ctrl"] == 0xF and w["data"] == (w["data"] & 0xFF) * 0x01010101 and not com_first:
                seen.add("uniform-K-word" + ("-SKP" if (w["data"] & 0xFF) == u3.SKP else ""))
                uniform_open = True
            elif com_first:
                uniform_open = False
            elif uniform_open and w["enable"] and w["ctrl"] != 0xF:
                seen.add("uniform-K-word-then-scrambled-data")
            if w.get("shape") == 9:
                seen.add("ordered-set-word")
            if any((w["data"] >> (8 * i)) & 0xFF == u3.COM and (w["ctrl"] >> i) & 1 for i in (1, 2, 3)) and not com_first:
                seen.add("com-not-first")
            if (w["data"] & 0xFF) == u3.COM and not (w["ctrl"] & 1):
                seen.add("d-bc-first")
            if w["enable"]:
                seen.add("enabled")
            else:
                seen.add("disabled")
            model.transferred(w["data"], w["ctrl"])
        if restarts:
            seen.add("restart")
        if best_after_restart >= 2:
            seen.add("restart+2data")
        nt = {"enabled", "restart+2data", "mixed-word", "stall", "hold"} <= seen
        return Result(ok=True, nontrivial=nt, labels=tuple(sorted(seen | {case["dut"]})))


# =================================================================================================
class RoundTripSub(Sub):
    name = "roundtrip"
    budget = {"quick": 4000, "thorough": 60000}
    rule = ("round trip: a word stream goes through Scrambler (its own stall/hold/gap schedule), the transferred words "
            "go through Descrambler built with the same initial value under an independent stall/gap schedule; the "
            "recovered stream must equal the original (data and ctrl, order, count); non-trivial = enable on, >=1 "
            "COM-first restart with data after it, >=1 stall on each side, >=8 words")
    shrink_budget = 800

    def setup(self):
        self.h = {}

    def strategy(self):
        return st.fixed_dictionaries(dict(
            init=st.sampled_from(INITS),
            enable=weighted([(1, 8), (0, 1)]),
            ops=long_lists(_OP, min_size=1, max_size=70, average=30),
            # receive-side schedule: per word (gap, stall)
            rx=st.lists(st.tuples(weighted([(0, 6), (1, 2), (3, 1)]), weighted([(0, 6), (1, 2), (2, 1)])),
                        min_size=1, max_size=16),
        ))

    def run(self, case):
        init = case["init"]
        for name in ("Scrambler", "Descrambler"):
            if (name, init) not in self.h:
                self.h[(name, init)] = _scrambler_harness(name, init)
        script, words, _ = build_script(case["ops"], case["enable"], 0, 0)
        trace = self.h[("Scrambler", init)].run_script(script)
        sent = []       # words that made it to the wire
        orig = []
        tx_stalled = []
        for w in words:
            if w["hold"]:
                continue          # replaced by SKP on the wire
            tx_stalled.append(w["t"] > w["first"])
            o = trace[w["t"]]
            if not o.ovalid:
                return fail(f"scrambler: cycle {w['t']} source.valid low during a transfer", signature="handshake")
            sent.append((o.odata, o.octrl))
            orig.append((w["data"], w["ctrl"]))
        # descrambler side
        rx = case["rx"]
        script2 = []
        at = []
        for n, (d, c) in enumerate(sent):
            gap, stall = rx[n % len(rx)]
            for g in range(gap):
                script2.append(dict(valid=0, data=d ^ 0x5A5A5A5A, ctrl=c, ready=1, hold=0, enable=case["enable"], clear=0))
            for s in range(stall):
                script2.append(dict(valid=1, data=d, ctrl=c, ready=0, hold=0, enable=case["enable"], clear=0))
            script2.append(dict(valid=1, data=d, ctrl=c, ready=1, hold=0, enable=case["enable"], clear=0))
            at.append(len(script2) - 1)
        if not script2:
            return Result(ok=True, nontrivial=False, labels=("empty",))
        trace2 = self.h[("Descrambler", init)].run_script(script2)
        restart_then_data = False
        seen_restart = False
        for n, t in enumerate(at):
            o = trace2[t]
            if (o.odata, o.octrl) != orig[n] or not o.ovalid:
                d, c = orig[n]
                com_first = (d & 0xFF) == u3.COM and (c & 1)
                sig = "roundtrip-mismatch"
                if com_first and (tx_stalled[n] or rx[n % len(rx)][1]):
                    sig = "com-word-rekeyed-while-stalled"
                return fail(f"init={init:#06x} enable={case['enable']} word {n}: original {d:#010x}/{c:04b}, on the wire "
                            f"{sent[n][0]:#010x}, recovered {o.odata:#010x}/{o.octrl:04b} (valid={o.ovalid})",
                            signature=sig)
            d, c = orig[n]
            if (d & 0xFF) == u3.COM and (c & 1):
                seen_restart = True
            elif seen_restart and c != 0xF:
                restart_then_data = True
        tx_stall = any(op[3] for op in case["ops"])
        rx_stall = any(rx[n % len(rx)][1] for n in range(len(sent)))
        labels = set()
        if restart_then_data:
            labels.add("restart+data")
        if tx_stall:
            labels.add("tx-stall")
        if rx_stall:
            labels.add("rx-stall")
        if any(w["hold"] for w in words):
            labels.add("hold")
        labels.add("enabled" if case["enable"] else "disabled")
        nt = bool(case["enable"] and restart_then_data and tx_stall and rx_stall and len(sent) >= 8)
        return Result(ok=True, nontrivial=nt, labels=tuple(sorted(labels)))


# =================================================================================================
#  scrambler + SKP inserter as wired inside the real USB3PhysicalLayer (anchor physical/layer.py)
# =================================================================================================
class _StubPHY:
    """PIPE PHY signal container for USB3PhysicalLayer."""

    def __init__(self):
        from luna.gateware.interface.pipe import TXDeemphMode
        widths = dict(reset=1, phy_status=1, phy_mode=2, rate=1, elas_buf_mode=1, tx_swing=1, tx_margin=3,
                      tx_ones_zeros=1, rx_termination=1, rx_polarity=1, rx_eq_training=1, power_present=1, rx_status=3,
                      power_down=2, tx_data=32, tx_datak=4, rx_data=32, rx_datak=4, rx_elec_idle=1, tx_elec_idle=1,
                      tx_detrx_lpbk=1)
        for n, w in widths.items():
            setattr(self, n, Signal(w, name="c31phy_" + n))
        self.tx_deemph = Signal(TXDeemphMode)


SKP_WORD = (u3.SKP * 0x01010101, 0xF)
_L_IDLE = [2, 3, 5, 9, 20, 60, 150, 300]
_L_BURST = [1, 2, 4, 9, 30, 90, 180, 200]
# burst word shapes (decode_word): mostly data and D/K mixes, some COM-first heads, idle look-alikes, ordered sets
_L_SHAPES = [1, 1, 1, 1, 1, 0, 0, 0, 5, 2, 3, 7, 9, 8, 6, 1]


def _mix(bits, j):
    x = (bits + 0x9E3779B97F4A7C15 * (j + 1)) & 0xFFFFFFFFFFFFFFFF
    x ^= x >> 31
    x = (x * 0xBF58476D1CE4E5B9) & 0xFFFFFFFFFFFFFFFF
    return x ^ (x >> 29)


def layer_stream(case):
    """-> list of (data, ctrl, can_send_skp) words offered to USB3PhysicalLayer.sink, one per cycle.
    segs = [kind, n, bits]: kind 0 logical idle with can_send_skp=1, kind 1 traffic burst (can_send_skp=0),
    kind 2 logical idle with can_send_skp=0.  Every burst is followed by an idle slot of >= 2 words."""
    words = [(0, 0, 0), (0, 0, 0)]          # reset settling: the first word is offered twice (accepted once)
    for kind, n, bits in case["segs"]:
        if kind == 0:
            words += [(0, 0, 1)] * _L_IDLE[n % len(_L_IDLE)]
        elif kind == 2:
            words += [(0, 0, 0)] * _L_IDLE[n % 5]
        else:
            for j in range(_L_BURST[n % len(_L_BURST)]):
                x = _mix(bits, j)
                d, c = decode_word(_L_SHAPES[x & 15], (x >> 8) & ((1 << 36) - 1))
                if (d, c) == SKP_WORD:
                    d, c = (x >> 20) & 0xFFFFFFFF, 0        # the link layer never offers SKP sets itself
                words.append((d, c, 0))
            words += [(0, 0, 1)] * 2
    words += [(0, 0, 1)] * 6
    return words


_LSEG = st.tuples(weighted([(0, 5), (1, 5), (2, 1)]), st.integers(0, 7), st.integers(0, (1 << 48) - 1))


class LayerTxSub(Sub):
    name = "layer-tx"
    budget = {"quick": 700, "thorough": 12000}
    rule = ("real USB3PhysicalLayer (stub PIPE PHY): link streams of traffic bursts (1..200 words: data, D/K mixes, "
            "COM-first heads, COM in later symbols, idle look-alikes, ordered-set words) and logical-idle runs of 2..300 "
            "words with can_send_skp on the filler (or off), long enough for SKP pairs to become due several times; "
            "oracle = what a receiver recovers: PHY tx words that are SKP sets on a can_send_skp slot are dropped, every "
            "other wire word must equal the offered word with its data symbols XORed with the bit-serial reference "
            "keystream at the position defined by the statement (one step per word that reached the wire, none for a "
            "word replaced by SKP sets, restart after a COM-first word) and its control symbols unchanged; "
            "enable_scrambling constant per case (on 5/6); non-trivial = scrambling on, >= 2 SKP words inserted, each "
            "of two of them followed by a word carrying a data symbol before any COM-first restart")
    shrink_budget = 200

    def setup(self):
        self.h = None

    def harness(self):
        if self.h is None:
            from luna.gateware.usb.usb3.physical.layer import USB3PhysicalLayer
            phy = _StubPHY()
            dut = USB3PhysicalLayer(phy=phy, sync_frequency=1e6)
            ins = dict(data=dut.sink.data, ctrl=dut.sink.ctrl, cs=dut.can_send_skp, en=dut.enable_scrambling)
            outs = dict(txd=phy.tx_data, txk=phy.tx_datak, ready=dut.sink.ready)
            self.h = CycleHarness(dut, ins, outs, domain="ss", extra_clocks={"sync": 1e-2})
        return self.h

    def strategy(self):
        return st.fixed_dictionaries(dict(
            enable=weighted([(1, 5), (0, 1)]),
            segs=long_lists(_LSEG, min_size=1, max_size=20, average=8).map(lambda l: [list(x) for x in l]),
        ))

    def run(self, case):
        words = layer_stream(case)
        en = case["enable"]
        script = [dict(data=d, ctrl=c, cs=cs, en=en) for d, c, cs in words]
        trace = self.harness().run_script(script, tail=1)
        if [o.ready for o in trace[:3]] != [0, 1, 1] or any(not o.ready for o in trace[1:]):
            raise HarnessError(f"sink.ready pattern {[o.ready for o in trace[:6]]}: the one-word-per-cycle alignment "
                               f"this sub relies on does not hold")
        state = u3.LFSR_INIT
        skp_words = 0
        pending = False          # a SKP word was inserted and no later word has been checked yet
        data_after_skp = 0
        restarts = 0
        for t in range(1, len(words)):
            d, c, cs = words[t]
            o = trace[t + 1]
            if cs and (o.txd, o.txk) == SKP_WORD:
                skp_words += 1       # filler replaced on the wire: not transferred, takes no key
                pending = True
                continue
            key = u3.lfsr_word(state)[0] if en else 0
            exp = u3.scramble_word(d, c, key)
            if (o.txd, o.txk) != (exp, c):
                s1 = u3.lfsr_word(state)[1]
                s2 = u3.lfsr_word(s1)[1]
                if o.txk != c:
                    sig = "layer-ctrl-changed"
                elif en and any(o.txd == u3.scramble_word(d, c, u3.lfsr_word(x)[0]) for x in (s1, s2, u3.LFSR_INIT)):
                    sig = "layer-keystream-out-of-step-after-skp" if pending else "layer-keystream-out-of-step"
                else:
                    sig = "layer-word-corrupted"
                return fail(f"USB3PhysicalLayer enable_scrambling={en}: word offered in cycle {t} {d:#010x}/{c:04b} "
                            f"(can_send_skp={cs}) expected on the wire {exp:#010x}/{c:04b} (key {key:#010x}, LFSR "
                            f"{state:#06x}) got {o.txd:#010x}/{o.txk:04b}; {skp_words} SKP words inserted so far, "
                            f"{'directly after a SKP word' if pending else 'no SKP word just before'}; a receiver "
                            f"descrambles it to {u3.scramble_word(o.txd, o.txk, key):#010x}", signature=sig)
            com_first = (d & 0xFF) == u3.COM and (c & 1)
            if pending and not com_first and c != 0xF:
                data_after_skp += 1
            pending = False
            if com_first:
                state = u3.LFSR_INIT
                restarts += 1
            else:
                state = u3.lfsr_word(state)[1]
        labels = {"enabled" if en else "disabled", f"skp-words={min(skp_words, 5)}",
                  f"data-after-skp={min(data_after_skp, 3)}", "len>=1000" if len(words) >= 1000 else "len<1000"}
        if restarts:
            labels.add("com-restart")
        nt = bool(en) and skp_words >= 2 and data_after_skp >= 2
        return Result(ok=True, nontrivial=nt, labels=tuple(sorted(labels)))


SUBS = [LfsrSub(), ScramblerSub(), RoundTripSub(), LayerTxSub()]
