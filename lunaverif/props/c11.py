"""C11 — bulk/interrupt IN stream endpoints deliver the input stream exactly once, in order."""

from hypothesis import strategies as st

from lunaverif.core import Sub, Result, fail
from lunaverif.simkit import CycleHarness
from lunaverif.gen import long_lists, weighted
from lunaverif.bfm.g8_ephost import EpHost, Segments, interface_ports
from lunaverif.bfm import g8_gen as G

PROPERTY = "C11"
ASSUMPTIONS = [
    "the endpoint is driven at its EndpointInterface with the strobe order/timing device.py produces",
    "the host never sends a token while the device transmits, ACKs only after a data packet, and keeps a DATA0/DATA1 "
    "toggle: a packet whose ACK was lost is discarded by the host when it is repeated",
    "handshakes the host addresses to other devices on the bus are not generated",
    "the stream producer obeys valid/ready (payload/last stable while valid and not ready); `discard` is held low",
    "a short packet that does not end at a `last` marker is legal only if `flush` was high at some cycle between the "
    "acceptance of its first byte and the start of its transmission",
]

# (max_packet_size, endpoint number)
CONFIGS = [(8, 1), (16, 3), (64, 2), (512, 7)]


def _xfer_len(mps):
    return st.one_of(st.sampled_from([1, mps - 1, mps, mps, mps + 1, 2 * mps, 2 * mps]), st.integers(1, 2 * mps + 3))


class StreamInSub(Sub):
    name = "stream-in"
    budget = {"quick": 4000, "thorough": 60000}
    shrink_budget = 300
    rule = ("USBStreamInEndpoint (mps 8/16/64/512) at its EndpointInterface: input stream of transfers (lengths around "
            "multiples of mps, `last` on the final byte of each, valid gaps, flush pulses/levels) against a host script "
            "of IN polls with ACK / ACK lost (host keeps the data, device repeats) / packet lost (host retries), "
            "background traffic, PHY stalls, response delay 1/2/10; then the host drains with ACKed polls. Oracle: each "
            "poll gets exactly one of NAK or a packet <= mps; a packet not ACKed is repeated with identical PID and "
            "payload; NAK only when nothing un-ACKed is pending; the host's toggle-based reassembly equals the input "
            "stream (complete after the drain); every `last` ends a short packet or a full packet followed by a ZLP; "
            "short packets elsewhere need flush; ZLPs nowhere else. Non-trivial = >= 1 lost ACK AND (a `last` on a "
            "packet boundary (ZLP) or a flush-made short packet).")

    def setup(self):
        self.h = {}

    def harness(self, cfg):
        if cfg not in self.h:
            from luna.gateware.usb.usb2.endpoints.stream import USBStreamInEndpoint
            mps, ep = CONFIGS[cfg]
            dut = USBStreamInEndpoint(endpoint_number=ep, max_packet_size=mps)
            ins, outs = interface_ports(dut.interface)
            ins.update(s_valid=dut.stream.valid, s_data=dut.stream.payload, s_first=dut.stream.first,
                       s_last=dut.stream.last, flush=dut.flush, discard=dut.discard)
            outs.update(s_ready=dut.stream.ready)
            self.h[cfg] = CycleHarness(dut, ins, outs, domain="usb")
        return self.h[cfg]

    def strategy(self):
        def case(cfg):
            mps, ep = CONFIGS[cfg]
            big = mps >= 512
            poll = st.fixed_dictionaries(dict(
                k=st.just("in"), ep=st.just(ep), mine=st.just(True),
                hs=weighted([("ack", 3), ("lost", 2), ("none", 2)]),
                gap=G.gap, ack_delay=st.integers(1, 6), timeout=st.integers(1, 8)))
            ev = st.one_of(poll, poll, poll, poll, G.background(ep, "in"))
            flush = st.one_of(
                st.just([[0, 1]]), st.just([[0, 1]]),
                G.segments(weighted([(0, 4), (1, 1)]), max_dwell=60, max_seg=8),
                st.just([[1, 1]]))
            return st.fixed_dictionaries(dict(
                cfg=st.just(cfg), d=G.delay, phy=st.just([1]) if big else G.phy, pid_wait=G.pid_wait,
                xfers=st.lists(_xfer_len(mps), min_size=1, max_size=2 if big else 4),
                salt=G.byte, step=st.sampled_from([1, 3, 7, 251]),
                svalid=st.one_of(st.just([[1, 1]]), G.segments(weighted([(1, 3), (0, 1)]), max_dwell=20),
                                 G.segments(weighted([(0, 3), (1, 1)]), max_dwell=6),
                                 st.lists(weighted([(0, 3), (1, 1)]).map(lambda v: [v, 1]), min_size=2, max_size=9)),
                flush=flush,
                ev=long_lists(ev, min_size=0, max_size=36, average=14)))
        return weighted([(0, 8), (1, 4), (2, 3), (3, 1)]).flatmap(case)

    # ---- host-side reassembly (DATA0/DATA1 toggle) over the transaction log ---------------------------------
    @staticmethod
    def reassemble(host, ep):
        """-> list of packets the host keeps (each a dict from TxModel), in order."""
        log, pk = host.log, host.tx.packets
        ht = 0
        kept = []
        for j, rec in enumerate(log):
            if rec["k"] != "in" or rec["ep"] != ep or rec.get("resp") != "data":
                continue
            p = pk[rec["np0"]]
            if rec["hs"] in ("ack", "lost"):          # the host received the packet
                if p["pid"] == ht:
                    kept.append(p)
                    ht ^= 1
        return kept

    def run(self, case):
        cfg = case["cfg"]
        mps, ep = CONFIGS[cfg]
        items = []                       # (byte, first, last)
        i = 0
        for n in case["xfers"]:
            for k in range(n):
                items.append(((case["salt"] + i * case["step"]) & 0xFF, int(k == 0), int(k == n - 1)))
                i += 1
        total = len(items)
        vpat = Segments(case["svalid"])
        fpat = Segments(case["flush"])
        st_ = dict(idx=0, offering=False, drain=False)
        acc_cycle = []                   # cycle in which input byte i was accepted by the endpoint
        flush_cycles = []                # per cycle flush level

        def side(t, prev, host):
            if st_["offering"] and prev is not None and prev.s_ready:
                acc_cycle.append(t - 1)
                st_["idx"] += 1
                st_["offering"] = False
            if not st_["offering"] and st_["idx"] < total and (st_["drain"] or vpat.at(t)):
                st_["offering"] = True
            fl = 0 if st_["drain"] else fpat.at(t)
            flush_cycles.append(fl)
            if st_["offering"]:
                b, f, l = items[st_["idx"]]
                return dict(s_valid=1, s_data=b, s_first=f, s_last=l, flush=fl, discard=0)
            return dict(s_valid=0, s_data=(t * 29 + 3) & 0xFF, s_first=0, s_last=(t >> 1) & 1, flush=fl, discard=0)

        def complete(kept):
            return sum(len(p["data"]) for p in kept) == total and kept and len(kept[-1]["data"]) < mps

        drained = dict(n=0)
        DRAIN_LIMIT = 3 * (-(-total // mps)) + 12

        def more(host):
            st_["drain"] = True
            if complete(self.reassemble(host, ep)) or drained["n"] >= DRAIN_LIMIT:
                return None
            drained["n"] += 1
            # leave the (now always-valid) producer time to fill a packet buffer before each poll
            fill = min(total - st_["idx"], mps)
            return dict(k="in", ep=ep, mine=True, hs="ack", gap=2 + fill + (drained["n"] % 3) * 7, ack_delay=2)

        host = EpHost(case["ev"], d=case["d"], phy=case["phy"], pid_wait=case["pid_wait"], side=side, more=more)
        self.harness(cfg).run_driver(host, 1000000)
        if host.done_at is None:
            raise RuntimeError("host script did not finish")

        # ---- transaction-level checks -----------------------------------------------------------------------
        log, pk, hs_out = host.log, host.tx.packets, host.hs_out
        labels = set()
        pending = None            # packet sent and not ACKed (device view)
        lost_acks = 0
        for j, rec in enumerate(log):
            np1 = log[j + 1]["np0"] if j + 1 < len(log) else len(pk)
            nh1 = log[j + 1]["nh0"] if j + 1 < len(log) else len(hs_out)
            mine, hs = pk[rec["np0"]:np1], hs_out[rec["nh0"]:nh1]
            is_poll = rec["k"] == "in" and rec["ep"] == ep
            if not is_poll:
                if mine:
                    return fail(f"packet started in cycle {mine[0]['start']} during a {rec['k']} event (ep {rec['ep']})",
                                signature="unsolicited-packet")
                if hs:
                    return fail(f"handshake request {hs[0]} during a {rec['k']} event (ep {rec['ep']})",
                                signature="unsolicited-handshake")
                continue
            if any(k != "nak" for _, k in hs):
                return fail(f"IN endpoint requested {hs} (poll at {rec['T']})", signature="unexpected-handshake")
            if len(mine) + len(hs) != 1:
                sig = "no-response" if not mine and not hs else ("nak-and-data" if mine and hs else "multiple-responses")
                return fail(f"poll (token end {rec['T']}, d={case['d']}) answered by {len(mine)} packets and handshakes {hs}",
                            signature=sig)
            if hs:
                if hs[0][0] != rec["t_rdy"]:
                    return fail(f"NAK requested in cycle {hs[0][0]}, response window is cycle {rec['t_rdy']}",
                                signature="nak-outside-response-slot")
                if pending is not None:
                    return fail(f"poll at {rec['T']} NAKed although an un-ACKed packet {pending['data'][:8]}.. is pending",
                                signature="nak-with-packet-pending")
                labels.add("nak")
                continue
            p = mine[0]
            if p["aborted"] or p.get("late_first") or len(p["data"]) > mps:
                return fail(f"malformed packet (mps {mps}): {p}", signature="malformed-packet")
            if pending is not None:
                labels.add("retry")
                if (p["pid"], p["data"]) != (pending["pid"], pending["data"]):
                    return fail(f"retry at {rec['T']} sent DATA{p['pid']} {p['data'][:12]} but the un-ACKed packet was "
                                f"DATA{pending['pid']} {pending['data'][:12]}", signature="retry-differs")
            if "t_ack" in rec:
                pending = None
            else:
                pending = p
                if rec["hs"] == "lost":
                    lost_acks += 1

        # ---- exactly-once reassembly -----------------------------------------------------------------------------
        kept = self.reassemble(host, ep)
        got = [b for p in kept for b in p["data"]]
        n_acc = len(acc_cycle)
        want = [it[0] for it in items]
        if got != want[:len(got)]:
            k = next(i for i, (a, b) in enumerate(zip(got, want + [None] * len(got))) if a != b)
            return fail(f"host reassembly differs from the input stream at byte {k}: got {got[max(0, k - 4):k + 4]} want "
                        f"{want[max(0, k - 4):k + 4]} (mps {mps}, d={case['d']})", signature="stream-mismatch")
        if len(got) > n_acc:
            return fail("host received bytes the endpoint never accepted", signature="stream-mismatch")
        if not complete(kept):
            return fail(f"after {drained['n']} ACKed drain polls the host holds {len(got)} of {total} input bytes "
                        f"(endpoint accepted {n_acc}); last kept packet {len(kept[-1]['data']) if kept else None} bytes",
                        signature="stream-not-delivered")

        # ---- transfer boundaries -------------------------------------------------------------------------------------
        pos = 0
        zlp_boundary = flush_short = False
        lasts = {i for i, it in enumerate(items) if it[2]}
        for n, p in enumerate(kept):
            L = len(p["data"])
            end = pos + L - 1                       # index of the packet's final byte
            if L == 0:
                prev_full = n > 0 and len(kept[n - 1]["data"]) == mps
                if not (prev_full and (pos - 1) in lasts):
                    return fail(f"zero-length packet after byte {pos - 1} which is not a `last` ending a full packet",
                                signature="spurious-zlp")
                zlp_boundary = True
                continue
            inner = [i for i in range(pos, end) if i in lasts]
            if inner:
                return fail(f"`last` at input byte {inner[0]} is inside packet #{n} (bytes {pos}..{end}): boundary lost",
                            signature="boundary-lost")
            if end in lasts:
                if L == mps and not (n + 1 < len(kept) and len(kept[n + 1]["data"]) == 0):
                    return fail(f"transfer ending at byte {end} fills a packet exactly but no ZLP follows",
                                signature="missing-zlp")
            elif L < mps:
                if not any(flush_cycles[acc_cycle[pos]:p["start"] + 1]):
                    return fail(f"short packet #{n} (bytes {pos}..{end}, mps {mps}) does not end a transfer and flush was "
                                f"low from cycle {acc_cycle[pos]} to {p['start']}", signature="spurious-short-packet")
                flush_short = True
            pos += L
        if zlp_boundary:
            labels.add("zlp-at-boundary")
        if flush_short:
            labels.add("flush-short-packet")
        if lost_acks:
            labels.add("lost-ack")
        labels.add(f"d={case['d']}")
        labels.add(f"mps={mps}")
        return Result(ok=True, nontrivial=bool(lost_acks and (zlp_boundary or flush_short)), labels=tuple(sorted(labels)))


SUBS = [StreamInSub()]
