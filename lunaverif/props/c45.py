"""C45 — Transaction packet requests produce the requested transaction packet (TransactionPacketGenerator)."""

from hypothesis import strategies as st

from lunaverif.core import Sub, Result, fail
from lunaverif.gen import long_lists, weighted, bits
from lunaverif.simkit import CycleHarness
from lunaverif.ref import g5_hp as hp

PROPERTY = "C45"
ASSUMPTIONS = [
    "at most one of send_ack/send_stall/send_nrdy/send_erdy is asserted in a cycle (no caller asserts two)",
    "a request is a send_* strobe asserted in a cycle in which interface.ready is high; a strobe may be held into "
    "the not-ready period (SuperSpeedStreamInEndpoint holds send_erdy until done) where it must be ignored",
    "endpoint numbers are 0..15 (the TP field is 4 bits wide; the interface signal is 7 bits)",
    "header_source.ready is an arbitrary 0/1 pattern with bounded gaps (the header-queue arbiter)",
    "retry flag and sequence number are compared only in ACK TPs (the other subtypes have no such fields)",
    "openloop sub: callers pulse send_* without looking at ready (request handlers, control / stream endpoints via the "
    "endpoint multiplexer), so a strobe can fall in any cycle relative to the previous packet's acceptance by the "
    "header queue; whether it is a request is decided solely by the DUT's ready output in that cycle (a strobe in a "
    "not-ready cycle is not a request and must produce nothing, as for held strobes above); a strobe held over two "
    "ready cycles is two requests",
]

KINDS = ["ack", "stall", "nrdy", "erdy"]
SUBTYPE = dict(ack=hp.ST_ACK, stall=hp.ST_STALL, nrdy=hp.ST_NRDY, erdy=hp.ST_ERDY)


def _fields():
    return st.fixed_dictionaries(dict(addr=bits(7), ep=bits(4), rty=bits(1), seq=bits(5)))


def _request():
    return st.fixed_dictionaries(dict(
        kind=weighted([("erdy", 2), ("ack", 2), ("stall", 1), ("nrdy", 2)]),
        f=_fields(),
        gap=weighted([(0, 4), (1, 2), (2, 1), (5, 1)]),                 # ready cycles idled before the strobe
        hold=weighted([("pulse", 3), ("until-done", 2)]),               # how long the strobe is held
        qdelay=weighted([(0, 3), (1, 2), (2, 1), (3, 1), (7, 1)]),      # cycles header_source.ready stays low
        idleq=bits(1),                                                  # header_source.ready while nothing is offered
        after=st.lists(_fields(), max_size=3),                          # field values after the strobe cycle
        pre=st.one_of(st.none(), _fields()),                            # field values in the idle cycles before
    ))


class _Driver:
    """Endpoint-side requester + header-queue consumer.  Sequencing is closed loop (the next request waits for
    `done`/`ready` seen in the previous cycle); inside a request the timeline is planned from the strobe cycle."""

    def __init__(self, reqs):
        self.reqs = reqs
        self.i = 0
        self.phase = "gap"
        self.n = 0
        self.k = 0
        self.issued = []         # (cycle, req index)
        self.qlog = []           # header_source.ready per cycle
        self.tail = 6
        self.cur = dict(addr=0, ep=0, rty=0, seq=0)
        self.strobed_prev = False

    def _vec(self, kind, qready):
        f = self.cur
        self.qlog.append(qready)
        self.strobed_prev = kind is not None
        return dict(ack=int(kind == "ack"), stall=int(kind == "stall"), nrdy=int(kind == "nrdy"),
                    erdy=int(kind == "erdy"), addr=f["addr"], ep=f["ep"], rty=f["rty"], seq=f["seq"], qready=qready)

    def step(self, t, prev):
        just_done = False
        if self.phase == "busy":
            if prev.done:
                self.i += 1
                self.phase = "gap"
                self.n = 0
                just_done = True
            elif self.k > 40:                     # never completed: stop (oracle reports the missing packet)
                self.i = len(self.reqs)
                self.phase = "gap"
        if self.i >= len(self.reqs):
            self.tail -= 1
            if self.tail < 0:
                return None
            return self._vec(None, 1)
        r = self.reqs[self.i]
        if self.phase == "gap":
            known_ready = just_done or (prev is not None and prev.ready and not self.strobed_prev)
            if known_ready and self.n >= r["gap"]:
                self.cur = dict(r["f"])
                self.phase = "busy"
                self.k = 1
                self.issued.append((t, self.i))
                return self._vec(r["kind"], r["idleq"])
            if known_ready:
                self.n += 1
            if r["pre"] is not None:
                self.cur = dict(r["pre"])
            return self._vec(None, r["idleq"])
        # busy: cycle strobe+k
        k = self.k
        self.k += 1
        if k - 1 < len(r["after"]):
            self.cur = dict(r["after"][k - 1])
        held = r["hold"] == "until-done" and k <= 1 + r["qdelay"]
        return self._vec(r["kind"] if held else None, int(k - 1 >= r["qdelay"]))


class TpGenSub(Sub):
    name = "tpgen"
    budget = {"quick": 10000, "thorough": 150000}
    rule = ("closed-loop request histories: each request is one of ACK/STALL/NRDY/ERDY strobed in a ready cycle "
            "(pulse, or held until done as the stream endpoint does), with address/endpoint/retry/sequence values "
            "that differ before and after the strobe cycle, and a header-queue ready delay of 0..7 cycles; oracle: "
            "the sequence of headers taken at header_source (valid & ready) equals the request sequence one-for-one "
            "(type TP, subtype, device address, endpoint; retry and sequence for ACK) and nothing else is ever "
            "offered; non-trivial = >= 3 distinct request kinds incl. ERDY, some request whose fields change "
            "after the strobe, and some queue delay > 0")

    def setup(self):
        from luna.gateware.usb.usb3.protocol.transaction import TransactionPacketGenerator
        dut = TransactionPacketGenerator()
        i, hs = dut.interface, dut.header_source
        self.h = CycleHarness(
            dut,
            ins=dict(ack=i.send_ack, stall=i.send_stall, nrdy=i.send_nrdy, erdy=i.send_erdy, addr=dut.address,
                     ep=i.endpoint_number, rty=i.retry_required, seq=i.next_sequence, qready=hs.ready),
            outs=dict(ready=i.ready, done=i.done, valid=hs.valid, dw0=hs.header.dw0, dw1=hs.header.dw1,
                      dw2=hs.header.dw2),
            domain="ss")

    def strategy(self):
        return st.fixed_dictionaries(dict(reqs=long_lists(_request(), min_size=1, max_size=16, average=6)))

    def enumerate(self, tier):
        f = dict(addr=0x2A, ep=5, rty=1, seq=19)
        g = dict(addr=0x55, ep=10, rty=0, seq=12)
        return [dict(reqs=[dict(kind=k, f=f, gap=0, hold=h, qdelay=q, idleq=0, after=[g], pre=g)])
                for k in KINDS for h in ("pulse", "until-done") for q in (0, 2)]

    def run(self, case):
        reqs = case["reqs"]
        drv = _Driver(reqs)
        trace = self.h.run_driver(drv, 60 * len(reqs) + 40)

        # what was requested: strobes made in a cycle in which the DUT reported ready
        requested = []
        for t, idx in drv.issued:
            if t >= len(trace):
                break
            if not trace[t].ready:
                # not a request "made while the generator is ready": the statement says nothing about it
                return Result(ok=True, nontrivial=False, labels=("strobe-hit-not-ready",))
            requested.append((t, idx))

        # what was sent: headers taken (valid & queue ready), and stability while offered
        sent = []
        offered = None
        for t, o in enumerate(trace):
            q = drv_qready(drv, t)
            if o.valid:
                hdr = (o.dw0, o.dw1, o.dw2)
                if offered is not None and offered != hdr:
                    return fail(f"cycle {t}: header changed while offered and not yet taken "
                                f"({_fmt(offered)} -> {_fmt(hdr)})", signature="header-unstable")
                offered = hdr
                if q:
                    sent.append((t, hdr))
                    offered = None
            else:
                offered = None

        for n, (t, idx) in enumerate(requested):
            r = reqs[idx]
            f = r["f"]
            if n >= len(sent):
                return fail(f"request {n} ({r['kind'].upper()} in cycle {t}) produced no transaction packet "
                            f"({len(sent)} sent for {len(requested)} requests)", signature="missing-packet")
            ts, hdr = sent[n]
            nxt = requested[n + 1][0] if n + 1 < len(requested) else None
            if ts <= t or (nxt is not None and ts >= nxt):
                return fail(f"request {n} in cycle {t}: packet {n} was taken in cycle {ts} (next request at {nxt})",
                            signature="packet-request-misaligned")
            p = hp.parse_tp(*hdr)
            if p["type"] != hp.TYPE_TP:
                return fail(f"request {n}: header type {p['type']:#x} is not a transaction packet",
                            signature="wrong-header-type")
            if p["subtype"] != SUBTYPE[r["kind"]]:
                return fail(f"request {n}: {r['kind'].upper()} requested in cycle {t} but a {p['subtype_name']} TP "
                            f"was sent in cycle {ts} ({_fmt(hdr)})",
                            signature=f"{r['kind']}-request-sends-{p['subtype_name'].lower()}")
            bad = []
            if p["address"] != f["addr"]:
                bad.append(("address", f["addr"], p["address"]))
            if p["endpoint"] != f["ep"]:
                bad.append(("endpoint", f["ep"], p["endpoint"]))
            if r["kind"] == "ack":
                if p["retry"] != f["rty"]:
                    bad.append(("retry", f["rty"], p["retry"]))
                if p["seq"] != f["seq"]:
                    bad.append(("sequence", f["seq"], p["seq"]))
            if bad:
                return fail(f"request {n} ({r['kind'].upper()} in cycle {t}): " +
                            ", ".join(f"{a} requested {b} sent {c}" for a, b, c in bad) + f" ({_fmt(hdr)})",
                            signature="wrong-" + "+".join(a for a, _, _ in bad))
        if len(sent) > len(requested):
            ts, hdr = sent[len(requested)]
            return fail(f"{len(sent)} packets sent for {len(requested)} requests; extra {_fmt(hdr)} in cycle {ts}",
                        signature="extra-packet")

        kinds = {reqs[i]["kind"] for _, i in requested}
        changed = any(reqs[i]["after"] and any(a != reqs[i]["f"] for a in reqs[i]["after"]) for _, i in requested)
        delayed = any(reqs[i]["qdelay"] > 0 for _, i in requested)
        labels = {"kind-" + k for k in kinds}
        if changed:
            labels.add("fields-change-after-strobe")
        if delayed:
            labels.add("queue-delay")
        if any(reqs[i]["hold"] == "until-done" for _, i in requested):
            labels.add("strobe-held-until-done")
        if any(reqs[i]["gap"] == 0 for n, (_, i) in enumerate(requested) if n > 0):
            labels.add("back-to-back-requests")
        nt = len(kinds) >= 3 and "erdy" in kinds and changed and delayed
        return Result(ok=True, nontrivial=nt, labels=tuple(sorted(labels)))


def _judge_packet(n, t, kind, f, ts, hdr):
    p = hp.parse_tp(*hdr)
    if p["type"] != hp.TYPE_TP:
        return fail(f"request {n}: header type {p['type']:#x} is not a transaction packet",
                    signature="wrong-header-type")
    if p["subtype"] != SUBTYPE[kind]:
        return fail(f"request {n}: {kind.upper()} requested in cycle {t} but a {p['subtype_name']} TP "
                    f"was sent in cycle {ts} ({_fmt(hdr)})",
                    signature=f"{kind}-request-sends-{p['subtype_name'].lower()}")
    bad = []
    if p["address"] != f["addr"]:
        bad.append(("address", f["addr"], p["address"]))
    if p["endpoint"] != f["ep"]:
        bad.append(("endpoint", f["ep"], p["endpoint"]))
    if kind == "ack":
        if p["retry"] != f["rty"]:
            bad.append(("retry", f["rty"], p["retry"]))
        if p["seq"] != f["seq"]:
            bad.append(("sequence", f["seq"], p["seq"]))
    if bad:
        return fail(f"request {n} ({kind.upper()} in cycle {t}): " +
                    ", ".join(f"{a} requested {b} sent {c}" for a, b, c in bad) + f" ({_fmt(hdr)})",
                    signature="wrong-" + "+".join(a for a, _, _ in bad))
    return None


class OpenLoopSub(TpGenSub):
    """Strobes at planned cycles, no feedback from ready/done: reaches every offset between a strobe and the
    acceptance of the previous packet (the closed-loop driver above can only strobe from acceptance+1 on)."""
    name = "openloop"
    budget = {"quick": 6000, "thorough": 90000}
    rule = ("open-loop schedules: send_* strobes of 1 cycle (1 in 6: held 2..3 cycles) 0..7 cycles apart, "
            "regardless of ready/done, so that they fall before, in and after the cycle in which the header queue "
            "takes the previous packet (queue-ready pattern with 0..7-cycle gaps); fields differ in every cycle; a "
            "request = a cycle with a strobe in which the DUT's ready output is high; oracle: headers taken at "
            "header_source equal those requests one-for-one in order, each after its request, with the fields of "
            "the request cycle; strobes in not-ready cycles produce nothing; non-trivial = some strobe in a "
            "not-ready cycle, a strobe in the very cycle the queue takes a packet, >= 3 requests of >= 2 kinds")

    def strategy(self):
        item = st.fixed_dictionaries(dict(
            gap=weighted([(0, 3), (1, 4), (2, 4), (3, 3), (4, 2), (5, 1), (7, 1)]),   # idle cycles before the strobe
            kind=weighted([("erdy", 2), ("ack", 2), ("stall", 1), ("nrdy", 2)]),
            f=_fields(), hold=weighted([(1, 5), (2, 1), (3, 1)])))
        qpat = st.lists(st.tuples(weighted([(0, 3), (1, 3), (2, 2), (3, 1), (4, 1), (7, 1)]),
                                  weighted([(1, 4), (2, 1), (5, 1)])).map(list), min_size=1, max_size=6)
        return st.fixed_dictionaries(dict(items=long_lists(item, min_size=2, max_size=16, average=7), qpat=qpat,
                                          salt=bits(16)))

    def enumerate(self, tier):
        # strobe B at every offset 1..r+3 after strobe A whose packet the queue takes r+1 cycles after A
        f = dict(addr=0x2A, ep=5, rty=1, seq=19)
        g = dict(addr=0x55, ep=10, rty=0, seq=12)
        out = []
        for r in (0, 1, 3):
            for d in range(1, r + 4):
                for ka, kb in (("ack", "nrdy"), ("erdy", "ack"), ("nrdy", "stall"), ("stall", "erdy")):
                    out.append(dict(items=[dict(gap=2, kind=ka, f=f, hold=1), dict(gap=d - 1, kind=kb, f=g, hold=1)],
                                    qpat=[[2 + 1 + r, 40]], salt=r * 16 + d))
        return out

    def run(self, case):
        items = case["items"]
        qbits = []
        for zeros, ones in case["qpat"]:
            qbits += [0] * zeros + [1] * ones
        script, strobes = [], []           # strobes: (cycle, kind, fields)
        x = case["salt"] | 1

        def filler():
            nonlocal x
            x = (x * 1103515245 + 12345) & 0x7FFFFFFF          # field values in the cycles without a strobe
            return dict(addr=(x >> 8) & 0x7F, ep=(x >> 15) & 0xF, rty=(x >> 19) & 1, seq=(x >> 20) & 0x1F)

        def emit(kind, f):
            t = len(script)
            script.append(dict(ack=int(kind == "ack"), stall=int(kind == "stall"), nrdy=int(kind == "nrdy"),
                               erdy=int(kind == "erdy"), qready=qbits[t % len(qbits)], **f))
            if kind is not None:
                strobes.append((t, kind, f))

        for it in items:
            for _ in range(it["gap"]):
                emit(None, filler())
            for _ in range(it["hold"]):
                emit(it["kind"], it["f"])
        for _ in range(12):
            emit(None, filler())
        script.append(dict(qready=1))
        trace = self.h.run_script(script, tail=6)
        qlog = [v["qready"] for v in script] + [1] * 6

        requested = [(t, k, f) for t, k, f in strobes if trace[t].ready]
        sent, offered = [], None
        for t, o in enumerate(trace):
            if o.valid:
                hdr = (o.dw0, o.dw1, o.dw2)
                if offered is not None and offered != hdr:
                    return fail(f"cycle {t}: header changed while offered and not yet taken "
                                f"({_fmt(offered)} -> {_fmt(hdr)})", signature="header-unstable")
                offered = hdr
                if qlog[t]:
                    sent.append((t, hdr))
                    offered = None
            else:
                offered = None
        taken = {t for t, _ in sent}
        for n, (t, kind, f) in enumerate(requested):
            if n >= len(sent):
                at = " -- strobed in the cycle the header queue took the previous packet" if t in taken else ""
                return fail(f"request {n} ({kind.upper()} strobed in cycle {t}, ready was high) produced no transaction "
                            f"packet ({len(sent)} sent for {len(requested)} requests){at}",
                            signature="request-in-acceptance-cycle-lost" if t in taken else "missing-packet")
            ts, hdr = sent[n]
            if ts <= t:
                lost = [u for u, _, _ in requested[:n + 1] if u in taken]
                return fail(f"packet {n} was taken in cycle {ts}, not after request {n} (cycle {t}): an earlier request "
                            f"produced no packet of its own" + (f" (request strobed in acceptance cycle {lost[0]})"
                                                                if lost else ""),
                            signature="request-in-acceptance-cycle-lost" if lost else "packet-request-misaligned")
            res = _judge_packet(n, t, kind, f, ts, hdr)
            if res is not None:
                if any(u in taken for u, _, _ in requested[:n + 1]):
                    res.signature = "request-in-acceptance-cycle-lost"
                return res
        if len(sent) > len(requested):
            ts, hdr = sent[len(requested)]
            return fail(f"{len(sent)} packets sent for {len(requested)} requests made while ready; extra {_fmt(hdr)} "
                        f"taken in cycle {ts}", signature="extra-packet")
        labels = {"kind-" + k for _, k, _ in requested}
        not_ready = [t for t, _, _ in strobes if not trace[t].ready]
        if not_ready:
            labels.add("strobe-while-not-ready")
        in_accept = [t for t, _, _ in strobes if t in taken]
        if in_accept:
            labels.add("strobe-in-acceptance-cycle")
        if any(t - 1 in taken for t, _, _ in strobes):
            labels.add("strobe-in-cycle-after-acceptance")
        if any(t + 1 in taken for t, _, _ in strobes):
            labels.add("strobe-in-cycle-before-acceptance")
        if any(it["hold"] > 1 for it in items):
            labels.add("strobe-held")
        nt = bool(not_ready) and bool(in_accept) and len(requested) >= 3 and len({k for _, k, _ in requested}) >= 2
        return Result(ok=True, nontrivial=nt, labels=tuple(sorted(labels)))


def drv_qready(drv, t):
    return drv.qlog[t] if t < len(drv.qlog) else 0


def _fmt(hdr):
    return "dw0=%08x dw1=%08x dw2=%08x" % hdr


SUBS = [TpGenSub(), OpenLoopSub()]
