"""C02 — USB2 data packets are accepted iff their CRC16 is valid, payload intact."""
from amaranth import Elaboratable, Module
from hypothesis import strategies as st

from lunaverif.core import Sub, Result, fail
from lunaverif.simkit import CycleHarness
from lunaverif.gen import long_lists, weighted
from lunaverif.bfm import utmi_rx, g1_rx as rx
from lunaverif.ref import usb2

PROPERTY = "C02"
ASSUMPTIONS = [
    "UTMI receive soundness (DESIGN.md §3): rx_valid implies rx_active; rx_active rises >= 1 cycle before the first byte; "
    "no byte in the cycle rx_active rises",
    "rx_active stays low >= 12 cycles between packets (FS minimum inter-packet gap of 2 bit times = 10 cycles at 60 MHz "
    "plus PHY SYNC detection; the receiver is documented to hold off for one inter-packet delay after a good packet)",
    "non-data packets (token/handshake/garbage PIDs): only 'no completion, no ready-for-response' is asserted",
    "data packets with fewer than two bytes after the PID: only 'no completion' is asserted (statement is silent on the "
    "mismatch strobe there)",
    "'ready for response follows only a completed packet' is read as: exactly one ready_for_response strobe after each "
    "completed packet and strictly after its packet_complete strobe, none anywhere else",
]

# (name, wiring): "standalone" = USBDataPacketReceiver(standalone=True) (own CRC, FS timer @60 MHz);
# "device" = the receiver wired to a shared USBDataPacketCRC and USBInterpacketTimer exactly as usb2/device.py does
# for a bare-UTMI (12 MHz table, FS-only) device.
CONFIGS = ["standalone", "device"]


class _DeviceWiring(Elaboratable):
    """receiver + CRC + timer connected as in luna/gateware/usb/usb2/device.py:262-287."""

    def __init__(self):
        from luna.gateware.interface.utmi import UTMIInterface
        from luna.gateware.usb.usb2.packet import USBDataPacketReceiver, USBDataPacketCRC, USBInterpacketTimer
        from luna.gateware.usb.usb2 import USBSpeed
        self.utmi = UTMIInterface()
        self.receiver = USBDataPacketReceiver(utmi=self.utmi)
        self.crc = USBDataPacketCRC()
        self.timer = USBInterpacketTimer(domain_clock=12e6, fs_only=True)
        self._speed = USBSpeed.FULL

    def elaborate(self, platform):
        m = Module()
        m.submodules.receiver = self.receiver
        m.submodules.crc = self.crc
        m.submodules.timer = self.timer
        self.crc.add_interface(self.receiver.data_crc)
        self.timer.add_interface(self.receiver.timer)
        m.d.comb += [
            self.crc.rx_data.eq(self.utmi.rx_data),
            self.crc.rx_valid.eq(self.utmi.rx_valid),
            self.crc.tx_valid.eq(0),
            self.timer.speed.eq(self._speed),
        ]
        return m


def _harness(cfg):
    from luna.gateware.interface.utmi import UTMIInterface
    from luna.gateware.usb.usb2.packet import USBDataPacketReceiver
    if cfg == "standalone":
        utmi = UTMIInterface()
        dut = rcv = USBDataPacketReceiver(utmi=utmi, standalone=True)
    else:
        dut = _DeviceWiring()
        utmi, rcv = dut.utmi, dut.receiver
    return CycleHarness(
        dut,
        dict(rx_active=utmi.rx_active, rx_valid=utmi.rx_valid, rx_data=utmi.rx_data),
        dict(sv=rcv.stream.valid, nx=rcv.stream.next, pl=rcv.stream.payload, done=rcv.packet_complete,
             bad=rcv.crc_mismatch, rfr=rcv.ready_for_response, pid=rcv.packet_id),
        domain="usb")


MIN_IDLE = 12


_DATA_PID_BYTES = [usb2.pid_byte(p) for p in (usb2.PID_DATA0, usb2.PID_DATA1, usb2.PID_DATA2, usb2.PID_MDATA)]
_NON_DATA_PIDS = [0x1, 0x9, 0x5, 0xD, 0x2, 0xA, 0xE, 0x6, 0x4, 0xC, 0x8, 0x0]


def _embedded(small):
    """A packet whose FIRST byte is not a valid data PID (token/handshake/special PID, data PID with a broken check
    nibble, or any other byte) and which contains, `k` bytes in, a complete '<data PID byte> <body> <CRC16(body)>'
    (or the same with a corrupted CRC).  On the wire this is a long token-like packet (HS SPLIT/EXT, foreign
    protocol) or a data packet whose PID byte was hit by a bit error after something else was prepended; the
    receiver must treat all of it as one non-data packet.  k = 1..6 and the event's byte gaps (0 = back to back)
    decide which of the inner bytes a receiver that re-arms inside a packet would look at."""
    first = st.one_of(
        st.sampled_from(_NON_DATA_PIDS).map(usb2.pid_byte),
        rx.bad_check_nibble(st.sampled_from(_DATA_PID_BYTES)),
        rx.BYTE.map(lambda b: b ^ 0x10 if b in _DATA_PID_BYTES else b),
    )
    filler = st.lists(st.one_of(rx.BYTE, st.sampled_from([0x00, 0xFF] + _DATA_PID_BYTES)), min_size=0, max_size=5)
    inner = st.one_of(rx.data_good(payload=small), rx.data_good(payload=small), rx.data_bad_crc(payload=small))
    k = weighted([(2, 4), (1, 2), (4, 2), (3, 1), (6, 1), (5, 1)])
    return st.builds(lambda f, fill, k, p: [f] + (fill + [0] * 5)[:k - 1] + p, first, filler, k, inner)


def _event_strategy():
    small = rx.payloads(max_len=70, average=6)
    classes = st.one_of(
        rx.data_good(payload=small), rx.data_good(payload=small), rx.data_good(payload=small),
        rx.data_good(payload=st.sampled_from([[], [0x00], [0xFF], [0x5A]])),
        rx.data_bad_crc(payload=small), rx.data_bad_crc(payload=small),
        rx.data_bad_crc(payload=st.sampled_from([[], [0x00], [0xA5]])),
        rx.data_short(),
        # data PID with a wrong check nibble in front of an otherwise valid packet
        st.builds(lambda p, m: [p[0] ^ (m << 4)] + p[1:], rx.data_good(payload=small), st.integers(1, 15)),
        # non-data PIDs: tokens, handshakes, special, in front of arbitrary bytes (incl. what would be a good CRC)
        st.builds(lambda pid, p: [usb2.pid_byte(pid)] + p[1:],
                  st.sampled_from([0x1, 0x9, 0x5, 0xD, 0x2, 0xA, 0xE, 0x6, 0x4, 0xC, 0x8, 0x0]), rx.data_good(payload=small)),
        rx.handshake_good(),
        st.builds(rx.token_bytes, rx.TOKEN_PID, rx.ADDR, rx.ENDP),
        rx.garbage(10),
        st.just([]),
        _embedded(small), _embedded(small),
    )
    return rx.with_timing(classes, min_idle=MIN_IDLE, max_idle=30)


class Receiver(Sub):
    name = "receiver"
    budget = {"quick": 10000, "thorough": 150000}
    rule = ("histories of 1..20 packets on UTMI rx into USBDataPacketReceiver (standalone, and wired to shared CRC/timer "
            "as in device.py): good data packets (4 PIDs, payload 0..70), CRC16 corrupted (1-3 bit flips / swapped / "
            "complemented / one byte dropped), data PID + 0/1 byte, bad check nibble, non-data PIDs in front of a valid "
            "body, non-data/invalid first byte + 0..5 bytes + an embedded '<data PID> body CRC16' (good or corrupted), "
            "handshakes, tokens, garbage, aborted; byte gaps and lead/trail timing. Oracle re-parses the literal "
            "bytes: stream.next bytes during the packet == packet[1:-2]; packet_complete exactly once (with packet_id) iff "
            "data PID and reference CRC16 ok; crc_mismatch exactly once iff data PID, >=2 bytes after PID, CRC wrong; "
            "ready_for_response exactly once after each completion and nowhere else. non-trivial = >=1 good AND >=1 "
            "bad-CRC data packet AND >=1 data packet with payload length 0 or 1")

    def setup(self):
        self.h = {}

    def harness(self, cfg):
        if cfg not in self.h:
            self.h[cfg] = _harness(cfg)
        return self.h[cfg]

    def strategy(self):
        return st.fixed_dictionaries(dict(
            cfg=st.sampled_from(CONFIGS),
            evs=long_lists(_event_strategy(), min_size=1, max_size=20, average=9),
            noise=st.sampled_from([0, 0xFF, 0xC3]),
        ))

    def run(self, case):
        evs = case["evs"]
        script, spans = utmi_rx.render(evs, noise=case["noise"])
        trace = self.harness(case["cfg"]).run_script(script, tail=16)
        e = rx.ends(spans)
        labels = {case["cfg"]}
        n_good = n_bad = n_tiny = 0
        for t in range(0, spans[0][0]):
            o = trace[t]
            if o.nx or o.done or o.bad or o.rfr:
                return fail(f"output activity before the first packet (cycle {t}: {o})", signature="spurious-before-first")
        for i, ev in enumerate(evs):
            data = ev["bytes"]
            p = usb2.parse(data)
            kind = p["kind"]
            s = spans[i][0]
            lo = e[i]
            hi = spans[i + 1][0] if i + 1 < len(evs) else len(trace)      # strobes belong to the idle time after packet i
            is_data_pid = kind in ("data", "data-badcrc", "data-short")
            labels.add(kind if kind not in ("token", "sof", "token-badcrc", "token-badlen", "handshake",
                                            "handshake-long", "other") else "non-data")

            def what():
                return f"packet {i} [{rx.hexs(data)}] ({kind}), active cycles {s}..{lo - 1}, idle until {hi - 1}"

            streamed = [trace[t].pl for t in range(s, lo) if trace[t].nx]
            late_nx = [t for t in range(lo, hi) if trace[t].nx]
            dones = [t for t in range(s, hi) if trace[t].done]
            bads = [t for t in range(s, hi) if trace[t].bad]
            rfrs = [t for t in range(s, hi) if trace[t].rfr]
            if is_data_pid:
                want = list(data[1:-2]) if len(data) >= 3 else []
                if streamed != want or late_nx:
                    return fail(f"{what()}: streamed bytes [{rx.hexs(streamed)}] expected [{rx.hexs(want)}]"
                                + (f", stream.next after the packet at {late_nx}" if late_nx else ""),
                                signature="payload-mismatch")
            if kind == "data":
                n_good += 1
                if len(p["payload"]) <= 1:
                    n_tiny += 1
                    labels.add("good-len0/1")
                if bads:
                    return fail(f"{what()}: crc_mismatch at {bads} for a CRC-valid packet",
                                signature="mismatch-on-good-packet")
                if len(dones) != 1 or dones[0] < lo:
                    return fail(f"{what()}: packet_complete strobes at {dones}, expected exactly one after the packet end",
                                signature="complete-missing" if not dones else "complete-duplicated-or-early")
                if trace[dones[0]].pid != p["pid"]:
                    return fail(f"{what()}: packet_id={trace[dones[0]].pid} expected {p['pid']} at cycle {dones[0]}",
                                signature="packet-id-wrong")
                if len(rfrs) != 1 or rfrs[0] <= dones[0]:
                    return fail(f"{what()}: ready_for_response strobes at {rfrs}, expected exactly one after "
                                f"packet_complete (cycle {dones[0]})",
                                signature="rfr-missing" if not rfrs else "rfr-duplicated-or-early")
            else:
                if not is_data_pid and any(b in _DATA_PID_BYTES for b in data[1:-2]):
                    labels.add("non-data-with-embedded-data-pid")
                if dones:
                    return fail(f"{what()}: packet_complete at {dones} for a packet that is not a CRC-valid data packet",
                                signature=f"complete-on-{kind}")
                if rfrs:
                    return fail(f"{what()}: ready_for_response at {rfrs} without a completed packet",
                                signature="rfr-without-completion")
                if kind == "data-badcrc":
                    n_bad += 1
                    if len(p["payload"]) <= 1:
                        n_tiny += 1
                        labels.add("bad-len0/1")
                    if len(bads) != 1 or bads[0] < lo:
                        return fail(f"{what()}: crc_mismatch strobes at {bads}, expected exactly one after the packet end",
                                    signature="mismatch-missing" if not bads else "mismatch-duplicated-or-early")
        if any(ev["trail"] == 0 and ev["bytes"] for ev in evs):
            labels.add("trail0")
        return Result(ok=True, nontrivial=n_good >= 1 and n_bad >= 1 and n_tiny >= 1, labels=tuple(sorted(labels)))


SUBS = [Receiver()]
