"""C35 — link commands round-trip and corrupted commands are rejected."""
from amaranth import Elaboratable, Module, Signal
from hypothesis import strategies as st

from lunaverif.core import Sub, Result, fail
from lunaverif.gen import long_lists, weighted, bits
from lunaverif.simkit import CycleHarness
from lunaverif.ref import g4_usb3 as R

PROPERTY = "C35"
ASSUMPTIONS = [
    "the generator's caller asserts `generate` only while the generator is idle or holds it (with stable "
    "command/subtype) until `done` - both styles are generated; command/subtype may change after the strobe cycle",
    "received words reach the detector as (valid,data,ctrl) per cycle; not-valid words may carry any data",
    "an LCSTART word directly followed by another LCSTART word is not generated (statement silent on which start "
    "the following word belongs to); command words with non-zero reserved bits are not generated",
]

# ready patterns for the enumerated pass (cyclic)
_ENUM_READY = [[1], [0, 1], [1, 0], [0, 0, 1], [1, 1, 0, 0, 0], [0, 1, 1, 0], [0, 0, 0, 0, 0, 0, 1]]


class _Loop(Elaboratable):
    """LinkCommandGenerator -> (words accepted by the PHY side) -> LinkCommandDetector."""

    def __init__(self):
        from luna.gateware.usb.usb3.link.command import LinkCommandGenerator, LinkCommandDetector
        self.gen = LinkCommandGenerator()
        self.det = LinkCommandDetector()
        self.ready = Signal()

    def elaborate(self, platform):
        m = Module()
        m.submodules.gen = g = self.gen
        m.submodules.det = d = self.det
        m.d.comb += [
            g.source.ready.eq(self.ready),
            d.sink.valid.eq(g.source.valid & self.ready),
            d.sink.data.eq(g.source.data),
            d.sink.ctrl.eq(g.source.ctrl),
        ]
        return m


class _GenDriver:
    """Caller of the generator.  op = [command, subtype, hold, garbage_cmd, garbage_sub, gap]."""

    def __init__(self, ops, ready):
        self.ops = ops
        self.ready = ready
        self.i = 0
        self.phase = "gap"
        self.gap = ops[0][5] if ops else 0
        self.tail = 8
        self.issued = []          # cycle at which each op's generate was first asserted

    def step(self, t, prev):
        upd = dict(ready=self.ready[t % len(self.ready)])
        if self.phase == "busy" and prev is not None and prev.done:
            self.i += 1
            self.phase = "gap"
            self.gap = self.ops[self.i][5] if self.i < len(self.ops) else 0
        if self.i >= len(self.ops):
            upd.update(generate=0)
            self.tail -= 1
            # keep ready asserted at the end so nothing is left pending
            upd["ready"] = 1
            return upd if self.tail >= 0 else None
        op = self.ops[self.i]
        if self.phase == "gap":
            if self.gap > 0:
                self.gap -= 1
                upd.update(generate=0)
                return upd
            upd.update(generate=1, command=op[0], subtype=op[1])
            self.issued.append(t)
            self.phase = "busy"
            self.first = True
            return upd
        # busy
        if op[2]:                       # hold generate and fields until done
            upd.update(generate=1, command=op[0], subtype=op[1])
        else:                           # one-cycle strobe, then unrelated values on the field inputs
            upd.update(generate=0, command=op[3], subtype=op[4])
        return upd


def _check_roundtrip(ops, ready_used, trace):
    """ready_used[t] = ready applied in cycle t.  Returns (failure Result | None, stalled_cmds)."""
    exp_words = []
    for op in ops:
        exp_words += R.lc_words(op[0], op[1])
    acc = []            # (cycle, data, ctrl)
    stalled = 0
    prev = None
    done_cycles = []
    for t, o in enumerate(trace):
        rdy = ready_used[t]
        if prev is not None and prev[0] and not prev[3]:
            # stream protocol: valid and payload are held while not accepted
            if not o.valid or (o.data, o.ctrl) != (prev[1], prev[2]):
                return fail(f"cycle {t}: source changed from ({prev[1]:#x},{prev[2]:#x}) to valid={o.valid} "
                            f"({o.data:#x},{o.ctrl:#x}) while the previous word was not accepted",
                            signature="source-not-held-while-stalled"), 0
        if o.valid and rdy:
            acc.append((t, o.data, o.ctrl))
        if o.valid and not rdy:
            stalled += 1
        if o.done:
            done_cycles.append(t)
        prev = (o.valid, o.data, o.ctrl, rdy)
    got_words = [(d, c) for _, d, c in acc]
    if got_words != exp_words:
        k = next((i for i, (a, b) in enumerate(zip(got_words, exp_words)) if a != b), min(len(got_words), len(exp_words)))
        return fail(f"wire words differ from reference at word {k}: got "
                    f"{[(hex(d), c) for d, c in got_words[k:k + 2]]} expected "
                    f"{[(hex(d), c) for d, c in exp_words[k:k + 2]]} (ops {ops})",
                    signature="wire-framing" if k % 2 == 0 else "wire-command-word"), 0
    cmd_acc_cycles = [t for i, (t, _, _) in enumerate(acc) if i % 2 == 1]
    if done_cycles != cmd_acc_cycles:
        return fail(f"`done` cycles {done_cycles} != cycles in which a command word was accepted {cmd_acc_cycles}",
                    signature="done-timing"), 0
    # detector: exactly one report per command, in order, after its command word and before the next one ends
    reports = [(t, o.cmd, o.sub, o.cls, o.typ) for t, o in enumerate(trace) if o.new]
    if len(reports) != len(ops):
        return fail(f"{len(ops)} commands sent, detector reported {len(reports)} times at cycles "
                    f"{[r[0] for r in reports]}", signature="roundtrip-report-count"), 0
    for k, (op, rep) in enumerate(zip(ops, reports)):
        t, cmd, sub, cls, typ = rep
        if (cmd, sub) != (op[0], op[1]) or cls != op[0] >> 2 or typ != op[0] & 3:
            return fail(f"command {k} ({op[0]},{op[1]}) reported as command={cmd} class={cls} type={typ} "
                        f"subtype={sub} at cycle {t}", signature="roundtrip-wrong-fields"), 0
        lo = cmd_acc_cycles[k]
        hi = cmd_acc_cycles[k + 1] if k + 1 < len(ops) else len(trace)
        if not (lo < t <= hi):
            return fail(f"command {k} accepted in cycle {lo} but reported in cycle {t}",
                        signature="roundtrip-report-timing"), 0
    return None, stalled


class RoundTripSub(Sub):
    name = "roundtrip"
    budget = {"quick": 6000, "thorough": 100000}
    exhaustive = False
    rule = ("enumerated: all 256 command/subtype pairs x 7 ready patterns x {strobe,hold}; random: sequences of "
            "1..12 commands with strobe/held `generate`, changing field inputs after the strobe, gaps, cyclic ready "
            "patterns. Oracle: accepted wire words == reference LCSTART + 2x(16-bit word with bit-serial CRC-5), "
            "stream held while stalled, done == command-word acceptance, detector reports (class,type,subtype) "
            "exactly once per command in order. Non-trivial: >=2 commands and >=1 stalled word.")

    def setup(self):
        dut = _Loop()
        g, d = dut.gen, dut.det
        self.h = CycleHarness(
            dut,
            ins=dict(generate=g.generate, command=g.command, subtype=g.subtype, ready=dut.ready),
            outs=dict(valid=g.source.valid, data=g.source.data, ctrl=g.source.ctrl, done=g.done,
                      new=d.new_command, cmd=d.command, sub=d.subtype, cls=d.command_class, typ=d.command_type),
            domain="ss")

    def strategy(self):
        op = st.tuples(bits(4), bits(4), st.integers(0, 1), bits(4), bits(4),
                       weighted([(0, 6), (1, 2), (2, 1), (5, 1)])).map(list)
        return st.fixed_dictionaries(dict(
            ops=long_lists(op, min_size=1, max_size=12, average=5),
            ready=st.lists(weighted([(1, 3), (0, 2)]), min_size=1, max_size=24),
        ))

    def enumerate(self, tier):
        for cmd in range(16):
            for sub in range(16):
                for ri, rp in enumerate(_ENUM_READY):
                    hold = (cmd + sub + ri) & 1
                    yield dict(ops=[[cmd, sub, hold, (cmd + 5) & 15, (sub + 9) & 15, 0],
                                    [sub, cmd, 1 - hold, cmd ^ 15, sub ^ 15, ri % 3]], ready=rp)

    def run(self, case):
        ops = case["ops"]
        ready = list(case["ready"])
        if not any(ready):
            ready = ready + [1]
        drv = _GenDriver(ops, ready)

        class Rec:
            def __init__(s):
                s.used = []

            def step(s, t, prev):
                u = drv.step(t, prev)
                if u is not None:
                    s.used.append(u["ready"])
                return u
        rec = Rec()
        max_cycles = 40 + sum(op[5] + 2 + 2 * (len(ready) + 1) for op in ops)
        trace = self.h.run_driver(rec, max_cycles)
        if drv.i < len(ops):
            return fail(f"generator did not complete {len(ops)} commands within {max_cycles} cycles "
                        f"(completed {drv.i})", signature="generator-hang")
        res, stalled = _check_roundtrip(ops, rec.used, trace)
        if res is not None:
            return res
        labels = ["hold" if any(o[2] for o in ops) else "strobe-only", "stalled" if stalled else "no-stall",
                  f"n={min(len(ops), 6)}{'+' if len(ops) > 6 else ''}"]
        if any(o[5] == 0 for o in ops[1:]):
            labels.append("back-to-back")
        return Result(ok=True, nontrivial=len(ops) >= 2 and stalled > 0, labels=tuple(labels))


# --------------------------------------------------------------------------------------------- detector
# item kinds for the detector stream:
#   ["good", cmd, sub]                     LCSTART + good word
#   ["flip", cmd, sub, mask32, cmask4]     LCSTART + word with data ^ mask, ctrl = cmask
#   ["mirror", cmd, sub, mask16]           LCSTART + both copies xor mask16 (redundancy intact, CRC must catch)
#   ["unequal", cmd, sub, cmd2, sub2]      LCSTART + two different, individually valid copies
#   ["gap", cmd, sub, [[data, ctrl]...]]   LCSTART, not-valid words (arbitrary data), then the good word
#   ["badstart", cmd, sub, mask32, cmask4] corrupted LCSTART (mask!=0 or ctrl!=0xF), then a good word
#   ["nostart", cmd, sub]                  a good command word without LCSTART
#   ["junk", data, ctrl]                   one valid word that is not LCSTART
#   ["inv", data, ctrl]                    one not-valid word
#   ["idle", n]                            n logical idle words

def _items_to_script(items):
    """-> (script, expected reports [(cmd, sub)], classes seen)"""
    words = []     # (valid, data, ctrl)
    labels = set()
    for it in items:
        k = it[0]
        if k == "good":
            words += [(1,) + R.LCSTART, (1,) + R.lc_word(it[1], it[2])]
        elif k == "flip":
            d, c = R.lc_word(it[1], it[2])
            words += [(1,) + R.LCSTART, (1, d ^ it[3], it[4])]
        elif k == "mirror":
            d, c = R.lc_word(it[1], it[2])
            words += [(1,) + R.LCSTART, (1, d ^ (it[3] | (it[3] << 16)), 0)]
        elif k == "unequal":
            lo = R.lc_word16(it[1], it[2])
            hi = R.lc_word16(it[3], it[4])
            words += [(1,) + R.LCSTART, (1, lo | (hi << 16), 0)]
        elif k == "gap":
            words += [(1,) + R.LCSTART] + [(0, d, c) for d, c in it[3]] + [(1,) + R.lc_word(it[1], it[2])]
        elif k == "badstart":
            d, c = R.LCSTART
            d, c = d ^ it[3], it[4]
            if (d, c) == R.LCSTART:
                c ^= 1
            words += [(1, d, c), (1,) + R.lc_word(it[1], it[2])]
        elif k == "nostart":
            words += [(1,) + R.IDLE, (1,) + R.lc_word(it[1], it[2])]
        elif k == "junk":
            d, c = it[1], it[2]
            if (d, c) == R.LCSTART:
                d ^= 1
            words += [(1, d, c)]
        elif k == "inv":
            words += [(0, it[1], it[2])]
        elif k == "idle":
            words += [(1,) + R.IDLE] * it[1]
        labels.add(k)
    # never leave an LCSTART directly followed (in the valid stream) by another LCSTART: separate them
    out = []
    last_valid = None
    pending_cmd = False      # previous valid word was an LCSTART waiting for its command word
    for v, d, c in words:
        if v and pending_cmd and (d, c) == R.LCSTART:
            out.append((1,) + R.IDLE)        # consumes the pending start as a (rejected) command word
            pending_cmd = False
        out.append((v, d, c))
        if v:
            if pending_cmd:
                pending_cmd = False
            elif (d, c) == R.LCSTART:
                pending_cmd = True
    # reference: walk the valid words
    exp = []
    pend = False
    for idx, (v, d, c) in enumerate(out):
        if not v:
            continue
        if pend:
            dec = R.lc_decode(d, c)
            if dec is not None:
                exp.append((idx, dec[0], dec[1]))
            pend = False
        elif (d, c) == R.LCSTART:
            pend = True
    return out, exp, labels


def _judge_detector(out_words, exp, trace):
    reports = [(t, o.cmd, o.sub, o.cls, o.typ) for t, o in enumerate(trace) if o.new]
    # pair reports with expectations in order
    for k in range(max(len(reports), len(exp))):
        if k >= len(exp):
            t, cmd, sub, _, _ = reports[k]
            w = out_words[t - 1] if 0 < t <= len(out_words) else None
            why = "unexpected-report"
            if w is not None:
                v, d, c = w
                if not v:
                    why = "report-from-invalid-word"
                elif c != 0:
                    why = "report-with-ctrl-symbols"
                elif (d & 0xFFFF) != (d >> 16):
                    why = "report-with-unequal-copies"
                elif R.lc_decode(d, c) is None:
                    why = "report-with-bad-crc5"
                else:
                    why = "report-without-lcstart"
            return fail(f"detector reported command={cmd} subtype={sub} at cycle {t} but the reference expects no "
                        f"report there (word before: {w and (w[0], hex(w[1]), w[2])}); expected reports {exp}",
                        signature=why)
        if k >= len(reports):
            idx, cmd, sub = exp[k]
            return fail(f"valid command ({cmd},{sub}) at word {idx} was not reported (reports: {reports})",
                        signature="good-command-not-reported")
        (t, cmd, sub, cls, typ), (idx, ecmd, esub) = reports[k], exp[k]
        nxt = exp[k + 1][0] if k + 1 < len(exp) else len(trace)
        if not (idx < t <= nxt):
            # a report outside the window of the expected command => spurious or missing; classify by the word
            v, d, c = out_words[t - 1] if 0 < t <= len(out_words) else (0, 0, 0)
            if t <= idx:
                why = ("report-from-invalid-word" if not v else "report-with-ctrl-symbols" if c else
                       "report-with-unequal-copies" if (d & 0xFFFF) != (d >> 16) else
                       "report-with-bad-crc5" if R.lc_decode(d, c) is None else "report-without-lcstart")
                return fail(f"spurious report command={cmd} subtype={sub} at cycle {t} (word before: valid={v} "
                            f"{d:#x} ctrl={c:#x}); next expected command is at word {idx}", signature=why)
            return fail(f"valid command ({ecmd},{esub}) at word {idx} was not reported before the next one "
                        f"(report at cycle {t})", signature="good-command-not-reported")
        if (cmd, sub) != (ecmd, esub) or cls != ecmd >> 2 or typ != ecmd & 3:
            return fail(f"command ({ecmd},{esub}) at word {idx} reported as command={cmd} class={cls} type={typ} "
                        f"subtype={sub}", signature="detector-wrong-fields")
    return None


class DetectorSub(Sub):
    name = "detector"
    budget = {"quick": 9000, "thorough": 300000}
    rule = ("enumerated: every single-bit flip of the 32 data + 4 ctrl bits of all 256 command words, every "
            "single-bit flip of LCSTART (16 commands); random: streams of good commands, multi-bit/mirrored flips, "
            "unequal copies, corrupted or missing LCSTART, not-valid words (arbitrary data, incl. LCSTART and "
            "command-looking) between start and command, junk and idle. Oracle: reference walk over the valid "
            "words (LCSTART then next valid word, ctrl==0, copies equal, bit-serial CRC-5) must equal the "
            "detector's strobes/fields one for one. Non-trivial: >=1 good command and >=1 corrupted/interleaved item.")

    def setup(self):
        from luna.gateware.usb.usb3.link.command import LinkCommandDetector
        d = LinkCommandDetector()
        self.h = CycleHarness(d, ins=dict(v=d.sink.valid, d=d.sink.data, c=d.sink.ctrl),
                              outs=dict(new=d.new_command, cmd=d.command, sub=d.subtype, cls=d.command_class,
                                        typ=d.command_type), domain="ss")

    def strategy(self):
        cmd, sub = bits(4), bits(4)
        nzmask32 = st.one_of(st.integers(0, 31).map(lambda b: 1 << b),
                             st.tuples(st.integers(0, 31), st.integers(0, 31)).map(lambda p: (1 << p[0]) | (1 << p[1])),
                             st.integers(1, 0xFFFFFFFF))
        inv_word = st.one_of(
            st.just(list(R.LCSTART)), st.just([0, 0]),
            st.tuples(cmd, sub).map(lambda p: list(R.lc_word(*p))),
            st.tuples(bits(32), bits(4)).map(list))
        item = st.one_of(
            st.tuples(st.just("good"), cmd, sub),
            st.tuples(st.just("good"), cmd, sub),
            st.tuples(st.just("flip"), cmd, sub, nzmask32, weighted([(0, 6), (1, 1), (2, 1), (8, 1), (15, 1)])),
            st.tuples(st.just("flip"), cmd, sub, st.just(0), st.integers(1, 15)),
            st.tuples(st.just("mirror"), cmd, sub, st.integers(1, 0xFFFF)),
            st.tuples(st.just("mirror"), cmd, sub, st.integers(0, 15).map(lambda b: 1 << b)),
            st.tuples(st.just("unequal"), cmd, sub, cmd, sub),
            st.tuples(st.just("gap"), cmd, sub, st.lists(inv_word, min_size=1, max_size=4)),
            st.tuples(st.just("badstart"), cmd, sub, st.one_of(st.just(0), st.integers(0, 31).map(lambda b: 1 << b)),
                      weighted([(15, 3), (7, 1), (14, 1), (0, 1)])),
            st.tuples(st.just("nostart"), cmd, sub),
            st.tuples(st.just("junk"), bits(32), bits(4)),
            st.tuples(st.just("inv"), st.one_of(st.just(R.LCSTART[0]), bits(32)), weighted([(15, 2), (0, 2), (5, 1)])),
            st.tuples(st.just("idle"), st.integers(1, 3)),
        ).map(list)
        return st.fixed_dictionaries(dict(items=long_lists(item, min_size=1, max_size=30, average=10)))

    def enumerate(self, tier):
        for cmd in range(16):
            for sub in range(16):
                for b in range(32):
                    yield dict(items=[["flip", cmd, sub, 1 << b, 0], ["good", sub, cmd]])
                for b in range(4):
                    yield dict(items=[["flip", cmd, sub, 0, 1 << b], ["good", sub, cmd]])
        for cmd in range(16):
            for b in range(32):
                yield dict(items=[["badstart", cmd, 15 - cmd, 1 << b, 15], ["good", 15 - cmd, cmd]])
            for b in range(4):
                yield dict(items=[["badstart", cmd, 15 - cmd, 0, 15 ^ (1 << b)], ["good", 15 - cmd, cmd]])

    def run(self, case):
        items = case["items"]
        out, exp, labels = _items_to_script(items)
        script = [dict(v=v, d=d, c=c) for v, d, c in out] + [dict(v=1, d=0, c=0)] * 3
        trace = self.h.run_script(script)
        res = _judge_detector(out, exp, trace)
        if res is not None:
            return res
        corrupt = labels & {"flip", "mirror", "unequal", "gap", "badstart", "nostart"}
        lab = sorted(labels) + [f"reports={min(len(exp), 5)}"]
        return Result(ok=True, nontrivial=bool(corrupt) and "good" in labels, labels=tuple(lab))


SUBS = [RoundTripSub(), DetectorSub()]
