"""C43 — training ordered sets are emitted and detected exactly."""

from hypothesis import strategies as st

from lunaverif.core import Sub, Result, fail
from lunaverif.gen import long_lists, weighted
from lunaverif.simkit import CycleHarness
from lunaverif.ref import g3_usb3 as u3

PROPERTY = "C43"
ASSUMPTIONS = [
    "a well-formed TS1/TS2 has symbol 4 = 00 and reserved link-functionality bits 0; detectors built without the "
    "config option are only offered well-formed sets whose link-functionality symbol is 00",
    "an idle gap is one or more not-valid words, between sets or inside a set; it neither counts nor breaks a run",
    "consecutive = well-formed sets separated by nothing but idle gaps; any valid word that is not part of a "
    "well-formed set ends the run",
    "the reported configuration bits are judged only when all sets of the reported run carry the same bits",
    "emitter: request bits are judged in the cycle the configuration word is transferred",
]

KINDS = {
    # name: (luna table name, first word ctrl, include_config, reference kind)
    "TS1": ("TS1_SET_DATA", 0b1111, False, "TS1"),
    "TS2": ("TS2_SET_DATA", 0b1111, True, "TS2"),
    "TSEQ": ("TSEQ_SET_DATA", 0b0001, False, "TSEQ"),
    "ITS1": ("INVERTED_TS1_SET_DATA", 0b1111, False, "ITS1"),
}


def cfg_byte(code):
    """3-bit code -> link functionality symbol (bit0 hot reset, bit2 loopback, bit3 disable scrambling)."""
    return ((code & 1) * u3.LF_HOT_RESET) | (((code >> 1) & 1) * u3.LF_LOOPBACK) | (((code >> 2) & 1) * u3.LF_NO_SCRAMBLING)


# =================================================================================================
#  Emitter
# =================================================================================================
EMIT_CFGS = [("TS1", 1), ("TS1", 2), ("TS1", 16), ("TS2", 1), ("TS2", 3), ("TS2", 16), ("TSEQ", 1), ("TSEQ", 2),
             ("TSEQ", 20), ("ITS1", 5)]

# per-cycle op: bit0 start, bit1 ready, bits 2..4 request code (used only if it is a 'change' op)
_EOP = st.tuples(weighted([(3, 10), (2, 4), (1, 2), (0, 2)]), weighted([(0, 12), (1, 1)]), st.integers(0, 7))


class EmitterSub(Sub):
    name = "emitter"
    budget = {"quick": 4000, "thorough": 50000}
    rule = ("TSEmitter (TS1/TS2+config/TSEQ/inverted TS1 tables, burst length 1,2,3,5,16,20) under per-cycle start / "
            "source.ready / request-bit schedules, then drained; oracle: cycle model from the statement - idle until "
            "start, then exactly N sets of the reference (specification) symbols back to back with valid held, TS2 "
            "link-functionality symbol = requested bits at the transfer, done exactly on the last transfer of each "
            "burst, immediate restart iff start is high at done; non-trivial = >=2 completed bursts, a stall inside a "
            "burst, a restart at done and an idle period between bursts")
    shrink_budget = 600

    def setup(self):
        self.h = {}

    def harness(self, cfg):
        if cfg not in self.h:
            from luna.gateware.usb.usb3.link import ordered_sets as os_
            kind, n = cfg
            table, fwc, inc, _ = KINDS[kind]
            dut = os_.TSEmitter(set_data=getattr(os_, table), first_word_ctrl=fwc, transmit_burst_length=n,
                                include_config=inc)
            ins = dict(start=dut.start, ready=dut.source.ready)
            if inc:
                ins.update(hr=dut.request_hot_reset, lb=dut.request_loopback, ns=dut.request_no_scrambling)
            outs = dict(valid=dut.source.valid, data=dut.source.data, ctrl=dut.source.ctrl, done=dut.done,
                        first=dut.source.first, last=dut.source.last)
            self.h[cfg] = CycleHarness(dut, ins, outs, domain="ss")
        return self.h[cfg]

    def strategy(self):
        return st.fixed_dictionaries(dict(
            cfg=st.integers(0, len(EMIT_CFGS) - 1),
            start_hold=weighted([(0, 2), (1, 1)]),     # 1: start is a level held for whole stretches (LTSSM style)
            ops=long_lists(_EOP, min_size=1, max_size=260, average=90),
        ))

    def run(self, case):
        cfg = EMIT_CFGS[case["cfg"]]
        kind, n_sets = cfg
        inc = KINDS[kind][2]
        L = len(u3.ts_words(kind))
        script = []
        req = 0
        start = 0
        for i, (sr, chg, code) in enumerate(case["ops"]):
            if case["start_hold"]:
                if chg or i == 0:
                    start = sr & 1
            else:
                start = sr & 1
            if chg:
                req = code
            vec = dict(start=start, ready=(sr >> 1) & 1)
            if inc:
                vec.update(hr=req & 1, lb=(req >> 1) & 1, ns=(req >> 2) & 1)
            script.append(vec)
        drain = dict(script[-1], start=0, ready=1)
        script += [drain] * (n_sets * L + 3)
        trace = self.harness(cfg).run_script(script)

        busy = False
        widx = sidx = 0
        bursts = 0
        stalled_in_burst = restarted = idle_between = False
        for t, (vec, o) in enumerate(zip(script, trace)):
            if not busy:
                if o.valid or o.done:
                    return fail(f"{cfg} cycle {t}: valid={o.valid} done={o.done} while no burst was requested",
                                signature="emits-while-idle")
                if vec["start"]:
                    busy = True
                    widx = sidx = 0
                    if bursts:
                        idle_between = True
                continue
            code = (vec.get("hr", 0) | (vec.get("lb", 0) << 1) | (vec.get("ns", 0) << 2)) if inc else 0
            ed, ec = u3.ts_words(KINDS[kind][3], cfg_byte(code))[widx]
            if not o.valid:
                return fail(f"{cfg} cycle {t}: valid dropped inside a burst (set {sidx}, word {widx})",
                            signature="valid-dropped-in-burst")
            if (o.data, o.ctrl) != (ed, ec) and (vec["ready"] or widx != 1 or not inc):
                sig = "wrong-config-bits" if (inc and widx == 1 and o.ctrl == ec and
                                              (o.data ^ ed) & 0xFFFF00FF == 0) else "wrong-set-symbols"
                return fail(f"{cfg} cycle {t}: set {sidx} word {widx}: expected {ed:#010x}/{ec:04b} got "
                            f"{o.data:#010x}/{o.ctrl:04b} (request code {code:03b})", signature=sig)
            last_of_burst = vec["ready"] and widx == L - 1 and sidx == n_sets - 1
            if bool(o.done) != bool(last_of_burst):
                return fail(f"{cfg} cycle {t}: done={o.done} on set {sidx} word {widx} ready={vec['ready']} "
                            f"(burst length {n_sets})", signature="done-misplaced")
            if not vec["ready"]:
                stalled_in_burst = True
                continue
            widx += 1
            if widx == L:
                widx = 0
                sidx += 1
                if sidx == n_sets:
                    bursts += 1
                    sidx = 0
                    if vec["start"]:
                        restarted = True
                    else:
                        busy = False
        if busy:
            return fail(f"{cfg}: burst still running after the drain", signature="burst-does-not-end")
        labels = {f"kind={kind}", f"n={n_sets}", f"bursts={min(bursts, 3)}"}
        if stalled_in_burst:
            labels.add("stall")
        if restarted:
            labels.add("restart-at-done")
        if idle_between:
            labels.add("idle-between")
        nt = bursts >= 2 and stalled_in_burst and restarted and idle_between
        return Result(ok=True, nontrivial=nt, labels=tuple(sorted(labels)))


# =================================================================================================
#  Detector
# =================================================================================================
DET_CFGS = [("TS1", 1), ("TS1", 2), ("TS1", 3), ("TS1", 8), ("TS2", 1), ("TS2", 2), ("TS2", 4), ("TS2", 8),
            ("TSEQ", 1), ("TSEQ", 3), ("ITS1", 2), ("TS1", 10)]

# element = (kind, a, bits)
#   0 well-formed set                      4 damaged set (one word altered)
#   1 idle gap (not-valid words)           5 well-formed set with an idle gap inside
#   2 garbage valid words                  6 well-formed set of another type
#   3 truncated set
_DEL = st.tuples(weighted([(0, 14), (1, 4), (2, 3), (3, 1), (4, 2), (5, 2), (6, 1)]), st.integers(0, 15),
                 st.integers(0, (1 << 32) - 1))

_OTHER = {"TS1": ["TS2", "ITS1", "TSEQ"], "TS2": ["TS1", "ITS1", "TSEQ"], "TSEQ": ["TS1", "TS2"], "ITS1": ["TS1", "TS2"]}


class DetectorSub(Sub):
    name = "detector"
    budget = {"quick": 8000, "thorough": 100000}
    rule = ("TSBurstDetector (TS1/TS2+config/TSEQ/inverted-TS1 tables, thresholds 1,2,3,4,8,10) fed word streams built "
            "from well-formed sets (reference symbols, TS2 link-functionality bits), idle gaps between and inside sets, "
            "garbage words, truncated and damaged sets, sets of other types; 1/4 of the cases also put a well-formed "
            "set immediately after a mismatching word ('adjacent'); oracle: left-to-right parse of the valid words - "
            "every Nth consecutive well-formed set must produce exactly one detected strobe 1..3 cycles after its "
            "last word, with its configuration bits, and there is no other strobe; non-trivial = >=1 expected "
            "detection, >=1 run broken by garbage/damage before reaching N, an idle gap, and N >= 2")
    shrink_budget = 1000

    def setup(self):
        self.h = {}

    def harness(self, cfg):
        if cfg not in self.h:
            from luna.gateware.usb.usb3.link import ordered_sets as os_
            kind, n = cfg
            table, fwc, inc, _ = KINDS[kind]
            dut = os_.TSBurstDetector(set_data=getattr(os_, table), first_word_ctrl=fwc, sets_in_burst=n,
                                      include_config=inc)
            ins = dict(valid=dut.sink.valid, data=dut.sink.data, ctrl=dut.sink.ctrl)
            outs = dict(detected=dut.detected)
            if inc:
                outs.update(hr=dut.hot_reset, lb=dut.loopback_requested, ns=dut.scrambling_disabled)
            self.h[cfg] = CycleHarness(dut, ins, outs, domain="ss")
        return self.h[cfg]

    def strategy(self):
        return st.fixed_dictionaries(dict(
            cfg=st.integers(0, len(DET_CFGS) - 1),
            adjacent=weighted([(0, 3), (1, 1)]),
            cfg_code=st.integers(0, 7),
            elems=long_lists(_DEL, min_size=1, max_size=70, average=26),
        ))

    # ---- stream construction -------------------------------------------------------------------------
    @staticmethod
    def build(case):
        kind, n = DET_CFGS[case["cfg"]]
        inc = KINDS[kind][2]
        ref_kind = KINDS[kind][3]
        L = len(u3.ts_words(ref_kind))
        w0 = u3.ts_words(ref_kind)[0]
        script = [(0, 0, 0)] * 2     # (valid, data, ctrl); two idle cycles after reset before anything arrives
        sets = []         # for the labels only

        def junk_word(bits, j):
            x = (bits * 0x9E3779B1 + j * 0x85EBCA6B) & 0xFFFFFFFF
            sel = x & 7
            if sel == 0:
                return (0, 0)                                     # logical idle
            if sel == 1:
                return u3.ts_words(ref_kind)[1 + (x >> 3) % (L - 1)]      # a later word of the set, out of place
            if sel == 2:
                return (w0[0], w0[1] ^ (1 << ((x >> 3) & 3)))     # first word with one ctrl bit wrong
            if sel == 3:
                return (0xBCBCBCBC ^ (1 << ((x >> 3) & 31)), 0xF)
            return (x ^ (x << 13) & 0xFFFFFFFF, (x >> 28) & 0xF if sel == 4 else 0)

        def separator(bits):
            # a valid word that belongs to no set, followed by one idle cycle: lets any detector implementation
            # finish rejecting what came before; it follows only elements that end a run anyway
            script.append((1, 0x11223344 ^ (bits & 0xFF00), 0))
            script.append((0, 0, 0))

        for ek, a, bits in case["elems"]:
            if ek in (0, 5):
                code = (a & 7) if (inc and a & 8) else (case["cfg_code"] if inc else 0)
                words = u3.ts_words(ref_kind, cfg_byte(code))
                for j, (d, c) in enumerate(words):
                    script.append((1, d, c))
                    if ek == 5 and j == bits % L and j != L - 1:
                        for g in range(1 + (bits >> 8) % 3):
                            script.append((0, w0[0], w0[1]))     # idle gap inside the set; junk looks like word 0
                sets.append("good")
                continue
            if ek == 1:
                for g in range(1 + a % 4):
                    d, c = w0 if (bits >> g) & 1 else (bits ^ 0x5A5A5A5A, 0)
                    script.append((0, d, c))
                sets.append("gap")
                continue
            if ek == 2:
                for j in range(1 + a % 3):
                    d, c = junk_word(bits, j)
                    if (d, c) == w0:
                        d ^= 0x100
                    script.append((1, d & 0xFFFFFFFF, c))
                sets.append("garbage")
            elif ek == 3:
                words = u3.ts_words(ref_kind, cfg_byte(case["cfg_code"]) if inc else 0)
                for d, c in words[:1 + a % (L - 1)]:
                    script.append((1, d, c))
                sets.append("truncated")
            elif ek == 4:
                words = list(u3.ts_words(ref_kind, cfg_byte(case["cfg_code"]) if inc else 0))
                j = a % L
                d, c = words[j]
                if bits & 1:
                    c ^= 1 << ((bits >> 1) & 3)
                else:
                    bit = (bits >> 1) & 31
                    if j == 1 and 0 <= bit < 16:
                        bit += 16                # symbols 4/5 of TS1/TS2 are not 'damage' (see ASSUMPTIONS)
                    d ^= 1 << bit
                words[j] = (d, c)
                for d, c in words:
                    script.append((1, d, c))
                sets.append("damaged")
            elif ek == 6:
                other = _OTHER[kind][a % len(_OTHER[kind])]
                for d, c in u3.ts_words(other, cfg_byte(a & 7) if other == "TS2" else 0):
                    script.append((1, d, c))
                sets.append("other-type")
            if not case["adjacent"]:
                separator(bits)
        script += [(0, 0, 0)] * 5
        return script, sets

    def run(self, case):
        cfg = DET_CFGS[case["cfg"]]
        kind, n = cfg
        inc = KINDS[kind][2]
        ref_kind = KINDS[kind][3]
        L = len(u3.ts_words(ref_kind))
        script, elems = self.build(case)
        trace = self.harness(cfg).run_script([dict(valid=v, data=d, ctrl=c) for v, d, c in script])

        # ---- reference parse over the valid words --------------------------------------------------------
        V = [(t, d, c) for t, (v, d, c) in enumerate(script) if v]
        codes = range(8) if inc else (0,)
        table = {tuple(u3.ts_words(ref_kind, cfg_byte(code))): code for code in codes}
        set_words = {w for ws in table for w in ws[:-1]}
        events, info = parse(V, L, table, n)
        after_mismatch, breaks, gap_in_run = info["after_mismatch"], info["breaks"], info["gap_in_run"]
        strobes = [t for t, o in enumerate(trace) if o.detected]
        si = 0
        for end, code, first in events:
            if si < len(strobes) and strobes[si] < end + 1:
                return self._unexpected(cfg, strobes[si], script, V, L, table, events)
            if si >= len(strobes) or strobes[si] > end + 3:
                near = [t for t in after_mismatch if first <= t <= end]
                sig = "set-missed-after-mismatch" if near else "missed-detection"
                return fail(f"{cfg}: {n} consecutive well-formed sets ending in cycle {end} (run starts cycle {first}) "
                            f"were not reported (strobes at {strobes}); sets starting right after a mismatching word: "
                            f"{sorted(after_mismatch)}", signature=sig)
            if inc and code is not None:
                o = trace[strobes[si]]
                got = o.hr | (o.lb << 1) | (o.ns << 2)
                if got != code:
                    return fail(f"{cfg}: detection at cycle {strobes[si]} reports hot_reset/loopback/no-scrambling = "
                                f"{o.hr}/{o.lb}/{o.ns}, the sets carried {code & 1}/{(code >> 1) & 1}/{(code >> 2) & 1}",
                                signature="wrong-config-bits-reported")
            si += 1
        if si < len(strobes):
            return self._unexpected(cfg, strobes[si], script, V, L, table, events)
        labels = {f"kind={kind}", f"n={n}", f"detections={min(len(events), 3)}"}
        labels.update(set(elems))
        if case["adjacent"]:
            labels.add("adjacent")
        if after_mismatch:
            labels.add("set-right-after-mismatch")
        if breaks:
            labels.add("run-broken")
        if gap_in_run:
            labels.add("gap-in-run")
        nt = bool(events) and breaks >= 1 and ("gap" in elems) and n >= 2
        return Result(ok=True, nontrivial=nt, labels=tuple(sorted(labels)))

    @staticmethod
    def _unexpected(cfg, t, script, V, L, table, events):
        kind, n = cfg
        # Name the root cause: does the strobe become justified if garbage that follows an idle gap after a
        # complete set is (wrongly) allowed not to break the run?
        _, info = parse(V, L, table, n)
        drop = set()
        for blk in info["garbage_blocks"]:
            first_t = blk[0]
            prev_valid = max((tt for tt, _, _ in V if tt < first_t), default=None)
            if prev_valid is None or prev_valid not in info["set_ends"]:
                continue
            if prev_valid == first_t - 1:
                continue                    # no idle gap in between
            if any((d, c) == next(iter(table))[0] for tt, d, c in V if tt in blk):
                continue
            drop.update(blk)
        sig = "unexpected-detection"
        if drop:
            lenient, _ = parse([v for v in V if v[0] not in drop], L, table, n)
            if any(e[0] + 1 <= t <= e[0] + 3 for e in lenient):
                sig = "run-not-broken-by-garbage-after-gap"
        return fail(f"{cfg}: detected strobe in cycle {t} is not justified by {n} consecutive well-formed sets "
                    f"(justified detections end in cycles {[e[0] for e in events]})", signature=sig)


def parse(V, L, table, n):
    """Left-to-right parse of the valid words V = [(cycle, data, ctrl)].  -> (events, info);
    events = [(cycle of the last word of the Nth set, common cfg code | None, first cycle of the run)]."""
    set_prefix_words = {w for ws in table for w in ws[:-1]}
    events = []
    run = []
    breaks = 0
    gap_in_run = False
    after_mismatch = set()
    set_ends = set()
    garbage_blocks = []
    prev_bad = None            # (cycle, data, ctrl) of the previous valid word if it belonged to no set
    i = 0
    while i < len(V):
        cand = tuple((d, c) for _, d, c in V[i:i + L])
        if len(cand) == L and cand in table:
            if prev_bad is not None and (V[i][0] == prev_bad[0] + 1 or (prev_bad[1], prev_bad[2]) in set_prefix_words):
                after_mismatch.add(V[i][0])
            if run and V[i][0] != run[-1][1] + 1:
                gap_in_run = True
            run.append((V[i][0], V[i + L - 1][0], table[cand]))
            set_ends.add(V[i + L - 1][0])
            if len(run) == n:
                cs = {r[2] for r in run}
                events.append((run[-1][1], cs.pop() if len(cs) == 1 else None, run[0][0]))
                run = []
            prev_bad = None
            i += L
        else:
            if run:
                breaks += 1
            run = []
            if prev_bad is not None and garbage_blocks and garbage_blocks[-1][-1] == prev_bad[0]:
                garbage_blocks[-1].append(V[i][0])
            else:
                garbage_blocks.append([V[i][0]])
            prev_bad = V[i]
            i += 1
    return events, dict(after_mismatch=after_mismatch, breaks=breaks, gap_in_run=gap_in_run, set_ends=set_ends,
                        garbage_blocks=garbage_blocks)


SUBS = [EmitterSub(), DetectorSub()]
