"""C19 — USB2 reset, high-speed handshake and suspend follow the line-state timing rules."""

from hypothesis import strategies as st

from lunaverif.core import Sub, Result, fail
from lunaverif.gen import long_lists, weighted, bits
from lunaverif.bfm.g7_event_harness import EventHarness
from lunaverif.ref import g7_reset_oracle as O

PROPERTY = "C19"
ASSUMPTIONS = [
    "inputs (line_state, vbus_connected, disconnect, full/low_speed_only, bus_busy) are synchronous to the usb clock "
    "and piecewise constant; bus_busy is asserted for at most 60 cycles at a time",
    "low_speed_only and full_speed_only are never asserted together (device.py gates low_speed_only with ~always_fs; "
    "a device is built as one or the other)",
    "'high-speed operation' = XcvrSelect HS & OpMode normal & HS termination; 'restricted' = full_speed_only | "
    "low_speed_only; thresholds are cycle counts at 60 MHz taken from the statement (150 / 300 / 12000 / 150000 / "
    "180000); the scaled sub uses a USBResetSequencer subclass with every _CYCLES_* constant overridden by the same "
    "table divided by 20, so it exercises the FSM logic, not the shipped constants",
    "only necessary conditions are asserted ('only after', 'never', 'within'): the statement does not say when a "
    "reset or suspend must be reported",
]

INPUTS0 = dict(line_state=1, vbus=1, disconnect=0, fs_only=0, ls_only=0, bus_busy=0)

# duration = T[name] + offset, or an absolute small number of cycles
NEAR = st.integers(-3, 4)
DUR_NAMES = ("us2p5", "us5", "us200", "ms2", "ms2p5", "ms3")


def dur(names, small_max=40):
    return st.one_of(st.tuples(st.sampled_from(names), NEAR).map(list),
                     st.tuples(st.just("abs"), st.integers(1, small_max)).map(list))


def chirp_state():
    # valid (>= 2.5 us), marginal (2.5 us +- few cycles), long, or short
    return st.one_of(st.tuples(st.just("us2p5"), st.integers(0, 12)).map(list),
                     st.tuples(st.just("us2p5"), st.integers(0, 12)).map(list),
                     st.tuples(st.just("us2p5"), st.integers(-3, 2)).map(list),
                     st.tuples(st.just("us5"), st.integers(0, 40)).map(list),
                     st.tuples(st.just("abs"), st.integers(1, 6)).map(list))


def phrases(real):
    line = st.fixed_dictionaries(dict(p=st.just("line"), v=weighted([(0, 4), (1, 4), (2, 2), (3, 1)]),
                                      d=dur(("us2p5", "us5", "us2p5", "us5", "us200"))))
    long_idle = st.fixed_dictionaries(dict(p=st.just("line"), v=weighted([(1, 5), (0, 3), (2, 1)]),
                                           d=st.tuples(st.just("ms3"), st.integers(-3, 6)).map(list)))
    after_hs = st.fixed_dictionaries(dict(p=st.just("line"), v=weighted([(0, 3), (1, 3), (2, 1), (3, 1)]),
                                          d=st.tuples(st.just("us200"), st.integers(-3, 6)).map(list)))
    setsig = st.fixed_dictionaries(dict(p=st.just("set"), sig=weighted([("vbus", 3), ("disconnect", 2), ("fs_only", 3),
                                                                         ("ls_only", 1)]), v=st.integers(0, 1)))
    busy = st.fixed_dictionaries(dict(p=st.just("busy"), d=st.integers(1, 60)))
    pair = st.tuples(chirp_state(), chirp_state(), weighted([(0, 6), (1, 1), (2, 1)])).map(list)
    hs = st.fixed_dictionaries(dict(
        p=st.just("hs"), pre=st.integers(-2, 8), busy=weighted([(0, 4), (1, 1), (7, 1), (33, 1)]), own=st.integers(0, 1),
        wait=st.one_of(st.tuples(st.just("abs"), st.integers(3, 200)).map(list),
                       st.tuples(st.just("abs"), st.integers(3, 200)).map(list),
                       st.tuples(st.just("abs"), st.integers(-300, 2)).map(list),
                       st.tuples(st.just("ms2p5"), st.integers(-40, 10)).map(list)),
        pairs=st.lists(pair, min_size=0, max_size=5).flatmap(
            lambda ps: st.just(ps) if len(ps) != 0 else st.just(ps)),
        restrict=weighted([(0, 8), (1, 1), (2, 1)]),
        post=st.integers(1, 30)))
    hs_good = st.fixed_dictionaries(dict(
        p=st.just("hs"), pre=st.integers(2, 8), busy=weighted([(0, 4), (5, 1)]), own=st.integers(0, 1),
        wait=st.tuples(st.just("abs"), st.integers(3, 120)).map(list),
        pairs=st.lists(st.tuples(st.tuples(st.just("us2p5"), st.integers(2, 12)).map(list),
                                 st.tuples(st.just("us2p5"), st.integers(2, 12)).map(list), st.just(0)).map(list),
                       min_size=3, max_size=5),
        restrict=st.just(0), post=st.integers(1, 30),
        # what the host does once the device is at high speed: nothing / suspend then resume / suspend then
        # reset / reset (SE0 through the 200 us window) / confused line after 3 ms / restriction while at HS /
        # restriction arriving inside the 200 us reset-vs-suspend window / HS suspend+resume then FS suspend+resume
        then=weighted([(0, 3), (1, 2), (2, 1), (3, 2), (4, 1), (5, 1), (6, 1), (7, 1)]), o1=st.integers(-3, 6), o2=st.integers(-3, 6),
        o3=st.integers(1, 30)))
    if real:
        elems = st.one_of(line, line, line, setsig, busy, hs, hs_good, long_idle, after_hs)
        return long_lists(elems, min_size=1, max_size=6, average=3)
    elems = st.one_of(line, line, line, setsig, setsig, busy, hs, hs, hs_good, hs_good, long_idle, long_idle, after_hs,
                      after_hs)
    return long_lists(elems, min_size=1, max_size=16, average=6)


def expand(case, T):
    """phrases -> [(dur, {input changes})]; bus_busy pulses are bounded by construction."""
    ev = [(3, dict(INPUTS0))]
    pend = {}
    state = dict(INPUTS0)

    def D(d):
        return max(1, (T[d[0]] if d[0] != "abs" else 0) + d[1])

    def emit(n, **chg):
        chg2 = dict(pend)
        chg2.update(chg)
        pend.clear()
        # never both restrictions together (see ASSUMPTIONS)
        for a, b in (("fs_only", "ls_only"), ("ls_only", "fs_only")):
            if chg2.get(a) == 1 and (chg2.get(b, state[b]) == 1):
                chg2[b] = 0
        state.update(chg2)
        ev.append((max(1, n), chg2))

    for ph in case["ph"]:
        k = ph["p"]
        if k == "line":
            emit(D(ph["d"]), line_state=ph["v"])
        elif k == "set":
            pend[ph["sig"]] = ph["v"]
        elif k == "busy":
            emit(ph["d"], bus_busy=1)
            emit(1, bus_busy=0)
        else:
            # reset by SE0, device chirp window, host chirp train
            if state["line_state"] == 0:
                emit(2, line_state=1)
            emit(T["us5"] + ph["pre"], line_state=0)
            hold = T["ms2"] + D(ph["wait"]) if ph["wait"][0] != "abs" or ph["wait"][1] > 0 else \
                max(1, T["ms2"] + ph["wait"][1])
            if ph["busy"]:
                emit(ph["busy"], bus_busy=1, line_state=2 if ph["own"] else 0)
                emit(hold, bus_busy=0)
            else:
                emit(hold, line_state=2 if ph["own"] else 0)
            if ph["restrict"] == 1:
                pend["fs_only"] = 1
            for kd, jd, glitch in ph["pairs"]:
                if glitch == 1:
                    emit(max(1, D(kd) // 2), line_state=2)
                    emit(1, line_state=0)
                    emit(D(kd), line_state=2)
                else:
                    emit(D(kd), line_state=2)
                if glitch == 2:
                    emit(max(1, D(jd) // 2), line_state=1)
                    emit(2, line_state=3)
                emit(D(jd), line_state=1)
            if ph["restrict"] == 2:
                pend["fs_only"] = 1
            emit(ph["post"], line_state=0)
            then = ph.get("then", 0)
            if then in (1, 2):          # HS idle for 3 ms, bus floats to J: suspend; then resume K / reset SE0
                emit(T["ms3"] + ph["o1"], line_state=0)
                emit(T["us200"] + ph["o2"] + 4, line_state=1)
                emit(ph["o3"], line_state=1)
                if then == 1:
                    emit(ph["o3"], line_state=2)
                    emit(ph["o3"], line_state=0)
                else:
                    emit(T["us2p5"] + ph["o2"], line_state=0)
                    emit(3, line_state=1)
            elif then in (3, 4):        # reset from high speed / confused line
                emit(T["ms3"] + ph["o1"], line_state=0)
                emit(T["us200"] + ph["o2"] + 4, line_state=0 if then == 3 else 2 + (ph["o3"] & 1))
                emit(ph["o3"], line_state=1)
            elif then == 7:             # HS suspend + resume, drop to FS by a restriction pulse, FS suspend + resume
                emit(T["ms3"] + 4, line_state=0)
                emit(T["us200"] + 8, line_state=1)
                emit(ph["o3"], line_state=2)
                emit(ph["o3"], line_state=0)
                emit(4, fs_only=1)
                emit(T["ms3"] + ph["o1"] + 4, fs_only=0, line_state=1)
                emit(ph["o3"], line_state=2)
                emit(ph["o3"], line_state=1)
            elif then == 6:             # restriction arrives while the device discriminates HS reset from suspend
                emit(T["ms3"] + ph["o1"] + 4, line_state=0)
                emit(T["us200"] + ph["o2"] + 4, line_state=0, **{"ls_only" if ph["o1"] & 1 else "fs_only": 1})
                emit(ph["o3"], line_state=1)
            elif then == 5:             # restricted while operating at high speed
                which = "ls_only" if ph["o1"] & 1 else "fs_only"
                emit(ph["o3"], **{which: 1})
                emit(ph["o3"], line_state=1, **{which: 0})
    if pend:
        emit(4)
    emit(6)
    return ev


def timelines(ev):
    pts = {n: [] for n in INPUTS0}
    t = 0
    for n, chg in ev:
        for k, v in chg.items():
            pts[k].append((t, v))
        t += n
    return {k: O.Timeline(v, t) for k, v in pts.items()}, t


class _Base(Sub):
    shrink_budget = 120
    table = None

    def make_dut(self):
        raise NotImplementedError

    def setup(self):
        d = self.make_dut()
        ins = dict(line_state=d.line_state, vbus=d.vbus_connected, disconnect=d.disconnect, fs_only=d.full_speed_only,
                   ls_only=d.low_speed_only, bus_busy=d.bus_busy)
        outs = dict(bus_reset=d.bus_reset, suspended=d.suspended, speed=d.current_speed, op_mode=d.operating_mode,
                    term=d.termination_select, txv=d.tx.valid)
        self.h = EventHarness(d, ins, outs, domain="usb")

    def run(self, case):
        T = self.table
        ev = expand(case, T)
        ins, total = timelines(ev)
        log, tot2 = self.h.run(ev)
        if tot2 != total:
            raise RuntimeError(f"harness ran {tot2} cycles, expected {total}")
        verdict, labels = O.judge(T, ins, log, total)
        if verdict is not None:
            return fail(verdict[0] + f" [{total} cycles]", signature=verdict[1])
        handshake = "hs-by-handshake" in labels or "fallback-to-fs" in labels
        susp = any(l.startswith("suspend-from") for l in labels)
        if any(o.op_mode == 1 for _, o in log):
            labels.add("disconnect-non-driving")
        return Result(ok=True, nontrivial=handshake or susp, labels=tuple(sorted(labels)))


class RealConstants(_Base):
    name = "real"
    budget = {"quick": 48, "thorough": 3000}
    shrink_budget = 40
    table = O.REAL
    rule = ("USBResetSequencer with the shipped constants, driven by event lists (line-state phrases with durations a "
            "few cycles either side of 2.5 us / 5 us / 200 us / 2.5 ms / 3 ms, SE0 reset + host chirp trains with 0..5 "
            "K-J pairs of valid / marginal / short / glitched states arriving early, on time or late, VBUS loss, "
            "disconnect, speed restrictions, bus_busy); outputs recorded on change; oracle = necessary conditions "
            "computed from the input history for every bus_reset cycle, suspend entry, high-speed entry, chirp start, "
            "restriction while at high speed and chirp-handshake duration; non-trivial = a chirp handshake ran to "
            "high speed or to fallback, or a suspend was entered")

    def make_dut(self):
        from luna.gateware.usb.usb2.reset import USBResetSequencer
        return USBResetSequencer()

    def strategy(self):
        return st.fixed_dictionaries(dict(ph=phrases(True)))


class ScaledConstants(_Base):
    name = "scaled"
    budget = {"quick": 1000, "thorough": 60000}
    table = O.SCALED
    rule = ("same generator and oracle on a USBResetSequencer subclass whose _CYCLES_* constants are all divided by "
            "20 (deep FSM exploration: up to 16 phrases per case); non-trivial as for 'real'")

    def make_dut(self):
        from luna.gateware.usb.usb2.reset import USBResetSequencer
        T = O.SCALED

        class ScaledSequencer(USBResetSequencer):
            _CYCLES_500_NANOSECONDS = 2
            _CYCLES_1_MICROSECOND = 3
            _CYCLES_2P5_MICROSECONDS = T["us2p5"]
            _CYCLES_5_MICROSECONDS = T["us5"]
            _CYCLES_200_MICROSECONDS = T["us200"]
            _CYCLES_1_MILLISECONDS = T["ms1"]
            _CYCLES_2_MILLISECONDS = T["ms2"]
            _CYCLES_2P5_MILLISECONDS = T["ms2p5"]
            _CYCLES_3_MILLISECONDS = T["ms3"]
        return ScaledSequencer()

    def strategy(self):
        return st.fixed_dictionaries(dict(ph=phrases(False)))


SUBS = [RealConstants(), ScaledConstants()]
