"""C12 — endpoints only act on tokens for their own endpoint number and direction (metamorphic non-interference)."""
from hypothesis import strategies as st

from lunaverif.core import Sub, Result, fail
from lunaverif.gen import long_lists, weighted
from lunaverif.bfm import g9_usb2host as H
from lunaverif.bfm import g9_hostgen as G
from lunaverif.ref import g9_device_model as M

PROPERTY = "C12"
ASSUMPTIONS = [
    "full-speed device on a bare UTMI bus with bulk IN ep1, bulk OUT ep2, signal IN ep3, bulk IN ep4 and bulk OUT "
    "ep4 (one number, both directions), max packet 8, plus the standard control endpoint",
    "the device address stays 0 and no CLEAR_FEATURE is issued (both legitimately change what an endpoint does); "
    "control traffic is limited to GET_* requests and must-STALL requests",
    "host packets well formed with good CRCs; lost handshakes are modelled by withholding the host ACK or by "
    "re-using the previous OUT toggle",
    "re-runs keep everything but the bus traffic identical: same cycle for every kept packet, same tx_ready, "
    "stream producer/consumer patterns and feeds; the other endpoints' transactions become idle time of the "
    "length they took in the full run",
]

ENDPOINTS = [(1, "in"), (2, "out"), (3, "in"), (4, "in"), (4, "out")]
TABLE = ([dict(k="xin", ep=e, n=n, ack=a) for e in (1, 4, 4) for n in (1, 8, 9) for a in (1, 1, 0)]
         + [dict(k="in", ep=e, ack=a) for e in (1, 4, 4) for a in (1, 0)]
         + [dict(k="in", ep=3, ack=a) for a in (1, 1, 1, 1, 0, 0)]
         + [dict(k="out", ep=e, n=n, flip=0) for e in (2, 4, 4) for n in (0, 1, 5, 8, 8)]
         + [dict(k="out", ep=e, n=3, flip=1) for e in (2, 4, 4)]
         + [dict(k="ping", ep=2), dict(k="ping", ep=4)]
         + [dict(k="feed", ep=e, n=n, last=l) for e in (1, 4) for n, l in ((2, 0), (8, 0), (17, 1))]
         + [dict(k="sig", v=0xBEEF), dict(k="sig", v=0x0102), dict(k="sof"), dict(k="idle", n=4), dict(k="idle", n=25)]
         # tokens that carry an endpoint's number but not its direction, or no endpoint's number at all
         + [dict(k="out", ep=1, n=3, flip=0), dict(k="ping", ep=1), dict(k="in", ep=2, ack=1), dict(k="out", ep=3, n=2, flip=0),
            dict(k="ping", ep=3), dict(k="in", ep=5, ack=1), dict(k="out", ep=6, n=1, flip=0)])
CTRL = [dict(k="ctrl", req=r, cut=c, noack=0, mid=[]) for r, c in (
    ([0x80, 6, 0x0100, 0, 18], 0), ([0x80, 6, 0x0302, 0, 255], 0), ([0x80, 8, 0, 0, 1], 0), ([0x80, 0, 0, 0, 2], 0),
    ([0x80, 6, 0x0100, 0, 18], 1), ([0x80, 6, 0x0302, 0, 255], 2), ([0x40, 3, 0, 0, 0], 0), ([0xC0, 3, 0, 0, 8], 0))]


def target(op):
    k = op["op"]
    if k == "in":
        return (op["ep"], "in")
    if k in ("out", "ping"):
        return (op["ep"], "out")
    if k == "setup":
        return (0, "out")
    return None


class NonInterference(Sub):
    name = "isolation"
    budget = {"quick": 600, "thorough": 10000}
    shrink_budget = 120
    rule = ("histories of 2..16 interleaved items over five non-control endpoints (same number/different direction "
            "included): IN with and without host ACK, feeds, OUT in and out of sequence, zero-length and FIFO-filling "
            "OUTs, PINGs, tokens naming an endpoint's number with the wrong direction or an absent number, SOFs, GET_* "
            "and must-STALL control transfers; the full history is simulated once, then once for each of up to three endpoints e (generated choice, endpoints with traffic first) with every "
            "transaction not addressed to e replaced by idle time of equal length; e's responses (handshake / data "
            "PID / payload, per transaction), and its delivered OUT stream must be identical in both runs, and tokens "
            "naming no existing endpoint side must stay unanswered; a closing transaction per endpoint exposes the "
            "final toggle; non-trivial = at least two endpoints have >= 2 transactions each and two of the endpoints "
            "used share a number")

    def setup(self):
        self.rig = H.rig("full")

    def strategy(self):
        top = st.one_of(st.sampled_from(TABLE), st.sampled_from(TABLE), st.sampled_from(TABLE), st.sampled_from(TABLE),
                        st.sampled_from(CTRL))
        return st.fixed_dictionaries(dict(items=long_lists(top, min_size=2, max_size=16, average=9), pick=st.integers(0, 4),
                                          **G.env_fields()))

    def run(self, case):
        b = G.Builder(self.rig.descriptors)
        for it in case["items"]:
            b.item(it)
        body_len = len(b.prog)
        for it in (dict(k="feed", ep=1, n=2, last=1), dict(k="feed", ep=4, n=2, last=1), dict(k="idle", n=12),
                   dict(k="in", ep=1, ack=1), dict(k="out", ep=2, n=1, flip=0), dict(k="in", ep=3, ack=1),
                   dict(k="in", ep=4, ack=1), dict(k="out", ep=4, n=1, flip=0)):
            b.item(it)
        env = G.env_of(case)
        full = H.execute("full", b.prog, judge=False, **env)
        if full.violation is not None:
            v = full.violation
            return fail("full run: " + v["msg"], signature=v["cls"])
        # direct part: tokens that name no existing endpoint side are never answered
        for t in full.txns:
            tg = target(b.prog[t["i"]])
            if tg is not None and tg[0] != 0 and tg not in ENDPOINTS and t["resp"] != M.NONE:
                return fail(f"op {t['i']}: {t['kind'].upper()} token for endpoint {tg[0]} ({tg[1]} side does not exist) was "
                            f"answered with {M.show(t['resp'])}", signature=f"answered-{t['kind']}-for-absent-ep{tg[0]}{tg[1]}")
        counts = {}
        for t in full.txns:
            tg = target(b.prog[t["i"]])
            if tg in ENDPOINTS and t["i"] < body_len:
                counts[tg] = counts.get(tg, 0) + 1
        labels = set()
        # up to three endpoints per case are re-run alone (those with traffic first; `pick` rotates the choice)
        order = ENDPOINTS[case["pick"]:] + ENDPOINTS[:case["pick"]]
        chosen = ([e for e in order if counts.get(e)] + [e for e in order if not counts.get(e)])[:3]
        for e in chosen:
            keep = (lambda op, e=e: op["op"] == "idle" or target(op) == e)
            alone = H.execute("full", b.prog, judge=False, keep=keep, durations=full.durations, **env)
            if alone.violation is not None:
                v = alone.violation
                return fail(f"run with only ep{e[0]}{e[1]} traffic: " + v["msg"], signature=v["cls"] + "-alone")
            mine = [(t["i"], t["resp"], t["ack"]) for t in full.txns if target(b.prog[t["i"]]) == e]
            solo = [(t["i"], t["resp"], t["ack"]) for t in alone.txns]
            if mine != solo:
                for x, y in zip(mine, solo):
                    if x != y:
                        other = sorted({f"ep{tg[0]}{tg[1]}" for tt in full.txns if tt["i"] < x[0]
                                        for tg in [target(b.prog[tt["i"]])] if tg is not None and tg != e})
                        kind = "pid" if (x[1][0] == y[1][0] == "data" and x[1][2] == y[1][2]) else \
                            ("payload" if x[1][0] == y[1][0] == "data" else "response")
                        return fail(f"endpoint {e[0]} {e[1]}, op {x[0]}: answered {M.show(x[1])} amid other endpoints' "
                                    f"traffic ({', '.join(other)}) but {M.show(y[1])} when that traffic is replaced by idle "
                                    f"time", signature=f"interference-{kind}-ep{e[0]}{e[1]}")
                return fail(f"endpoint {e}: different number of transactions in the two runs (harness)", signature="harness")
            if e[1] == "out":
                a, s = full.model.eps[e], alone.model.eps[e]
                if (a.consumed, a.flags) != (s.consumed, s.flags):
                    return fail(f"endpoint {e[0]} OUT delivered {bytes(a.consumed).hex()} (first/last flags {a.flags}) amid other "
                                f"traffic but {bytes(s.consumed).hex()} ({s.flags}) alone", signature=f"interference-stream-ep{e[0]}out")
            else:
                a, s = full.model.eps[e], alone.model.eps[e]
                if hasattr(a, "accepted") and a.accepted != s.accepted:
                    return fail(f"endpoint {e[0]} IN accepted {len(a.accepted)} stream bytes amid other traffic, "
                                f"{len(s.accepted)} alone", signature=f"interference-accept-ep{e[0]}in")
        busy = [e for e, n in counts.items() if n >= 2]
        used = set(counts)
        pair = (4, "in") in used and (4, "out") in used
        for e, n in counts.items():
            labels.add(f"ep{e[0]}{e[1]}-used")
        if pair:
            labels.add("same-number-pair-used")
        for t in full.txns:
            tg = target(b.prog[t["i"]])
            if tg is not None and tg[0] != 0 and tg not in ENDPOINTS:
                labels.add("wrong-direction-or-absent-token")
            if tg == (0, "out") or (tg is not None and tg[0] == 0):
                labels.add("control-traffic-interleaved")
            if t["resp"] == M.NAK:
                labels.add("NAK")
            if t["kind"] == "in" and t["resp"][0] == "data" and not t["ack"]:
                labels.add("lost-host-ack")
        return Result(ok=True, nontrivial=len(busy) >= 2 and pair, labels=tuple(sorted(labels)))


SUBS = [NonInterference()]
