"""C52 — The I2C initiator follows the I2C bus protocol."""

from hypothesis import strategies as st

from lunaverif.core import Sub, Result, fail
from lunaverif.gen import weighted
from lunaverif.simkit import CycleHarness

PROPERTY = "C52"
ASSUMPTIONS = [
    "open-drain bus model: each wire is the AND of the initiator's pad (o | ~oe) and the target's release signal, "
    "fed back combinationally to the pad inputs (the DUT has its own 2-FF synchroniser)",
    "the user asserts exactly one of start/stop/write/read for one cycle, only after it has seen busy low in an "
    "earlier cycle (as I2CRegisterInterface does); data_i / ack_i are valid in that cycle",
    "operation sequences are I2C messages: START, address byte, then writes (R/W=0) or reads (R/W=1, "
    "ack_i=1 on all but the last byte, at least one byte), optional repeated START + further segment, STOP; after a target NAK the "
    "user goes straight to repeated START or STOP",
    "two further sequences in which the initiator itself holds SDA low when START is strobed are generated, because the "
    "interface allows them (docstring: 'when busy is low, asserting start generates a start or repeated start "
    "condition', no precondition; the FSM's START-SCL-L/START-SDA-H path exists only to release the initiator's own "
    "SDA first, and LUNA's test_repeated_start exercises exactly sda_o=0 + start) and the statement quantifies over all "
    "operation sequences: (a) START directly after START (1-2 extra STARTs before a segment; I2C requires targets to "
    "re-arm on a START at any position), (b) a read segment whose last byte the user ACKs, followed by repeated START "
    "or STOP -- a message-format liberty of the *user*; the target then owns SDA for the next byte, so only next bytes "
    "with MSB=1 (target leaves SDA released) are generated: with MSB=0 no START can appear on the wire whatever the "
    "initiator does",
    "the target is an autonomous I2C target BFM: it changes SDA only while SCL is low (>= 1 cycle before SCL can "
    "rise), decodes R/W from the address byte it samples at SCL rising edges, may hold SCL low for a generated "
    "number of cycles after any SCL falling edge (only when clk_stretch=True), and reacts to bus edges one cycle "
    "after they occur",
    "'SCL high' for the SDA-stability rule means the SCL wire is high in the cycle before or the cycle of the change",
]

# (period_cyc, clk_stretch, scl_push_pull)
CONFIGS = [(4, True, False), (5, True, False), (6, True, False), (8, True, False), (11, True, False),
           (16, True, False), (24, True, False), (40, True, False),
           (4, False, False), (8, False, False), (13, False, False), (8, False, True), (20, False, True)]


def make_bench(period, stretch, pushpull):
    from amaranth import Elaboratable, Module, Signal
    from amaranth.hdl.rec import Record, DIR_FANIN, DIR_FANOUT
    from luna.gateware.interface.i2c import I2CBus, I2CInitiator

    class Bench(Elaboratable):
        def __init__(self):
            if pushpull:
                self.pads = Record([
                    ('scl', [('o', 1, DIR_FANOUT)]),
                    ('sda', [('i', 1, DIR_FANIN), ('o', 1, DIR_FANOUT), ('oe', 1, DIR_FANOUT)]),
                ])
            else:
                self.pads = I2CBus()
            self.dut = I2CInitiator(self.pads, period, clk_stretch=stretch)
            self.t_scl = Signal(init=1)
            self.t_sda = Signal(init=1)
            self.w_scl = Signal()
            self.w_sda = Signal()
            self.d_scl = Signal()
            self.d_sda = Signal()

        def elaborate(self, platform):
            m = Module()
            m.submodules.dut = self.dut
            p = self.pads
            if pushpull:
                m.d.comb += self.d_scl.eq(p.scl.o)
            else:
                m.d.comb += self.d_scl.eq(p.scl.o | ~p.scl.oe)
            m.d.comb += [
                self.d_sda.eq(p.sda.o | ~p.sda.oe),
                self.w_scl.eq(self.d_scl & self.t_scl),
                self.w_sda.eq(self.d_sda & self.t_sda),
                p.sda.i.eq(self.w_sda),
            ]
            if not pushpull:
                m.d.comb += p.scl.i.eq(self.w_scl)
            return m

    b = Bench()
    d = b.dut
    ins = dict(start=d.start, stop=d.stop, write=d.write, read=d.read, data_i=d.data_i, ack_i=d.ack_i,
               t_scl=b.t_scl, t_sda=b.t_sda)
    outs = dict(w_scl=b.w_scl, w_sda=b.w_sda, d_scl=b.d_scl, d_sda=b.d_sda, busy=d.busy, ack_o=d.ack_o,
                data_o=d.data_o)
    return CycleHarness(b, ins, outs)


def build_ops(case):
    """Flatten the message description into initiator operations and the target's script."""
    ops = []          # dict(kind, data, ack_i, exp_ack, exp_byte, rep)
    acks = []         # target's ACK decisions for received bytes, in order
    txbytes = []      # bytes the target transmits, in order
    for msg in case["msgs"]:
        for si, seg in enumerate(msg["segs"]):
            for _ in range(seg.get("xs", 0)):
                # START directly followed by START: the second one finds the initiator's own SDA drive low
                ops.append(dict(kind="start", rep=si > 0 or _ > 0, again=True))
            ops.append(dict(kind="start", rep=si > 0 or seg.get("xs", 0) > 0))
            ab = ((seg["addr"] & 0x7F) << 1) | seg["rw"]
            ops.append(dict(kind="write", data=ab, exp_ack=int(seg["aack"]), address=True))
            acks.append(int(seg["aack"]))
            if not seg["aack"]:
                continue
            data = list(seg["bytes"])
            if seg["rw"] == 1 and not data:
                data = [(0xA5, True)]     # an addressed-for-read target owns SDA until a byte was read and NAKed
            nb = len(data)
            for bi, (val, ack) in enumerate(data):
                if seg["rw"] == 0:
                    ops.append(dict(kind="write", data=val & 0xFF, exp_ack=int(ack)))
                    acks.append(int(ack))
                    if not ack:
                        break
                else:
                    last = bi == nb - 1
                    acked_last = last and bool(seg.get("lastack"))
                    ops.append(dict(kind="read", ack_i=0 if last and not acked_last else 1, exp_byte=val & 0xFF,
                                    acked_last=acked_last))
                    txbytes.append(val & 0xFF)
                    if acked_last and si + 1 < len(msg["segs"]):
                        # the target starts its next byte at the SCL falling edge of the repeated START: MSB = 1
                        txbytes.append(0x80 | (seg.get("ab", 0x7F) & 0x7F))
        ops.append(dict(kind="stop"))
    return ops, acks, txbytes


class Driver:
    def __init__(self, case, ops, acks, txbytes, allow_stretch):
        self.case = case
        self.ops = ops
        self.k = 0
        self.ust = "wait"
        self.issue = []                  # cycle at which op k was strobed
        self.cur = dict(start=0, stop=0, write=0, read=0, data_i=0, ack_i=0, t_scl=1, t_sda=1)
        # target
        self.acks = list(acks)
        self.tx = list(txbytes)
        self.stretch = case["stretch"] if allow_stretch else [0]
        self.sdad = case["sdad"] or [0]
        self.nfall = 0
        self.tstate = "idle"
        self.nbits = 0
        self.shift = 0
        self.first = False
        self.myack = 0
        self.inack = 0
        self.txbyte = 0
        self.last = (1, 1)
        self.hold = 0                    # remaining cycles of SCL hold
        self.sda_timer = None
        self.sda_next = 1
        self.rx_log = []
        self.tx_log = []
        self.end = None

    def target(self, prev):
        c = self.cur
        if prev is None:
            return
        scl, sda = prev.w_scl, prev.w_sda
        pscl, psda = self.last
        self.last = (scl, sda)
        # pending SDA change / SCL hold
        if self.sda_timer is not None:
            if self.sda_timer == 0:
                c["t_sda"] = self.sda_next
                self.sda_timer = None
            else:
                self.sda_timer -= 1
        if self.hold > 0:
            self.hold -= 1
            if self.hold == 0:
                c["t_scl"] = 1
        if pscl and scl and psda and not sda:                 # START
            self.tstate = "rx"
            self.nbits = 0
            self.shift = 0
            self.first = True
            return
        if pscl and scl and not psda and sda:                 # STOP
            self.tstate = "idle"
            return
        if self.tstate == "idle":
            return
        if not pscl and scl:                                  # rising edge: sample
            if self.nbits < 8:
                self.shift = ((self.shift << 1) | sda) & 0xFF
            else:
                self.inack = 1 - sda
                if self.tstate == "rx":
                    self.rx_log.append(self.shift)
            self.nbits += 1
            return
        if pscl and not scl:                                  # falling edge: next bit
            if self.nbits == 9:
                if self.tstate == "rx":
                    if not self.myack:
                        self.tstate = "idle"
                    elif self.first and (self.shift & 1):
                        self.tstate = "tx"
                    self.first = False
                else:
                    if not self.inack:
                        self.tstate = "idle"
                self.nbits = 0
                self.shift = 0
            elif self.nbits != 0 and self.nbits != 8 and self.tstate != "idle":
                pass
            if self.tstate == "idle":
                want = 1
            elif self.tstate == "rx":
                if self.nbits < 8:
                    want = 1
                else:
                    self.myack = self.acks.pop(0) if self.acks else 0
                    want = 0 if self.myack else 1
            else:
                if self.nbits == 0:
                    self.txbyte = self.tx.pop(0) if self.tx else 0xFF
                    self.tx_log.append(self.txbyte)
                want = ((self.txbyte >> (7 - self.nbits)) & 1) if self.nbits < 8 else 1
            s = self.stretch[self.nfall % len(self.stretch)]
            d = self.sdad[self.nfall % len(self.sdad)]
            self.nfall += 1
            if s > 0:
                c["t_scl"] = 0
                self.hold = s
                d = min(d, s - 1)
            else:
                d = min(d, 1)
            if d == 0:
                c["t_sda"] = want
                self.sda_timer = None
            else:
                self.sda_next = want
                self.sda_timer = d - 1

    def step(self, t, prev):
        c = self.cur
        self.target(prev)
        c["start"] = c["stop"] = c["write"] = c["read"] = 0
        if self.ust == "wait":
            if prev is not None and not prev.busy:
                dl = self.case["delays"] or [0]
                self.wait = dl[self.k % len(dl)]
                self.ust = "delay"
        if self.ust == "delay":
            if self.wait == 0:
                if self.k >= len(self.ops):
                    self.ust = "done"
                    self.end = t + 4
                else:
                    op = self.ops[self.k]
                    c[op["kind"]] = 1
                    if op["kind"] == "write":
                        c["data_i"] = op["data"]
                    if op["kind"] == "read":
                        c["ack_i"] = op["ack_i"]
                    self.issue.append(t)
                    self.k += 1
                    self.ust = "issued"
            else:
                self.wait -= 1
        elif self.ust == "issued":
            # scramble the data inputs after the strobe: they must have been latched
            c["data_i"] = (c["data_i"] ^ 0xFF) & 0xFF
            c["ack_i"] = 1 - c["ack_i"]
            self.ust = "wait1"
        elif self.ust == "wait1":
            self.ust = "wait"
        if self.ust == "done" and t >= self.end:
            return None
        return dict(c)


class I2CSub(Sub):
    name = "initiator"
    budget = {"quick": 5000, "thorough": 80000}
    rule = ("1..2 I2C messages (START, address, 0..3 data writes or reads, optional repeated START + second segment, "
            "STOP; 1 segment in 3 preceded by 1-2 extra STARTs, 1 read segment in 4 ends with an ACKed byte) on 13 configurations (period_cyc 4..40, clk_stretch on/off, open-drain or push-pull SCL) against an "
            "autonomous target BFM (ACK/NAK choices, read data, SCL held low 0..30 cycles after falling edges, SDA "
            "change delays); oracle = wire-level decoder per operation window (issue .. busy falling): START/STOP "
            "events, 9 SCL pulses per byte, bits MSB first, ack_o/data_o/driven ACK, plus: initiator SDA drive "
            "changes next to a high SCL only as the requested START/STOP, no initiator drive change outside a window; "
            "non-trivial = >= 2 byte operations and (a clock stretch visible on the wire or a repeated START)")

    def setup(self):
        self.h = {}

    def harness(self, ci):
        if ci not in self.h:
            self.h[ci] = make_bench(*CONFIGS[ci])
        return self.h[ci]

    def strategy(self):
        byte = st.one_of(st.integers(0, 255), st.sampled_from([0x00, 0xFF, 0x80, 0x01, 0xAA, 0x55]))
        seg = st.fixed_dictionaries(dict(
            addr=st.integers(0, 127), rw=st.integers(0, 1), aack=weighted([(True, 5), (False, 1)]),
            bytes=st.lists(st.tuples(byte, weighted([(True, 4), (False, 1)])), min_size=0, max_size=3),
            xs=weighted([(0, 6), (1, 2), (2, 1)]), lastack=weighted([(False, 3), (True, 1)]), ab=st.integers(0, 127),
        ))
        msg = st.fixed_dictionaries(dict(segs=st.lists(seg, min_size=1, max_size=2)))
        return st.fixed_dictionaries(dict(
            cfg=weighted([(i, 6 if CONFIGS[i][0] <= 8 else (2 if CONFIGS[i][0] <= 16 else 1)) for i in range(len(CONFIGS))]),
            msgs=st.lists(msg, min_size=1, max_size=2),
            delays=st.lists(weighted([(0, 4), (1, 1), (3, 1), (7, 1)]), min_size=1, max_size=4),
            stretch=st.lists(weighted([(0, 3), (1, 1), (3, 1), (7, 2), (12, 2), (30, 1)]), min_size=1, max_size=9),
            sdad=st.lists(st.integers(0, 6), min_size=1, max_size=5),
        ))

    def run(self, case):
        ci = case["cfg"]
        period, stretch_ok, pushpull = CONFIGS[ci]
        ops, acks, txbytes = build_ops(case)
        drv = Driver(case, ops, acks, txbytes, stretch_ok)
        quarter = period // 4 + 4
        budget = 300 + len(ops) * (48 * quarter + 11 * (max(case["stretch"]) + 3)) + (max(case["delays"]) + 2) * len(ops)
        trace = self.harness(ci).run_driver(drv, budget)
        cfg = f"period_cyc={period} clk_stretch={stretch_ok} scl={'push-pull' if pushpull else 'open-drain'}"
        if drv.ust != "done":
            k = drv.k - 1
            return fail(f"{cfg}: operation {k} ({ops[k]['kind'] if 0 <= k < len(ops) else '-'}) issued in cycle "
                        f"{drv.issue[-1] if drv.issue else '-'} never completed (busy stuck high, {len(trace)} cycles)",
                        signature="operation-never-completes")
        n = len(trace)
        # ---- operation windows
        wins = []
        for k, tk in enumerate(drv.issue):
            if trace[tk].busy:
                return fail(f"{cfg}: op {k} strobed in cycle {tk} although busy is high (harness)", signature="harness")
            f = tk + 1
            while f < n and trace[f].busy:
                f += 1
            if f == tk + 1:
                return fail(f"{cfg}: op {k} ({ops[k]['kind']}) strobed in cycle {tk} with busy low was not accepted "
                            f"(busy stayed low)", signature="op-not-accepted")
            wins.append((tk, f))
        # ---- global rules on the initiator's drive
        def win_of(t):
            for k, (a, b) in enumerate(wins):
                if a <= t <= b:
                    return k
            return None
        stretched = False
        for t in range(1, n):
            o, p = trace[t], trace[t - 1]
            if o.d_scl and not o.w_scl and p.d_scl and not p.w_scl:
                stretched = True
            if o.d_scl != p.d_scl or o.d_sda != p.d_sda:
                k = win_of(t)
                if k is None:
                    return fail(f"{cfg}: initiator changed its {'SCL' if o.d_scl != p.d_scl else 'SDA'} drive in cycle "
                                f"{t} outside any operation (busy={o.busy})", signature="drive-change-while-idle")
            if o.d_sda != p.d_sda and (o.w_scl or p.w_scl):
                k = win_of(t)
                kind = ops[k]["kind"] if k is not None else None
                falling = p.d_sda and not o.d_sda
                if not ((kind == "start" and falling) or (kind == "stop" and not falling)):
                    return fail(f"{cfg}: initiator {'pulled SDA low' if falling else 'released SDA'} in cycle {t} with SCL "
                                f"high during op {k} ({kind})", signature=f"sda-change-while-scl-high-in-{kind}")
        # ---- per-operation decode
        nbytes = 0
        rep = False
        for k, (a, b) in enumerate(wins):
            op = ops[k]
            ev = []
            for t in range(max(a, 1), b + 1):
                o, p = trace[t], trace[t - 1]
                if p.w_scl and o.w_scl and p.w_sda and not o.w_sda:
                    ev.append(("START", t))
                elif p.w_scl and o.w_scl and not p.w_sda and o.w_sda:
                    ev.append(("STOP", t))
                elif not p.w_scl and o.w_scl:
                    ev.append(("RISE", t, o.w_sda, o.d_sda))
            cond = [e[0] for e in ev if e[0] != "RISE"]
            rises = [e for e in ev if e[0] == "RISE"]
            what = f"{cfg}: op {k} ({op['kind']}{' 0x%02x' % op['data'] if op['kind'] == 'write' else ''}, cycles {a}..{b})"
            if op["kind"] == "start":
                if cond != ["START"] or len(rises) > 1:
                    return fail(f"{what}: bus showed {cond} and {len(rises)} clock pulses, expected exactly one START",
                                signature="bad-start-condition" + ("-repeated" if op["rep"] else ""))
                rep |= op["rep"]
            elif op["kind"] == "stop":
                if cond != ["STOP"] or len(rises) > 1:
                    return fail(f"{what}: bus showed {cond} and {len(rises)} clock pulses, expected exactly one STOP",
                                signature="bad-stop-condition")
            else:
                nbytes += 1
                if cond or len(rises) != 9:
                    return fail(f"{what}: bus showed {cond} and {len(rises)} clock pulses, expected 9 pulses and no "
                                f"START/STOP", signature="bad-byte-framing")
                bits = 0
                for e in rises[:8]:
                    bits = (bits << 1) | e[2]
                ackbit = 1 - rises[8][2]
                if op["kind"] == "write":
                    if bits != op["data"]:
                        return fail(f"{what}: bits on the wire MSB first = 0x{bits:02x}", signature="wrong-write-bits")
                    if not rises[8][3]:
                        return fail(f"{what}: initiator drives SDA low during the acknowledge clock",
                                    signature="initiator-drives-ack-of-write")
                    if ackbit != op["exp_ack"]:
                        return fail(f"{what}: target {'ACKed' if op['exp_ack'] else 'NAKed'} but the wire showed "
                                    f"{'ACK' if ackbit else 'NAK'}", signature="ack-wire-mismatch")
                    if trace[b].ack_o != op["exp_ack"]:
                        return fail(f"{what}: ack_o={trace[b].ack_o} when busy fell, target "
                                    f"{'ACKed' if op['exp_ack'] else 'NAKed'}", signature="wrong-ack-o")
                else:
                    if any(not e[3] for e in rises[:8]):
                        return fail(f"{what}: initiator drives SDA low while reading data bits", signature="drives-during-read")
                    if bits != op["exp_byte"]:
                        return fail(f"{what}: wire carried 0x{bits:02x}, target sent 0x{op['exp_byte']:02x} (harness)",
                                    signature="harness-read-bits")
                    if trace[b].data_o != op["exp_byte"]:
                        return fail(f"{what}: data_o=0x{trace[b].data_o:02x} when busy fell, target sent "
                                    f"0x{op['exp_byte']:02x}", signature="wrong-data-o")
                    if ackbit != op["ack_i"]:
                        return fail(f"{what}: requested ack_i={op['ack_i']} but the wire showed "
                                    f"{'ACK' if ackbit else 'NAK'}", signature="wrong-read-ack")
        want_rx = [o["data"] for o in ops if o["kind"] == "write"]
        if drv.rx_log != want_rx:
            return fail(f"{cfg}: target received {[hex(x) for x in drv.rx_log]}, initiator was asked to write "
                        f"{[hex(x) for x in want_rx]}", signature="target-received-wrong-bytes")
        labels = {f"period={period}", "stretch-cfg" if stretch_ok else ("pushpull" if pushpull else "nostretch-cfg")}
        if stretched:
            labels.add("stretch-visible")
        if rep:
            labels.add("repeated-start")
        if any(o.get("again") for o in ops):
            labels.add("start-after-start")
        for k, o in enumerate(ops[:-1]):
            if o.get("acked_last"):
                labels.add("acked-read-then-" + ops[k + 1]["kind"])
        if any(o["kind"] == "read" for o in ops):
            labels.add("read")
        if any(o["kind"] == "write" and not o.get("address") for o in ops):
            labels.add("data-write")
        if any(o["kind"] == "write" and not o["exp_ack"] for o in ops):
            labels.add("target-nak")
        return Result(ok=True, nontrivial=nbytes >= 2 and (stretched or rep), labels=tuple(sorted(labels)))


SUBS = [I2CSub()]
