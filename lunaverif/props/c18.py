"""C18 — TransactionalizedFIFO behaves as a commit/rollback queue."""

from hypothesis import strategies as st

from lunaverif.core import Sub, Result, fail
from lunaverif.gen import long_lists
from lunaverif.simkit import CycleHarness
from lunaverif.ref.queues import TransactionalQueue

PROPERTY = "C18"
ASSUMPTIONS = [
    "write_commit & write_discard (and read_commit & read_discard) are never asserted in the same cycle "
    "(no caller does; the statement is silent about it)",
    "strobes act on the state at the start of the cycle (a commit does not include a same-cycle write/read)",
]

CONFIGS = [(w, d) for d in (1, 2, 3, 4, 5, 7, 8, 16, 17) for w in (8,)] + [(1, 3), (16, 6), (3, 2), (12, 9)]

# op code = we + 2*wctl + 6*re + 12*rctl ; wctl/rctl: 0 none, 1 commit, 2 discard
_W = []
for we in (0, 1):
    for wctl, pw in ((0, 6), (1, 3), (2, 1)):
        for re in (0, 1):
            for rctl, pr in ((0, 5), (1, 4), (2, 1)):
                _W += [we + 2 * wctl + 6 * re + 12 * rctl] * (pw * pr * (3 if we else 2))
_W.sort()


def decode(op):
    return op % 2, (op // 2) % 3, (op // 6) % 2, (op // 12) % 3


class FifoSub(Sub):
    name = "fifo"
    budget = {"quick": 30000, "thorough": 1000000}
    rule = ("per-cycle vectors (write_en,data,commit|discard,read_en,commit|discard) on (width,depth) configs incl. "
            "non-power-of-two depths, compared every cycle with an absolute-index commit/rollback queue model, then "
            "drained; non-trivial = a discard after the write pointer wrapped AND a cycle with an effective read and "
            "write together")

    def setup(self):
        self.h = {}

    def harness(self, width, depth):
        key = (width, depth)
        if key not in self.h:
            from luna.gateware.memory import TransactionalizedFIFO
            dut = TransactionalizedFIFO(width=width, depth=depth)
            ins = dict(we=dut.write_en, wd=dut.write_data, wc=dut.write_commit, wx=dut.write_discard,
                       re=dut.read_en, rc=dut.read_commit, rx=dut.read_discard)
            outs = dict(rd=dut.read_data, empty=dut.empty, full=dut.full, space=dut.space_available)
            self.h[key] = CycleHarness(dut, ins, outs)
        return self.h[key]

    def strategy(self):
        return st.fixed_dictionaries(dict(
            cfg=st.integers(0, len(CONFIGS) - 1),
            ops=long_lists(st.tuples(st.sampled_from(_W), st.integers(0, 0xFFFF)), min_size=1, max_size=150, average=60),
        ))

    def run(self, case):
        width, depth = CONFIGS[case["cfg"]]
        mask = (1 << width) - 1
        script = []
        for op, d in case["ops"]:
            we, wctl, re, rctl = decode(op)
            script.append(dict(we=we, wd=d & mask, wc=int(wctl == 1), wx=int(wctl == 2),
                               re=re, rc=int(rctl == 1), rx=int(rctl == 2)))
        # drain: commit pending writes, then read everything out with commits
        script.append(dict(we=0, wd=0, wc=1, wx=0, re=0, rc=1, rx=0))
        script += [dict(we=0, wd=0, wc=0, wx=0, re=1, rc=1, rx=0)] * (depth + 2)
        trace = self.harness(width, depth).run_script(script)

        q = TransactionalQueue(depth)
        wrapped_discard = False
        simul = False
        labels = set()
        prev = None
        for t, (vec, o) in enumerate(zip(script, trace)):
            exp = dict(empty=int(q.empty), full=int(q.full), space=q.space)
            got = dict(empty=o.empty, full=o.full, space=o.space)
            if not q.empty:
                exp["rd"] = q.head
                got["rd"] = o.rd
            if exp != got:
                bad = [k for k in exp if exp[k] != got[k]]
                sig = "mismatch-" + "+".join(bad)
                if bad == ["rd"] and prev is not None and prev["rx"]:
                    sig = "stale-read-data-after-read-discard"
                return fail(f"cfg width={width} depth={depth} cycle {t}: expected {exp} got {got} (inputs {vec})",
                            signature=sig)
            if (vec["wx"] or vec["rx"]) and q.w > depth:
                wrapped_discard = True
            do_w, do_r = q.step(vec["we"], vec["wd"], vec["wc"], vec["wx"], vec["re"], vec["rc"], vec["rx"])
            if do_w and do_r:
                simul = True
            if vec["we"] and not do_w:
                labels.add("write-while-full")
            if vec["re"] and not do_r:
                labels.add("read-while-empty")
            if vec["wx"]:
                labels.add("write-discard")
            if vec["rx"]:
                labels.add("read-discard")
            prev = vec
        if not q.empty:
            return fail("model not drained (harness bug)", signature="harness")
        if wrapped_discard:
            labels.add("discard-after-wrap")
        if simul:
            labels.add("simultaneous-rw")
        labels.add(f"depth={depth}")
        return Result(ok=True, nontrivial=wrapped_discard and simul, labels=tuple(sorted(labels)))


SUBS = [FifoSub()]
