"""C40 — each received data packet is reported good or bad exactly once."""
from hypothesis import strategies as st

from lunaverif.core import Sub, Result, fail, HarnessError
from lunaverif.gen import long_lists, weighted, bits
from lunaverif.simkit import CycleHarness
from lunaverif.ref import g4_usb3 as R

PROPERTY = "C40"
ASSUMPTIONS = [
    "the receive path delivers (valid,data,ctrl) per cycle; not-valid words may carry any data (the CTC remover "
    "outputs zeros, the descrambler may turn them into LFSR values) and may appear at any position",
    "a data packet = data header packet (type DATA) directly followed by SDP-SDP-SDP-EPF, data-length payload "
    "bytes, CRC-32, END-END-END-EPF (padding: logical idle), or cut short by EDB-EDB-EDB-EPF (aborted DPP)",
    "data-length is at most 1024 bytes, the SuperSpeed maximum packet size (DataPacketReceiver.MAX_PACKET_SIZE); "
    "longer announcements are not generated",
    "for a packet whose *header* CRCs are invalid the statement is read conservatively: it must never be reported "
    "good and at most one 'bad' may be reported (the link layer cannot know such a header announced a payload)",
]

MAXLEN = 40
MAXPKT = 1024         # SuperSpeed maximum packet size: the largest data-length a partner may announce


def expand_payload(it):
    """Payload bytes of a packet item.  Short packets carry them literally (``payload``); long ones are described
    compactly as ``gen`` = [length, mode, seed] (a 1024-element list per packet would exhaust Hypothesis' buffer):
    mode 0 = bytes of a fixed linear congruential sequence started at ``seed``, 1 = all zero, 2 = all 0xFF,
    3 = zero except every (seed % 7 + 2)-th byte.  A pure function of the case."""
    if "gen" not in it:
        return bytes(it["payload"])
    L, mode, seed = it["gen"]
    if mode == 1:
        return bytes(L)
    if mode == 2:
        return b"\xff" * L
    out = bytearray(L)
    x = seed & 0x7FFFFFFF
    for i in range(L):
        x = (x * 1103515245 + 12345) & 0x7FFFFFFF
        if mode == 0 or i % (seed % 7 + 2) == 0:
            out[i] = (x >> 16) & 0xFF
    return bytes(out)


# ---------------------------------------------------------------------------------------- stimulus construction
def _inv_word(kind, data, ctx_prev, ctx_crc):
    if kind == 0:
        return (0, 0, 0)
    if kind == 1:
        return (0, data & 0xFFFFFFFF, (data >> 32) & 0xF)
    if kind == 2:
        return (0, ctx_crc, 0)
    return (0, ctx_prev[0], ctx_prev[1])


def build_packet(it):
    """-> list of (valid, data, ctrl) words, info dict"""
    payload = expand_payload(it)
    L = len(payload)
    dw0_hi, dw1_lo, dw2, seq, flags = it["hdr"]
    dw0, dw1, dw2 = R.data_header_dw(L, dw0_hi, dw1_lo, dw2)
    hw = R.header_words(dw0, dw1, dw2, seq, flags & 7, (flags >> 3) & 7, (flags >> 6) & 1, (flags >> 7) & 1)
    ckind, cbit = it["cor"]
    crc = R.usb3_crc32(payload)
    sent_payload = bytearray(payload)
    hdr_ok = True
    if ckind == 1:            # bit flip in dw0..dw2
        w = 1 + (cbit // 32) % 3
        hw[w] = (hw[w][0] ^ (1 << (cbit % 32)), 0)
        hdr_ok = False
    elif ckind == 2:          # bit flip in the CRC-16 field
        hw[4] = (hw[4][0] ^ (1 << (cbit % 16)), 0)
        hdr_ok = False
    elif ckind == 3:          # bit flip in the link control word (CRC-5 protected)
        hw[4] = (hw[4][0] ^ (1 << (16 + cbit % 16)), 0)
        hdr_ok = False
    elif ckind == 4 and L:    # bit flip in the payload
        sent_payload[(cbit // 8) % L] ^= 1 << (cbit % 8)
    elif ckind == 5 or (ckind == 4 and not L):   # bit flip in the CRC-32
        crc ^= 1 << (cbit % 32)
    abort = it["abort"]
    abort_alias = False
    if abort >= 0:
        cut = min(abort, L + 4)
        body = list(sent_payload) + [(crc >> (8 * i)) & 0xFF for i in range(4)]
        # the recorded known finding: the payload is complete, the CRC-32 is cut short, and the BYTE VALUES of the
        # end-bad framing symbols that take the place of the missing CRC bytes equal those bytes
        framing = [R.EDB, R.EDB, R.EDB, R.EPF]
        abort_alias = L <= cut < L + 4 and all(framing[j - cut] == body[j] for j in range(cut, L + 4))
        syms = [(R.SDP, 1)] * 3 + [(R.EPF, 1)] + [(b, 0) for b in body[:cut]] + [(R.EDB, 1)] * 3 + [(R.EPF, 1)]
        dw = R.pack_symbols(syms)
    else:
        dw = R.dpp_words(bytes(sent_payload), crc=crc)
    words = [(1, d, c) for d, c in hw + dw]
    # not-valid words: [position (index into the packet's words), count, kind, data]
    # CRC-looking filler: the word that would satisfy a CRC comparison made on a not-valid word
    crc_fill = crc if L % 4 == 0 else crc >> (8 * (4 - L % 4))
    ins = {}
    for pos, n, kind, data in it["inv"]:
        ins.setdefault(min(pos, len(words)), []).append((n, kind, data))
    out = []
    for i in range(len(words) + 1):
        for n, kind, data in ins.get(i, []):
            prev = (out[-1][1], out[-1][2]) if out else (0, 0)
            # the CRC-looking filler: what CHECK_CRC32 would compare against for this packet
            out += [_inv_word(kind, data, prev, crc_fill)] * n
        if i < len(words):
            out.append(words[i])
    info = dict(L=L, hdr_ok=hdr_ok, aborted=abort >= 0, abort_alias=abort_alias, payload=bytes(sent_payload),
                crc_ok=(crc == R.usb3_crc32(bytes(sent_payload))) and abort < 0,
                inv_positions=sorted(ins), nwords=len(words), ckind=ckind)
    return out, info


def build_stream(items):
    out = []
    packets = []      # info with 'start' (index of HPSTART) and 'dpp' (index of DPPSTART)
    for it in items:
        k = it["k"]
        if k == "dp":
            w, info = build_packet(it)
            info["start"] = len(out)
            # locate the DPPSTART word (first valid word equal to it after the five header words)
            seen = 0
            for j, (v, d, c) in enumerate(w):
                if v:
                    seen += 1
                    if seen == 6:
                        info["dpp"] = len(out) + j
                        break
            out += w
            packets.append(info)
        elif k == "idle":
            out += [(1, 0, 0)] * it["n"]
        elif k == "inv":
            out += [_inv_word(it["kind"], it["data"], (out[-1][1], out[-1][2]) if out else (0, 0), 0)] * it["n"]
        elif k == "lc":
            out += [(1,) + w for w in R.lc_words(it["cmd"], it["sub"])]
        elif k == "hp":       # a non-data header packet (must produce no report)
            dw0 = (it["dw0"] & ~0x1F) | it["type"]
            out += [(1,) + w for w in R.header_words(dw0, it["dw1"], it["dw2"], it["seq"])]
    return out, packets


# ------------------------------------------------------------------------------------------------ oracle
def judge(stream, packets, trace):
    # reference decode of the valid words; must agree with what we constructed (else the harness is wrong)
    valid_idx = [i for i, w in enumerate(stream) if w[0]]
    ev = R.parse_stream([(stream[i][1], stream[i][2]) for i in valid_idx])
    dps = []
    for n, e in enumerate(ev):
        if e["kind"] == "hp" and n + 1 < len(ev) and ev[n + 1]["kind"] == "dpp":
            dps.append((e, ev[n + 1]))
    if len(dps) != len(packets):
        raise HarnessError(f"reference parser found {len(dps)} data packets, constructed {len(packets)}")
    reports = [(t, "good" if o.good else "bad", o.good and o.bad) for t, o in enumerate(trace) if o.good or o.bad]
    both = [t for t, _, b in reports if b]
    if both:
        return fail(f"packet_good and packet_bad asserted together in cycle {both[0]}", signature="good-and-bad-together")
    bounds = [p["dpp"] for p in packets] + [len(trace)]
    if reports and (not packets or reports[0][0] < bounds[0]):
        return fail(f"report '{reports[0][1]}' in cycle {reports[0][0]} before any data packet payload started",
                    signature="report-without-packet")
    for k, p in enumerate(packets):
        hp, dpp = dps[k]
        hdr_ok = hp["crc16_ok"] and hp["crc5_ok"]
        if hdr_ok != p["hdr_ok"] or dpp is None:
            raise HarnessError(f"packet {k}: reference parse disagrees with construction ({hp}, {dpp})")
        complete = dpp["end"] == "END" and len(dpp["payload"]) == hp["data_length"]
        if hdr_ok and (complete != (not p["aborted"]) or (complete and dpp["payload"] != p["payload"])):
            raise HarnessError(f"packet {k}: reference DPP parse disagrees with construction ({dpp}, {p})")
        exp_good = hdr_ok and complete and dpp["crc_ok"]
        # payload and CRC-32 completely present and valid, but terminated by EDB instead of END: the statement's
        # criterion (CRCs) says good, the port description ("did not end properly") says bad: either is accepted
        either = (hdr_ok and dpp["end"] == "EDB" and len(dpp["payload"]) == hp["data_length"] + 4 and
                  int.from_bytes(dpp["payload"][-4:], "little") == R.usb3_crc32(dpp["payload"][:-4]))
        lo, hi = bounds[k], bounds[k + 1]
        mine = [(t, kind) for t, kind, _ in reports if lo <= t < hi]
        desc = (f"packet {k} (len {p['L']}, header {'ok' if hdr_ok else 'BAD'}, "
                f"{'aborted' if p['aborted'] else 'crc32 ' + ('ok' if dpp['crc_ok'] else 'BAD')}, "
                f"not-valid words before packet words {p['inv_positions']}, DPP starts cycle {lo})")
        # bytes delivered on the payload stream inside the window
        got = bytearray()
        last_byte_cycle = lo
        for t in range(lo, hi):
            o = trace[t]
            for i in range(4):
                if (o.sv >> i) & 1:
                    got.append((o.sd >> (8 * i)) & 0xFF)
                    last_byte_cycle = t
        if not hdr_ok:
            if any(kind == "good" for _, kind in mine):
                return fail(f"{desc}: reported good", signature="bad-header-packet-reported-good")
            if len(mine) > 1:
                return fail(f"{desc}: reported {len(mine)} times {mine}", signature="bad-header-packet-multiple-reports")
            continue
        if not mine:
            return fail(f"{desc}: neither packet_good nor packet_bad was reported", signature="no-report")
        if len(mine) > 1:
            kinds = [kind for _, kind in mine]
            if p["L"] == 0 and not p["aborted"] and kinds[0] == "good" and not exp_good:
                sig = "zlp-bad-crc-reported-good"
            elif p["L"] == 0 and not p["aborted"] and kinds.count("good") > 1:
                sig = "zlp-good-repeated"
            elif p["aborted"]:
                sig = "aborted-packet-reported-twice"
            elif kinds[0] == "good" and exp_good:
                sig = "good-packet-reported-again"
            else:
                sig = "multiple-reports"
            return fail(f"{desc}: reported {len(mine)} times: {mine[:6]}", signature=sig)
        t, kind = mine[0]
        if kind != ("good" if exp_good else "bad") and not either:
            if exp_good:
                # was the word in the cycle of the report a not-valid word?
                sig = "invalid-word-taken-as-crc" if not stream[t][0] else "good-packet-reported-bad"
            elif p["L"] == 0 and not p["aborted"]:
                sig = "zlp-bad-crc-reported-good"
            elif p["aborted"] and p.get("abort_alias"):
                sig = "aborted-dpp-framing-symbol-equals-missing-crc-byte-reported-good"
            else:
                sig = "bad-packet-reported-good"
            return fail(f"{desc}: expected {'good' if exp_good else 'bad'}, reported {kind} in cycle {t}", signature=sig)
        if complete:
            if bytes(got) != p["payload"]:
                sig = "payload-byte-count" if len(got) != p["L"] else "payload-bytes"
                def hx(b):
                    return b.hex() if len(b) <= 48 else f"{b[:24].hex()}...{b[-8:].hex()}"
                return fail(f"{desc}: payload stream carried {len(got)} bytes {hx(bytes(got))} expected "
                            f"{p['L']} bytes {hx(p['payload'])}", signature=sig)
            if p["L"] and t < last_byte_cycle:
                return fail(f"{desc}: reported in cycle {t}, before the last payload byte (cycle {last_byte_cycle})",
                            signature="report-before-payload-end")
    return None


# -------------------------------------------------------------------------------------------------- sub
class DataRxSub(Sub):
    name = "datarx"
    budget = {"quick": 6000, "thorough": 90000}
    shrink_budget = 600
    rule = ("streams of 1..5 data packets (payload 0..40 bytes, every length mod 4; about one packet in 40 is long: "
            "1020..1024 (the maximum packet size) weighted, 2^k and 2^k+-1, any length up to 1024; single-bit corruption of header "
            "words / CRC-16 / link control word / payload / CRC-32; aborted DPPs) with not-valid words (zero, random, "
            "CRC-looking, repeated data) inserted at any word position, separated by idle, link commands, non-data "
            "headers, not-valid words or nothing. Oracle: reference parse of the valid words; per packet exactly one "
            "strobe of one kind inside its window, good <=> all CRCs valid and properly ended, after the last "
            "payload byte, payload stream == data-length bytes as sent. Non-trivial: a packet with a valid header "
            "that has a not-valid word inside its DPP, or a CRC/abort corruption, or is directly followed by "
            "another packet.")

    def setup(self):
        from luna.gateware.usb.usb3.link.data import DataPacketReceiver
        d = DataPacketReceiver()
        self.h = CycleHarness(d, ins=dict(v=d.sink.valid, d=d.sink.data, c=d.sink.ctrl),
                              outs=dict(good=d.packet_good, bad=d.packet_bad, sv=d.source.valid, sd=d.source.data),
                              domain="ss")

    def strategy(self):
        length = st.one_of(st.integers(0, 8), st.integers(0, MAXLEN), st.sampled_from([0, 1, 2, 3, 4, 5, 8, 12, 13]))

        # long packets (~265 cycles each, so about one packet in 40 = one case in 8): the maximum packet size and
        # its neighbours (every length mod 4 just below it), powers of two +-1, anything up to the maximum
        long_length = st.one_of(st.sampled_from([MAXPKT, MAXPKT, MAXPKT - 1, MAXPKT - 2, MAXPKT - 3, MAXPKT - 4]),
                                st.sampled_from([MAXPKT, 511, 512, 513, 255, 256, 257, 127, 128, 129, 63, 64, 65,
                                                 1000, 768]),
                                st.integers(MAXLEN + 1, MAXPKT))

        @st.composite
        def packet(draw):
            is_long = draw(weighted([(0, 39), (1, 1)]))
            if is_long:
                L = draw(long_length)
                body = dict(gen=[L, draw(weighted([(0, 4), (1, 1), (2, 1), (3, 2)])), draw(bits(24))])
            else:
                L = draw(length)
                body = dict(payload=draw(st.lists(st.one_of(st.just(0), bits(8)), min_size=L, max_size=L)))
            nwords = 5 + 1 + (L + 4 + 3) // 4 + 1
            inv = draw(st.lists(st.tuples(
                st.one_of(st.integers(0, nwords), st.integers(5 + (L // 4), nwords)),   # biased to the CRC end
                weighted([(1, 5), (2, 2), (3, 1)]), weighted([(0, 3), (1, 3), (2, 2), (3, 1)]), bits(36)).map(list),
                max_size=3))
            cor = draw(st.tuples(weighted([(0, 6), (1, 1), (2, 1), (3, 1), (4, 2), (5, 2)]),
                                 st.integers(0, 8 * MAXPKT - 1 if is_long else 511)))
            abort = draw(weighted([(-1, 9), (0, 1), (1, 1)]))
            if abort == 1:
                abort = draw(st.integers(0, L + 4))
            if not is_long and L >= 2 and cor[0] == 0 and draw(weighted([(0, 14), (1, 1)])):
                # aborted one byte before the end of the CRC-32, with a payload whose last CRC byte has the byte value
                # of the end-bad framing symbol that replaces it (two payload bytes searched, deterministic)
                pl = list(body["payload"])
                found = False
                for a in range(256):
                    for b in range(256):
                        pl[0], pl[1] = (pl[0] + a) & 0xFF, (pl[1] + (1 if a or b else 0)) & 0xFF
                        if (R.usb3_crc32(bytes(pl)) >> 24) == R.EDB:
                            found = True
                            break
                    if found:
                        break
                if found:
                    body = dict(payload=pl)
                    abort = L + 3
            return dict(k="dp", **body,
                        hdr=[draw(bits(27)), draw(bits(16)), draw(bits(32)), draw(bits(3)), draw(bits(8))],
                        cor=list(cor), inv=inv, abort=abort)

        other = st.one_of(
            st.fixed_dictionaries(dict(k=st.just("idle"), n=st.integers(1, 4))),
            st.fixed_dictionaries(dict(k=st.just("inv"), n=st.integers(1, 3), kind=st.sampled_from([0, 1, 3]),
                                       data=bits(36))),
            st.fixed_dictionaries(dict(k=st.just("lc"), cmd=bits(4), sub=bits(4))),
            st.fixed_dictionaries(dict(k=st.just("hp"), type=st.sampled_from([R.TYPE_LMP, R.TYPE_TP, R.TYPE_ITP]),
                                       dw0=bits(32), dw1=bits(32), dw2=bits(32), seq=bits(3))),
        )
        item = st.one_of(packet(), packet(), other)
        return st.fixed_dictionaries(dict(items=long_lists(item, min_size=0, max_size=9, average=4),
                                          first=packet()))

    def run(self, case):
        items = [case["first"]] + list(case["items"])
        stream, packets = build_stream(items)
        script = [dict(v=v, d=d, c=c) for v, d, c in stream] + [dict(v=1, d=0, c=0)] * 6
        stream = stream + [(1, 0, 0)] * 6
        trace = self.h.run_script(script)
        res = judge(stream, packets, trace)
        if res is not None:
            return res
        labels = set()
        nontrivial = False
        for n, p in enumerate(packets):
            labels.add(f"len%4={p['L'] % 4}" if p["L"] else "zlp")
            labels.add(f"cor={p['ckind']}")
            if p["L"] > MAXLEN:
                labels.add("len=max" if p["L"] == MAXPKT else "len>40")
            if p["aborted"]:
                labels.add("aborted")
            in_dpp = [x for x in p["inv_positions"] if x > 5]
            if in_dpp:
                labels.add("inv-in-dpp")
            crc_pos = 6 + p["L"] // 4
            if any(x in (crc_pos, crc_pos + 1) for x in p["inv_positions"]) and not p["aborted"]:
                labels.add("inv-at-crc")
            adjacent = False
            if n + 1 < len(packets):
                # next packet starts right after this one's last word
                adjacent = packets[n + 1]["start"] == p["start"] + p["nwords"] + sum(
                    1 for w in stream[p["start"]:packets[n + 1]["start"]] if not w[0])
                if adjacent:
                    labels.add("adjacent-next")
            if p["hdr_ok"] and (in_dpp or p["ckind"] in (4, 5) or p["aborted"] or adjacent):
                nontrivial = True
        labels.add(f"packets={len(packets)}")
        return Result(ok=True, nontrivial=nontrivial, labels=tuple(sorted(labels)))


SUBS = [DataRxSub()]
