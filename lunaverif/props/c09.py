"""C09 — GET_DESCRIPTOR returns exactly the requested descriptor bytes (unit level: all descriptor handlers).

The integration run through the full device (StandardRequestHandler inside USBDevice) belongs to the g9 host-BFM
harness; this module drives the handlers the way StandardRequestHandler's GET_DESCRIPTOR state does."""

from hypothesis import strategies as st

from lunaverif.core import Sub, Result, fail
from lunaverif.simkit import CycleHarness
from lunaverif.gen import long_lists, weighted
from lunaverif.bfm.g8_ephost import TxModel
from lunaverif.bfm import g8_gen as G

PROPERTY = "C09"
ASSUMPTIONS = [
    "the handler is driven like StandardRequestHandler's GET_DESCRIPTOR state drives it: value/length constant for a "
    "request, one-cycle `start` per IN token, start_position advanced by max_packet_size after each ACKed packet, the "
    "same position again after a lost ACK; tx.ready behaves like USBDataPacketGenerator (low until the PID is out)",
    "the host stops asking after a short packet or once wLength bytes arrived (so start is never pulsed with "
    "start_position >= wLength); wLength >= 1 (wLength 0 has no data stage)",
    "descriptor types 1..15 (type 0 only as a non-existent request), indices 0..255, lengths 1..300; generated "
    "collections always contain the 18-byte device descriptor",
    "runtime descriptors are StreamSerializer subclasses with constant data (like ECP5FlashUIDStringDescriptor)",
]

MAX_TYPE = 15


def desc_bytes(t, i, n, salt=0):
    """Deterministic descriptor contents: every position distinguishable (13 is invertible mod 256)."""
    return bytes(((k * 13 + t * 5 + i * 3 + salt) & 0xFF) for k in range(n))


# ---- fixed pool of collections: list of (type, index, length, runtime?) -------------------------------------------
POOL = {
    "P0": dict(auto_lang=True, d=[(1, 0, 18, 0), (2, 0, 64, 0), (3, 1, 16, 0), (3, 2, 32, 0), (3, 3, 8, 0)]),
    "P1": dict(auto_lang=True, d=[(3, 0, 4, 0), (3, 2, 34, 0), (3, 0xFE, 30, 0), (1, 0, 18, 0), (15, 0, 128, 0), (6, 1, 10, 0)]),
    "P2": dict(auto_lang=False, d=[(2, 0, 256, 0)]),
    "P3": dict(auto_lang=True, d=[(4, 3, 300, 0), (5, 0, 255, 0), (7, 7, 192, 0), (15, 200, 65, 0), (2, 0, 96, 0), (2, 1, 64, 0)]),
    "P4": dict(auto_lang=True, d=[(1, 0, 1, 0), (2, 0, 2, 0), (2, 1, 7, 0), (2, 2, 9, 0), (9, 0, 24, 0), (9, 1, 63, 0),
                                  (10, 5, 130, 0), (11, 0, 48, 0)]),
    "M0": dict(auto_lang=True, d=[(1, 0, 18, 0), (2, 0, 32, 0), (3, 1, 16, 0), (3, 2, 34, 1), (3, 3, 8, 1)]),
    "M1": dict(auto_lang=True, d=[(1, 0, 18, 0), (2, 0, 64, 0), (3, 0xFE, 30, 0), (3, 3, 64, 1), (6, 0, 10, 1)]),
    "M2": dict(auto_lang=True, d=[(2, 0, 48, 0), (3, 1, 16, 1), (3, 2, 2, 1)]),
}
# (pool, max packet size, handler kind)
CONFIGS = []
for pool, sizes in (("P0", (8, 64)), ("P1", (16, 32)), ("P2", (64, 8)), ("P3", (32, 64)), ("P4", (8, 16))):
    for mps in sizes:
        CONFIGS += [(pool, mps, "block"), (pool, mps, "dist")]
for pool, mps in (("M0", 8), ("M1", 64), ("M2", 16)):
    CONFIGS += [(pool, mps, "mux"), (pool, mps, "distmix")]

LANG = bytes([4, 3, 0x09, 0x04])          # the language descriptor DeviceDescriptorCollection adds by itself


def table_of(spec):
    """{(type, index): bytes} a host can ask for, from a collection spec (independent of luna)."""
    tab = {(t, i): desc_bytes(t, i, n) for t, i, n, _ in spec["d"]}
    if spec["auto_lang"] and (3, 0) not in tab:
        tab[(3, 0)] = LANG
    return tab


def build_handler(spec, mps, kind):
    """Instantiate the handler exactly as StandardRequestHandler does (block / distributed / mux)."""
    from usb_protocol.emitters.descriptors import DeviceDescriptorCollection
    from luna.gateware.usb.request.standard import StandardRequestHandler
    from luna.gateware.usb.stream import USBInStreamInterface
    from luna.gateware.stream.generator import StreamSerializer

    class ConstSerializer(StreamSerializer):
        """Runtime descriptor with constant contents (same construction as ECP5FlashUIDStringDescriptor)."""
        def __init__(self, data):
            super().__init__(len(data), domain="usb", stream_type=USBInStreamInterface, max_length_width=16)
            self._const = data

        def elaborate(self, platform):
            m = super().elaborate(platform)
            m.d.comb += [self.data[i].eq(b) for i, b in enumerate(self._const)]
            return m

    def factory(data):
        return lambda: ConstSerializer(data)

    coll = DeviceDescriptorCollection(automatic_language_descriptor=spec["auto_lang"])
    for t, i, n, runtime in spec["d"]:
        data = desc_bytes(t, i, n)
        use_runtime = runtime and kind in ("mux", "distmix")
        coll.add_descriptor(factory(data) if use_runtime else data, index=i, descriptor_type=t)
    avoid = kind in ("dist", "distmix")
    srh = StandardRequestHandler(coll, max_packet_size=mps, avoid_blockram=avoid)
    h = srh.get_descriptor_handler_submodule()
    want = dict(block="GetDescriptorHandlerBlock", dist="GetDescriptorHandlerDistributed",
                distmix="GetDescriptorHandlerDistributed", mux="GetDescriptorHandlerMux")[kind]
    if type(h).__name__ != want:
        raise RuntimeError(f"expected {want}, StandardRequestHandler built {type(h).__name__}")
    return h


def harness_for(dut):
    ins = dict(value=dut.value, length=dut.length, start=dut.start, pos=dut.start_position, tx_ready=dut.tx.ready)
    outs = dict(tx_valid=dut.tx.valid, tx_first=dut.tx.first, tx_last=dut.tx.last, tx_data=dut.tx.payload,
                stall=dut.stall)
    return CycleHarness(dut, ins, outs, domain="usb")


class DescDriver:
    """Plays StandardRequestHandler + control endpoint + host for a list of GET_DESCRIPTOR requests."""
    RESP_WAIT = 12

    def __init__(self, requests, mps, phy, pid_wait):
        self.requests, self.mps = requests, mps
        self.tx = TxModel(phy, pid_wait)
        self.t = 0
        self.cur = dict(value=0, length=0, start=0, pos=0)
        self.stalls = []
        self.log = []           # one record per start pulse
        self.done = None
        self._gen = self._script()

    def _script(self):
        yield
        for rq in self.requests:
            t_, i_, wl = rq["type"], rq["index"], rq["wlen"]
            self.cur.update(value=(t_ << 8) | i_, length=wl, pos=0)
            yield from self._wait(rq.get("gap", 3))
            pos, got, k = 0, 0, 0
            max_iter = min(wl, 320) // self.mps + 3        # descriptors are <= 300 bytes; beyond that the DUT is wrong anyway
            while k < max_iter:
                retries = rq["retries"][k % len(rq["retries"])] if rq["retries"] else 0
                rec = None
                for attempt in range(1 + retries):
                    self.cur["pos"] = pos
                    yield from self._wait(2)
                    np0, ns0 = len(self.tx.packets), len(self.stalls)
                    t_start = self.t
                    self.cur["start"] = 1
                    yield
                    self.cur["start"] = 0
                    for _ in range(self.RESP_WAIT):
                        yield
                        if len(self.tx.packets) > np0 or len(self.stalls) > ns0:
                            break
                    while not self.tx.idle:
                        yield
                    yield from self._wait(rq.get("ack_delay", 3))
                    pk = self.tx.packets[np0:]
                    rec = dict(rq=rq, pos=pos, t=t_start, attempt=attempt, packets=pk,
                               stalled=[c for c in self.stalls[ns0:]])
                    self.log.append(rec)
                k += 1
                if len(rec["packets"]) != 1 or rec["stalled"]:
                    break
                n = len(rec["packets"][0]["data"])
                got += n
                if n < self.mps or got >= wl:
                    break
                pos += self.mps
            yield from self._wait(4)
        self.done = self.t

    def _wait(self, n):
        for _ in range(n):
            yield

    def step(self, t, prev):
        self.t = t
        if prev is not None:
            self.tx.observe(t - 1, prev.tx_valid, prev.tx_first, prev.tx_last, prev.tx_data, 0)
            if prev.stall:
                self.stalls.append(t - 1)
        if self.done is not None:
            return None if t > self.done + 6 else dict(self.cur, tx_ready=self.tx.ready(t))
        try:
            next(self._gen)
        except StopIteration:
            self.done = t
        return dict(self.cur, tx_ready=self.tx.ready(t))


def judge(log, table, mps):
    """Compare the per-start records with the model. -> (fail Result | None, labels, nontrivial)."""
    labels = set()
    nontrivial = False
    # group records per request (records of one request are contiguous and share the rq dict)
    by_rq = []
    for rec in log:
        if by_rq and by_rq[-1][0] is rec["rq"]:
            by_rq[-1][1].append(rec)
        else:
            by_rq.append((rec["rq"], [rec]))
    prev_key = None
    for rq, recs in by_rq:
        key, prev_key, prev = (rq["type"], rq["index"]), None, prev_key
        prev_key = key
        wl = rq["wlen"]
        what = f"GET_DESCRIPTOR type {key[0]} index {key[1]} wLength {wl} mps {mps}"
        if key not in table:
            r = recs[0]
            labels.add("absent")
            if r["packets"]:
                return fail(f"{what}: descriptor does not exist but a packet {r['packets'][0]['data'][:8]} was sent",
                            signature="data-for-missing-descriptor"), labels, False
            if not r["stalled"]:
                return fail(f"{what}: descriptor does not exist but no stall within the response window "
                            f"(start in cycle {r['t']})", signature="no-stall-for-missing-descriptor"), labels, False
            continue
        desc = table[key]
        L = len(desc)
        total = min(wl, L)
        labels.add("present")
        if any(r["stalled"] for r in recs):
            r = next(r for r in recs if r["stalled"])
            return fail(f"{what}: existing descriptor (len {L}) stalled at position {r['pos']} (cycle {r['stalled'][0]}, "
                        f"start pulse in cycle {r['t']}; previous request {prev})",
                        signature="stall-for-existing-descriptor",
                        labels=(key, prev, r["stalled"][0] == r["t"] and r is recs[0])), labels, False
        got = []
        for r in recs:
            pos = r["pos"]
            if pos < total:
                exp = list(desc[pos:min(pos + mps, total)])
            elif pos == total and total % mps == 0 and total < wl:
                exp = []                       # the stage must end with a zero-length packet
            else:
                return fail(f"{what}: harness asked position {pos} beyond the stage (total {total})", signature="harness"), labels, False
            if len(r["packets"]) != 1:
                sig = "no-packet" if not r["packets"] else "multiple-packets"
                if not exp:
                    sig = "no-zlp-at-descriptor-end"
                return fail(f"{what}: descriptor length {L}: start at position {pos} (cycle {r['t']}, attempt "
                            f"{r['attempt']}) produced {len(r['packets'])} packets "
                            f"{[q['data'][:6] for q in r['packets']]}; expected "
                            f"{'a ZLP' if not exp else f'{len(exp)} bytes'}", signature=sig, labels=(key,)), labels, False
            p = r["packets"][0]
            if p["aborted"] or p.get("late_first"):
                return fail(f"{what}: malformed packet at position {pos}: {p}", signature="malformed-packet"), labels, False
            if p["data"] != exp:
                sig = "data-mismatch"
                if not exp:
                    sig = "no-zlp-at-descriptor-end"
                elif len(p["data"]) != len(exp):
                    sig = "wrong-packet-length"
                return fail(f"{what}: descriptor length {L}, position {pos} (attempt {r['attempt']}): sent "
                            f"{len(p['data'])} bytes {p['data'][:10]}, expected {len(exp)} bytes {exp[:10]}",
                            signature=sig, labels=(key,)), labels, False
            if r["attempt"] == 0:
                got += exp
            else:
                labels.add("retry")
            if not exp:
                labels.add("zlp-terminated")
        last = recs[-1]
        done = (len(got) == total) and (total % mps != 0 or total == wl or not last["packets"][0]["data"])
        if not done:
            return fail(f"{what}: stage ended after {len(got)} of {total} bytes (descriptor length {L})",
                        signature="stage-incomplete"), labels, False
        if total % mps == 0:
            labels.add("multiple-of-mps")
        if wl < L:
            labels.add("wlen<len")
        if total % mps == 0 or wl < L or key[1] > 3:
            nontrivial = True
    return None, labels, nontrivial


def classify(res, kind, spec, where):
    """Root-cause signature of a failure: handler family + shape."""
    key = res.labels[0] if res.labels else None
    runtime_keys = {(x[0], x[1]) for x in spec["d"] if x[3]}
    # which handler serves the request: in a mux the runtime descriptors live in the distributed half
    fam = "dist" if kind in ("dist", "distmix") or (kind == "mux" and key in runtime_keys) else kind
    sig = f"{fam}-{res.signature}"
    if kind == "mux" and key == (3, 0) and any(x[3] for x in spec["d"]) and any((x[0], x[1]) == (3, 0) for x in spec["d"]):
        # StandardRequestHandler gives the runtime (distributed) half its own automatic language descriptor, so a
        # collection that defines STRING 0 itself has two responders for it
        sig = "mux-language-descriptor-answered-twice"
    if (kind == "mux" and res.signature == "stall-for-existing-descriptor" and key not in runtime_keys
            and len(res.labels) == 3 and res.labels[1] in runtime_keys and res.labels[2]):
        # the block half's stall latch of the previous (runtime-descriptor) request is still set in the start cycle,
        # in which the distributed half stalls combinationally
        sig = "mux-stale-stall-latch"
    res.signature = sig
    res.labels = ()
    res.msg = f"[{kind} handler, {where}] " + res.msg
    return res


def request_strategy(table, mps):
    keys = sorted(table)

    def wlen_for(key):
        L = len(table[key]) if key in table else 18
        near = sorted({max(1, v) for v in (L - 1, L, L + 1, mps, 2 * mps, L + mps, (L // mps) * mps, (L // mps + 1) * mps,
                                           255, 256, 0xFFFF, 1)})
        return st.one_of(st.sampled_from(near), st.integers(1, 400))

    present = st.sampled_from(keys)
    types = sorted({k[0] for k in keys})
    absent = st.one_of(
        st.tuples(st.sampled_from(types), st.integers(0, 255)),          # existing type, arbitrary index
        st.tuples(st.integers(0, MAX_TYPE), st.sampled_from(sorted({k[1] for k in keys}))),
        st.tuples(st.integers(0, 255), st.integers(0, 255)),
    )
    key = st.one_of(present, present, present, absent).map(tuple)
    return key.flatmap(lambda k: st.fixed_dictionaries(dict(
        type=st.just(k[0]), index=st.just(k[1]), wlen=wlen_for(k),
        retries=st.lists(weighted([(0, 5), (1, 2), (2, 1)]), max_size=4),
        gap=st.integers(1, 8), ack_delay=st.integers(1, 6))))


class PoolSub(Sub):
    name = "handlers"
    budget = {"quick": 3000, "thorough": 40000}
    shrink_budget = 300
    rule = ("GetDescriptorHandlerBlock / Distributed / Mux(block+distributed with runtime descriptors) / Distributed "
            "with runtime descriptors, built by StandardRequestHandler.get_descriptor_handler_submodule for 8 fixed "
            "collections (consecutive and sparse indices, single descriptor, lengths 1..300 incl. exact multiples of "
            "the packet size) x mps 8/16/32/64 (26 elaborations). 1-4 requests per case (existing / non-existing near "
            "misses, wLength around the descriptor length, multiples of mps, 255, 0xFFFF), lost-ACK retries, PHY stalls. "
            "Oracle: each start yields exactly the model's packet desc[pos:min(pos+mps,min(wLength,len))], a ZLP when "
            "the total is a non-zero multiple of mps below wLength, the stage completes, missing descriptors stall "
            "without data, existing ones never stall. Non-trivial = total a multiple of mps, or wLength < length, or "
            "a sparse/high index.")

    def setup(self):
        self.h = {}

    def harness(self, cfg):
        if cfg not in self.h:
            pool, mps, kind = CONFIGS[cfg]
            self.h[cfg] = harness_for(build_handler(POOL[pool], mps, kind))
        return self.h[cfg]

    def strategy(self):
        def case(cfg):
            pool, mps, kind = CONFIGS[cfg]
            table = table_of(POOL[pool])
            return st.fixed_dictionaries(dict(
                cfg=st.just(cfg), phy=G.phy, pid_wait=G.pid_wait,
                rq=st.lists(request_strategy(table, mps), min_size=1, max_size=4)))
        return st.integers(0, len(CONFIGS) - 1).flatmap(case)

    def run(self, case):
        pool, mps, kind = CONFIGS[case["cfg"]]
        drv = DescDriver(case["rq"], mps, case["phy"], case["pid_wait"])
        self.harness(case["cfg"]).run_driver(drv, 400000)
        if drv.done is None:
            raise RuntimeError("driver did not finish")
        res, labels, nt = judge(drv.log, table_of(POOL[pool]), mps)
        labels.add(kind)
        labels.add(f"mps={mps}")
        if res is not None:
            return classify(res, kind, POOL[pool], f"collection {pool}")
        return Result(ok=True, nontrivial=nt, labels=tuple(sorted(labels)))


class GenCollectionSub(Sub):
    """Collections generated by Hypothesis; one elaboration per case, so the budget is small."""
    name = "gen-collections"
    budget = {"quick": 96, "thorough": 3000}
    shrink_budget = 60
    rule = ("Hypothesis-generated collections (1-8 descriptors, types 1..15, sparse indices 0..255, lengths 1..300 "
            "biased to multiples of the packet size, optional automatic language descriptor, optional runtime "
            "descriptors) x mps 8/16/32/64 x handler kind; one elaboration per case; same driver and oracle as "
            "`handlers`. Non-trivial as in `handlers`.")

    def strategy(self):
        def coll(mps):
            length = st.one_of(st.sampled_from([1, 2, mps - 1, mps, mps + 1, 2 * mps, 3 * mps, 4 * mps]),
                               st.integers(1, 300), st.integers(1, 40))
            index = st.one_of(st.integers(0, 3), st.integers(0, 255))
            d = st.tuples(st.integers(1, MAX_TYPE), index, length, st.integers(0, 1))
            # every real collection holds the 18-byte device descriptor (also keeps the longest descriptor >= 4 bytes,
            # below which GetDescriptorHandlerBlock cannot be elaborated)
            dev = [1, 0, 18, 0]
            return st.lists(d, min_size=0, max_size=7, unique_by=lambda x: (x[0], x[1])).map(
                lambda l: [dev] + [list(x) for x in l if (x[0], x[1]) != (1, 0)])

        def case(mps):
            return st.fixed_dictionaries(dict(
                mps=st.just(mps), kind=st.sampled_from(["block", "dist", "mux", "distmix"]),
                auto_lang=st.booleans(), d=coll(mps), phy=G.phy, pid_wait=G.pid_wait)).flatmap(
                    lambda c: st.fixed_dictionaries(dict(
                        {k: st.just(v) for k, v in c.items()},
                        rq=st.lists(request_strategy(table_of(dict(auto_lang=c["auto_lang"], d=c["d"])), mps),
                                    min_size=2, max_size=8))))
        return st.sampled_from([8, 16, 32, 64]).flatmap(case)

    def run(self, case):
        spec = dict(auto_lang=case["auto_lang"], d=[tuple(x) for x in case["d"]])
        kind, mps = case["kind"], case["mps"]
        if kind in ("mux", "distmix") and not any(x[3] for x in spec["d"]):
            kind = "block" if kind == "mux" else "dist"        # no runtime descriptor: StandardRequestHandler builds these
        h = harness_for(build_handler(spec, mps, kind))
        drv = DescDriver(case["rq"], mps, case["phy"], case["pid_wait"])
        h.run_driver(drv, 400000)
        if drv.done is None:
            raise RuntimeError("driver did not finish")
        res, labels, nt = judge(drv.log, table_of(spec), mps)
        labels.add(kind)
        if res is not None:
            return classify(res, kind, spec, "generated collection")
        return Result(ok=True, nontrivial=nt, labels=tuple(sorted(labels)))


SUBS = [PoolSub(), GenCollectionSub()]
