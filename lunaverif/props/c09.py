"""C09 — GET_DESCRIPTOR returns exactly the requested descriptor bytes.

Unit level (subs `handlers`, `gen-collections`): the descriptor handlers driven the way StandardRequestHandler's
GET_DESCRIPTOR state drives them.  Integration (sub `device`): a whole USBDevice with the standard control endpoint
read by a closed-loop host over UTMI, including transfers the host abandons -- the continuation offset and its rewind
live in StandardRequestHandler, outside the handlers."""

from hypothesis import strategies as st

from lunaverif.core import Sub, Result, fail
from lunaverif.simkit import CycleHarness
from lunaverif.gen import long_lists, weighted
from lunaverif.bfm.g8_ephost import TxModel
from lunaverif.bfm import g8_gen as G

PROPERTY = "C09"
ASSUMPTIONS = [
    "the handler is driven like StandardRequestHandler's GET_DESCRIPTOR state drives it: value/length constant for a "
    "request, one-cycle `start` per IN token, start_position advanced by max_packet_size after each ACKed packet, the "
    "same position again after a lost ACK; tx.ready behaves like USBDataPacketGenerator (low until the PID is out)",
    "the host stops asking after a short packet or once wLength bytes arrived (so start is never pulsed with "
    "start_position >= wLength); wLength >= 1 (wLength 0 has no data stage)",
    "descriptor types 1..15 (type 0 only as a non-existent request), indices 0..255, lengths 1..300; generated "
    "collections always contain the 18-byte device descriptor",
    "runtime descriptors are StreamSerializer subclasses with constant data (like ECP5FlashUIDStringDescriptor)",
    "sub `device`: full-speed device on a bare UTMI bus at address 0 (never SET_ADDRESSed), UTMI receive soundness "
    "(DESIGN.md §3), host waits the 18-bit-time response window, ACKs only CRC-valid data packets, retries NAKed INs; "
    "the host may abandon a control transfer at any packet boundary (no further IN, no status stage) and send the next "
    "SETUP [USB 2.0 8.5.3: a SETUP always starts a new control transfer]; wLength >= 1; a request for a non-existing "
    "descriptor is judged on its first IN only",
]

MAX_TYPE = 15


def desc_bytes(t, i, n, salt=0):
    """Deterministic descriptor contents: every position distinguishable (13 is invertible mod 256)."""
    return bytes(((k * 13 + t * 5 + i * 3 + salt) & 0xFF) for k in range(n))


# ---- fixed pool of collections: list of (type, index, length, runtime?) -------------------------------------------
POOL = {
    "P0": dict(auto_lang=True, d=[(1, 0, 18, 0), (2, 0, 64, 0), (3, 1, 16, 0), (3, 2, 32, 0), (3, 3, 8, 0)]),
    "P1": dict(auto_lang=True, d=[(3, 0, 4, 0), (3, 2, 34, 0), (3, 0xFE, 30, 0), (1, 0, 18, 0), (15, 0, 128, 0), (6, 1, 10, 0)]),
    "P2": dict(auto_lang=False, d=[(2, 0, 256, 0)]),
    "P3": dict(auto_lang=True, d=[(4, 3, 300, 0), (5, 0, 255, 0), (7, 7, 192, 0), (15, 200, 65, 0), (2, 0, 96, 0), (2, 1, 64, 0)]),
    "P4": dict(auto_lang=True, d=[(1, 0, 1, 0), (2, 0, 2, 0), (2, 1, 7, 0), (2, 2, 9, 0), (9, 0, 24, 0), (9, 1, 63, 0),
                                  (10, 5, 130, 0), (11, 0, 48, 0)]),
    "M0": dict(auto_lang=True, d=[(1, 0, 18, 0), (2, 0, 32, 0), (3, 1, 16, 0), (3, 2, 34, 1), (3, 3, 8, 1)]),
    "M1": dict(auto_lang=True, d=[(1, 0, 18, 0), (2, 0, 64, 0), (3, 0xFE, 30, 0), (3, 3, 64, 1), (6, 0, 10, 1)]),
    "M2": dict(auto_lang=True, d=[(2, 0, 48, 0), (3, 1, 16, 1), (3, 2, 2, 1)]),
}
# (pool, max packet size, handler kind)
CONFIGS = []
for pool, sizes in (("P0", (8, 64)), ("P1", (16, 32)), ("P2", (64, 8)), ("P3", (32, 64)), ("P4", (8, 16))):
    for mps in sizes:
        CONFIGS += [(pool, mps, "block"), (pool, mps, "dist")]
for pool, mps in (("M0", 8), ("M1", 64), ("M2", 16)):
    CONFIGS += [(pool, mps, "mux"), (pool, mps, "distmix")]

LANG = bytes([4, 3, 0x09, 0x04])          # the language descriptor DeviceDescriptorCollection adds by itself


def table_of(spec):
    """{(type, index): bytes} a host can ask for, from a collection spec (independent of luna)."""
    tab = {(t, i): desc_bytes(t, i, n) for t, i, n, _ in spec["d"]}
    if spec["auto_lang"] and (3, 0) not in tab:
        tab[(3, 0)] = LANG
    return tab


def build_collection(spec, kind):
    """DeviceDescriptorCollection of a spec; runtime descriptors only for the kinds that have them (mux / distmix)."""
    from usb_protocol.emitters.descriptors import DeviceDescriptorCollection
    from luna.gateware.usb.stream import USBInStreamInterface
    from luna.gateware.stream.generator import StreamSerializer

    class ConstSerializer(StreamSerializer):
        """Runtime descriptor with constant contents (same construction as ECP5FlashUIDStringDescriptor)."""
        def __init__(self, data):
            super().__init__(len(data), domain="usb", stream_type=USBInStreamInterface, max_length_width=16)
            self._const = data

        def elaborate(self, platform):
            m = super().elaborate(platform)
            m.d.comb += [self.data[i].eq(b) for i, b in enumerate(self._const)]
            return m

    def factory(data):
        return lambda: ConstSerializer(data)

    coll = DeviceDescriptorCollection(automatic_language_descriptor=spec["auto_lang"])
    for t, i, n, runtime in spec["d"]:
        data = desc_bytes(t, i, n)
        use_runtime = runtime and kind in ("mux", "distmix")
        coll.add_descriptor(factory(data) if use_runtime else data, index=i, descriptor_type=t)
    return coll


def build_handler(spec, mps, kind):
    """Instantiate the handler exactly as StandardRequestHandler does (block / distributed / mux)."""
    from luna.gateware.usb.request.standard import StandardRequestHandler
    coll = build_collection(spec, kind)
    avoid = kind in ("dist", "distmix")
    srh = StandardRequestHandler(coll, max_packet_size=mps, avoid_blockram=avoid)
    h = srh.get_descriptor_handler_submodule()
    want = dict(block="GetDescriptorHandlerBlock", dist="GetDescriptorHandlerDistributed",
                distmix="GetDescriptorHandlerDistributed", mux="GetDescriptorHandlerMux")[kind]
    if type(h).__name__ != want:
        raise RuntimeError(f"expected {want}, StandardRequestHandler built {type(h).__name__}")
    return h


def harness_for(dut):
    ins = dict(value=dut.value, length=dut.length, start=dut.start, pos=dut.start_position, tx_ready=dut.tx.ready)
    outs = dict(tx_valid=dut.tx.valid, tx_first=dut.tx.first, tx_last=dut.tx.last, tx_data=dut.tx.payload,
                stall=dut.stall)
    return CycleHarness(dut, ins, outs, domain="usb")


class DescDriver:
    """Plays StandardRequestHandler + control endpoint + host for a list of GET_DESCRIPTOR requests."""
    RESP_WAIT = 12

    def __init__(self, requests, mps, phy, pid_wait):
        self.requests, self.mps = requests, mps
        self.tx = TxModel(phy, pid_wait)
        self.t = 0
        self.cur = dict(value=0, length=0, start=0, pos=0)
        self.stalls = []
        self.log = []           # one record per start pulse
        self.done = None
        self._gen = self._script()

    def _script(self):
        yield
        for rq in self.requests:
            t_, i_, wl = rq["type"], rq["index"], rq["wlen"]
            self.cur.update(value=(t_ << 8) | i_, length=wl, pos=0)
            yield from self._wait(rq.get("gap", 3))
            pos, got, k = 0, 0, 0
            max_iter = min(wl, 320) // self.mps + 3        # descriptors are <= 300 bytes; beyond that the DUT is wrong anyway
            while k < max_iter:
                retries = rq["retries"][k % len(rq["retries"])] if rq["retries"] else 0
                rec = None
                for attempt in range(1 + retries):
                    self.cur["pos"] = pos
                    yield from self._wait(2)
                    np0, ns0 = len(self.tx.packets), len(self.stalls)
                    t_start = self.t
                    self.cur["start"] = 1
                    yield
                    self.cur["start"] = 0
                    for _ in range(self.RESP_WAIT):
                        yield
                        if len(self.tx.packets) > np0 or len(self.stalls) > ns0:
                            break
                    while not self.tx.idle:
                        yield
                    yield from self._wait(rq.get("ack_delay", 3))
                    pk = self.tx.packets[np0:]
                    rec = dict(rq=rq, pos=pos, t=t_start, attempt=attempt, packets=pk,
                               stalled=[c for c in self.stalls[ns0:]])
                    self.log.append(rec)
                k += 1
                if len(rec["packets"]) != 1 or rec["stalled"]:
                    break
                n = len(rec["packets"][0]["data"])
                got += n
                if n < self.mps or got >= wl:
                    break
                pos += self.mps
            yield from self._wait(4)
        self.done = self.t

    def _wait(self, n):
        for _ in range(n):
            yield

    def step(self, t, prev):
        self.t = t
        if prev is not None:
            self.tx.observe(t - 1, prev.tx_valid, prev.tx_first, prev.tx_last, prev.tx_data, 0)
            if prev.stall:
                self.stalls.append(t - 1)
        if self.done is not None:
            return None if t > self.done + 6 else dict(self.cur, tx_ready=self.tx.ready(t))
        try:
            next(self._gen)
        except StopIteration:
            self.done = t
        return dict(self.cur, tx_ready=self.tx.ready(t))


def judge(log, table, mps):
    """Compare the per-start records with the model. -> (fail Result | None, labels, nontrivial)."""
    labels = set()
    nontrivial = False
    # group records per request (records of one request are contiguous and share the rq dict)
    by_rq = []
    for rec in log:
        if by_rq and by_rq[-1][0] is rec["rq"]:
            by_rq[-1][1].append(rec)
        else:
            by_rq.append((rec["rq"], [rec]))
    prev_key = None
    for rq, recs in by_rq:
        key, prev_key, prev = (rq["type"], rq["index"]), None, prev_key
        prev_key = key
        wl = rq["wlen"]
        what = f"GET_DESCRIPTOR type {key[0]} index {key[1]} wLength {wl} mps {mps}"
        if key not in table:
            r = recs[0]
            labels.add("absent")
            if r["packets"]:
                return fail(f"{what}: descriptor does not exist but a packet {r['packets'][0]['data'][:8]} was sent",
                            signature="data-for-missing-descriptor"), labels, False
            if not r["stalled"]:
                return fail(f"{what}: descriptor does not exist but no stall within the response window "
                            f"(start in cycle {r['t']})", signature="no-stall-for-missing-descriptor"), labels, False
            continue
        desc = table[key]
        L = len(desc)
        total = min(wl, L)
        labels.add("present")
        if any(r["stalled"] for r in recs):
            r = next(r for r in recs if r["stalled"])
            return fail(f"{what}: existing descriptor (len {L}) stalled at position {r['pos']} (cycle {r['stalled'][0]}, "
                        f"start pulse in cycle {r['t']}; previous request {prev})",
                        signature="stall-for-existing-descriptor",
                        labels=(key, prev, r["stalled"][0] == r["t"] and r is recs[0])), labels, False
        got = []
        for r in recs:
            pos = r["pos"]
            if pos < total:
                exp = list(desc[pos:min(pos + mps, total)])
            elif pos == total and total % mps == 0 and total < wl:
                exp = []                       # the stage must end with a zero-length packet
            else:
                return fail(f"{what}: harness asked position {pos} beyond the stage (total {total})", signature="harness"), labels, False
            if len(r["packets"]) != 1:
                sig = "no-packet" if not r["packets"] else "multiple-packets"
                if not exp:
                    sig = "no-zlp-at-descriptor-end"
                return fail(f"{what}: descriptor length {L}: start at position {pos} (cycle {r['t']}, attempt "
                            f"{r['attempt']}) produced {len(r['packets'])} packets "
                            f"{[q['data'][:6] for q in r['packets']]}; expected "
                            f"{'a ZLP' if not exp else f'{len(exp)} bytes'}", signature=sig, labels=(key,)), labels, False
            p = r["packets"][0]
            if p["aborted"] or p.get("late_first"):
                return fail(f"{what}: malformed packet at position {pos}: {p}", signature="malformed-packet"), labels, False
            if p["data"] != exp:
                sig = "data-mismatch"
                if not exp:
                    sig = "no-zlp-at-descriptor-end"
                elif len(p["data"]) != len(exp):
                    sig = "wrong-packet-length"
                return fail(f"{what}: descriptor length {L}, position {pos} (attempt {r['attempt']}): sent "
                            f"{len(p['data'])} bytes {p['data'][:10]}, expected {len(exp)} bytes {exp[:10]}",
                            signature=sig, labels=(key,)), labels, False
            if r["attempt"] == 0:
                got += exp
            else:
                labels.add("retry")
            if not exp:
                labels.add("zlp-terminated")
        last = recs[-1]
        done = (len(got) == total) and (total % mps != 0 or total == wl or not last["packets"][0]["data"])
        if not done:
            return fail(f"{what}: stage ended after {len(got)} of {total} bytes (descriptor length {L})",
                        signature="stage-incomplete"), labels, False
        if total % mps == 0:
            labels.add("multiple-of-mps")
        if wl < L:
            labels.add("wlen<len")
        if total % mps == 0 or wl < L or key[1] > 3:
            nontrivial = True
    return None, labels, nontrivial


def classify(res, kind, spec, where):
    """Root-cause signature of a failure: handler family + shape."""
    key = res.labels[0] if res.labels else None
    runtime_keys = {(x[0], x[1]) for x in spec["d"] if x[3]}
    # which handler serves the request: in a mux the runtime descriptors live in the distributed half
    fam = "dist" if kind in ("dist", "distmix") or (kind == "mux" and key in runtime_keys) else kind
    sig = f"{fam}-{res.signature}"
    if kind == "mux" and key == (3, 0) and any(x[3] for x in spec["d"]) and any((x[0], x[1]) == (3, 0) for x in spec["d"]):
        # StandardRequestHandler gives the runtime (distributed) half its own automatic language descriptor, so a
        # collection that defines STRING 0 itself has two responders for it
        sig = "mux-language-descriptor-answered-twice"
    if (kind == "mux" and res.signature == "stall-for-existing-descriptor" and key not in runtime_keys
            and len(res.labels) == 3 and res.labels[1] in runtime_keys and res.labels[2]):
        # the block half's stall latch of the previous (runtime-descriptor) request is still set in the start cycle,
        # in which the distributed half stalls combinationally
        sig = "mux-stale-stall-latch"
    res.signature = sig
    res.labels = ()
    res.msg = f"[{kind} handler, {where}] " + res.msg
    return res


def request_strategy(table, mps, present_percent=None):
    keys = sorted(table)

    def wlen_for(key):
        L = len(table[key]) if key in table else 18
        near = sorted({max(1, v) for v in (L - 1, L, L + 1, mps, 2 * mps, L + mps, (L // mps) * mps, (L // mps + 1) * mps,
                                           255, 256, 0xFFFF, 1)})
        # large wLength (a host reading into a 512 B .. 32 KiB buffer asks for the buffer size): m * 2^n + d with d
        # from just below the boundary to just past descriptor + one packet, so that wLength - offset crosses every
        # power-of-two boundary of the 16-bit field at some packet offset inside the descriptor; plus the whole range
        big = st.tuples(st.integers(8, 15), st.integers(1, 255), st.integers(-2, L + mps + 1)).map(
            lambda x: min(0xFFFF, max(1, ((x[1] << x[0]) & 0xFFFF) + x[2])))
        return st.one_of(st.sampled_from(near), st.integers(1, 400), big, st.integers(1, 0xFFFF))

    present = st.sampled_from(keys)
    types = sorted({k[0] for k in keys})
    absent = st.one_of(
        st.tuples(st.sampled_from(types), st.integers(0, 255)),          # existing type, arbitrary index
        st.tuples(st.integers(0, MAX_TYPE), st.sampled_from(sorted({k[1] for k in keys}))),
        st.tuples(st.integers(0, 255), st.integers(0, 255)),
    )
    key = st.one_of(present, present, present, absent).map(tuple)
    if present_percent is not None:
        # one_of flattens the nested alternatives of `absent`, which makes non-existing requests the majority; the
        # whole-device sub wants mostly existing descriptors (sequences of transfers that deliver data)
        key = st.integers(0, 99).flatmap(lambda n: present if n < present_percent else absent).map(tuple)
    return key.flatmap(lambda k: st.fixed_dictionaries(dict(
        type=st.just(k[0]), index=st.just(k[1]), wlen=wlen_for(k),
        retries=st.lists(weighted([(0, 5), (1, 2), (2, 1)]), max_size=4),
        gap=st.integers(1, 8), ack_delay=st.integers(1, 6))))


class PoolSub(Sub):
    name = "handlers"
    budget = {"quick": 3000, "thorough": 40000}
    shrink_budget = 300
    rule = ("GetDescriptorHandlerBlock / Distributed / Mux(block+distributed with runtime descriptors) / Distributed "
            "with runtime descriptors, built by StandardRequestHandler.get_descriptor_handler_submodule for 8 fixed "
            "collections (consecutive and sparse indices, single descriptor, lengths 1..300 incl. exact multiples of "
            "the packet size) x mps 8/16/32/64 (26 elaborations). 1-4 requests per case (existing / non-existing near "
            "misses, wLength around the descriptor length, multiples of mps, 255, 0xFFFF, any value 1..0xFFFF, and large "
            "buffer sizes m*2^n (n 8..15) -2..+len+mps+1 so the remaining count crosses every power-of-two boundary "
            "inside the descriptor), lost-ACK retries, PHY stalls. "
            "Oracle: each start yields exactly the model's packet desc[pos:min(pos+mps,min(wLength,len))], a ZLP when "
            "the total is a non-zero multiple of mps below wLength, the stage completes, missing descriptors stall "
            "without data, existing ones never stall. Non-trivial = total a multiple of mps, or wLength < length, or "
            "a sparse/high index.")

    def setup(self):
        self.h = {}

    def harness(self, cfg):
        if cfg not in self.h:
            pool, mps, kind = CONFIGS[cfg]
            self.h[cfg] = harness_for(build_handler(POOL[pool], mps, kind))
        return self.h[cfg]

    def strategy(self):
        def case(cfg):
            pool, mps, kind = CONFIGS[cfg]
            table = table_of(POOL[pool])
            return st.fixed_dictionaries(dict(
                cfg=st.just(cfg), phy=G.phy, pid_wait=G.pid_wait,
                rq=st.lists(request_strategy(table, mps), min_size=1, max_size=4)))
        return st.integers(0, len(CONFIGS) - 1).flatmap(case)

    def run(self, case):
        pool, mps, kind = CONFIGS[case["cfg"]]
        drv = DescDriver(case["rq"], mps, case["phy"], case["pid_wait"])
        self.harness(case["cfg"]).run_driver(drv, 400000)
        if drv.done is None:
            raise RuntimeError("driver did not finish")
        res, labels, nt = judge(drv.log, table_of(POOL[pool]), mps)
        labels.add(kind)
        labels.add(f"mps={mps}")
        if res is not None:
            return classify(res, kind, POOL[pool], f"collection {pool}")
        return Result(ok=True, nontrivial=nt, labels=tuple(sorted(labels)))


class GenCollectionSub(Sub):
    """Collections generated by Hypothesis; one elaboration per case, so the budget is small."""
    name = "gen-collections"
    budget = {"quick": 96, "thorough": 3000}
    shrink_budget = 60
    rule = ("Hypothesis-generated collections (1-8 descriptors, types 1..15, sparse indices 0..255, lengths 1..300 "
            "biased to multiples of the packet size, optional automatic language descriptor, optional runtime "
            "descriptors) x mps 8/16/32/64 x handler kind; one elaboration per case; same driver and oracle as "
            "`handlers`. Non-trivial as in `handlers`.")

    def strategy(self):
        def coll(mps):
            length = st.one_of(st.sampled_from([1, 2, mps - 1, mps, mps + 1, 2 * mps, 3 * mps, 4 * mps]),
                               st.integers(1, 300), st.integers(1, 40))
            index = st.one_of(st.integers(0, 3), st.integers(0, 255))
            d = st.tuples(st.integers(1, MAX_TYPE), index, length, st.integers(0, 1))
            # every real collection holds the 18-byte device descriptor (also keeps the longest descriptor >= 4 bytes,
            # below which GetDescriptorHandlerBlock cannot be elaborated)
            dev = [1, 0, 18, 0]
            return st.lists(d, min_size=0, max_size=7, unique_by=lambda x: (x[0], x[1])).map(
                lambda l: [dev] + [list(x) for x in l if (x[0], x[1]) != (1, 0)])

        def case(mps):
            return st.fixed_dictionaries(dict(
                mps=st.just(mps), kind=st.sampled_from(["block", "dist", "mux", "distmix"]),
                auto_lang=st.booleans(), d=coll(mps), phy=G.phy, pid_wait=G.pid_wait)).flatmap(
                    lambda c: st.fixed_dictionaries(dict(
                        {k: st.just(v) for k, v in c.items()},
                        rq=st.lists(request_strategy(table_of(dict(auto_lang=c["auto_lang"], d=c["d"])), mps),
                                    min_size=2, max_size=8))))
        return st.sampled_from([8, 16, 32, 64]).flatmap(case)

    def run(self, case):
        spec = dict(auto_lang=case["auto_lang"], d=[tuple(x) for x in case["d"]])
        kind, mps = case["kind"], case["mps"]
        if kind in ("mux", "distmix") and not any(x[3] for x in spec["d"]):
            kind = "block" if kind == "mux" else "dist"        # no runtime descriptor: StandardRequestHandler builds these
        h = harness_for(build_handler(spec, mps, kind))
        drv = DescDriver(case["rq"], mps, case["phy"], case["pid_wait"])
        h.run_driver(drv, 400000)
        if drv.done is None:
            raise RuntimeError("driver did not finish")
        res, labels, nt = judge(drv.log, table_of(spec), mps)
        labels.add(kind)
        if res is not None:
            return classify(res, kind, spec, "generated collection")
        return Result(ok=True, nontrivial=nt, labels=tuple(sorted(labels)))


# ====================================================================================================================
# Integration: the whole USB device (USBDevice + standard control endpoint) behind a bare UTMI bus, read by a host.
# The continuation offset, the per-packet ACK bookkeeping and the start of each data stage live in
# StandardRequestHandler / USBControlEndpoint, not in the descriptor handlers, so they are only visible here.
# ====================================================================================================================
from amaranth import Elaboratable, Module, Signal, Cat          # noqa: E402
from lunaverif.ref import usb2 as U                            # noqa: E402

# (pool, ep0 max packet size, handler kind) -- every handler kind and every packet size, long and short descriptors
DEV_CONFIGS = [("P0", 8, "block"), ("P3", 64, "dist"), ("P1", 16, "dist"), ("P3", 32, "block"),
               ("P2", 64, "block"), ("P4", 8, "dist"), ("M0", 8, "mux"), ("M1", 64, "distmix")]
# (append only: replays store the index; each worker elaborates the configurations it meets, ~1 s each)

DEV_RESPONSE_WINDOW = 18      # cycles the host waits for the start of a response (bare UTMI: 1 cycle = 1 FS bit time)
J_STATE = 0b01

#: standard requests other than GET_DESCRIPTOR used as surrounding traffic (never judged): (setup fields, data stage)
OTHER_REQUESTS = {
    "get_status": ((0x80, 0, 0, 0, 2), "in"),
    "get_configuration": ((0x80, 8, 0, 0, 1), "in"),
    "set_configuration": ((0x00, 9, 1, 0, 0), None),
    "get_interface": ((0x81, 10, 0, 0, 1), "in"),          # not implemented by the standard handler: STALLed
    "clear_feature": ((0x02, 1, 0, 0x81, 0), None),
}


class _CtrlDevice(Elaboratable):
    """USBDevice(bus=UTMIInterface()) with only the standard control endpoint: `add_standard_control_endpoint(
    descriptors, avoid_blockram=)` for the default 64-byte ep0, USBControlEndpoint(max_packet_size=) otherwise."""

    def __init__(self, spec, mps, kind):
        from luna.gateware.interface.utmi import UTMIInterface
        self.utmi = UTMIInterface()
        self.connect = Signal()
        self.obs = Signal(9, name="c09_obs")                     # tx_valid | tx_data << 1 (one sampled word)
        self.collection = build_collection(spec, kind)
        self.mps, self.avoid = mps, kind in ("dist", "distmix")

    def elaborate(self, platform):
        from luna.gateware.usb.usb2.device import USBDevice
        m = Module()
        m.submodules.usb = usb = USBDevice(bus=self.utmi)
        if self.mps == 64:
            usb.add_standard_control_endpoint(self.collection, avoid_blockram=self.avoid)
        else:
            # what add_standard_control_endpoint does (device.py), with the endpoint's public max_packet_size argument
            from luna.gateware.usb.usb2.control import USBControlEndpoint
            ep = USBControlEndpoint(utmi=usb.utmi, max_packet_size=self.mps)
            ep.add_standard_request_handlers(self.collection, avoid_blockram=self.avoid)
            usb.add_endpoint(ep)
        m.d.comb += [usb.connect.eq(self.connect), self.obs.eq(Cat(self.utmi.tx_valid, self.utmi.tx_data))]
        return m


def device_harness(spec, mps, kind):
    dut = _CtrlDevice(spec, mps, kind)
    u = dut.utmi
    ins = dict(rx_active=u.rx_active, rx_valid=u.rx_valid, rx_data=u.rx_data, tx_ready=u.tx_ready,
               line_state=u.line_state, connect=dut.connect)
    return CycleHarness(dut, ins, dict(obs=dut.obs), domain="usb", period=1 / 12e6)


class CtrlHost:
    """A host reading descriptors from address 0 / endpoint 0, closed loop (it reacts to what the device sent, like a
    real host: stops after a short packet or wLength bytes, re-issues IN after a lost ACK, may abandon a transfer at
    any packet boundary and start the next SETUP).  Soundness as in DESIGN.md section 3: rx_valid => rx_active,
    rx_active rises >= 1 cycle before the first byte, >= 2 idle cycles between packets, the host never transmits
    while the device does, ACKs only a CRC-valid data packet, waits the whole response window."""

    def __init__(self, requests, mps, tm, txr):
        self.requests, self.mps = requests, mps
        self.tm = list(tm) or [0]
        self.txr = list(txr) or [1]
        if not any(self.txr):
            self.txr = self.txr + [1]
        self.k = 0
        self.t = 0
        self.txr_prev = 0
        self.records = []
        self.error = None             # (signature, message): protocol-level misbehaviour seen by the host
        self.finished = False
        self.first = True
        self.g = self._host()

    def _tv(self):
        v = self.tm[self.k % len(self.tm)]
        self.k += 1
        return v

    def step(self, t, prev):
        self.t = t
        try:
            if self.first:
                self.first = False
                h = next(self.g)
            else:
                h = self.g.send(prev)
        except StopIteration:
            self.finished = True
            return None
        upd = dict(h)
        r = self.txr[t % len(self.txr)]
        upd["tx_ready"] = r
        self.txr_prev = r
        return upd

    class Stop(Exception):
        pass

    def _bad(self, sig, msg):
        if self.error is None:
            self.error = (sig, msg)
        raise self.Stop()

    def _idle(self, n):
        for _ in range(n):
            o = yield {"rx_active": 0, "rx_valid": 0}
            if o.obs & 1:
                self._bad("unsolicited-tx", f"device drives tx_valid in cycle {self.t - 1} although nothing awaits a response")

    def _send(self, data):
        for _ in range(1 + self._tv() % 3):
            o = yield {"rx_active": 1, "rx_valid": 0}
            self._no_tx(o)
        n = len(data)
        for i, b in enumerate(data):
            o = yield {"rx_active": 1, "rx_valid": 1, "rx_data": b}
            self._no_tx(o)
            if i != n - 1:
                for _ in range(self._tv() % 4):
                    o = yield {"rx_active": 1, "rx_valid": 0}
                    self._no_tx(o)
        for _ in range(self._tv() % 3):
            o = yield {"rx_active": 1, "rx_valid": 0}
            self._no_tx(o)

    def _no_tx(self, o):
        if o.obs & 1:
            self._bad("tx-during-rx", f"device drives tx_valid in cycle {self.t - 1} while a host packet is in progress")

    def _response(self):
        """-> parsed response dict (ref.usb2.parse) with the cycle stamps, or dict(kind='none')."""
        o = None
        for _ in range(DEV_RESPONSE_WINDOW):
            o = yield {"rx_active": 0, "rx_valid": 0}
            if o.obs & 1:
                break
        else:
            return dict(kind="none")
        start = self.t - 1
        raw = []
        limit = (self.mps + 8) * (len(self.txr) + 1) + 64
        while o.obs & 1:
            if self.txr_prev:
                raw.append((o.obs >> 1) & 0xFF)
            if self.t - start > limit:
                self._bad("tx-stuck", f"tx_valid held for more than {limit} cycles from cycle {start}")
            o = yield {}
        r = dict(U.parse(raw))
        r.update(t=(start, self.t - 2), raw=list(raw))
        if "payload" in r:
            r["payload"] = list(r["payload"])
        return r

    def _in(self, ack):
        """IN transaction on ep0; NAKs are retried (bounded).  -> response"""
        r = None
        for _ in range(4):
            yield from self._send(U.token(U.PID_IN, 0, 0))
            r = yield from self._response()
            if r["kind"] == "data" and ack:
                yield from self._idle(2 + self._tv() % 3)
                yield from self._send(U.handshake(U.PID_ACK))
            yield from self._idle(2 + self._tv() % 5)
            if not (r["kind"] == "handshake" and r["pid"] == U.PID_NAK):
                break
        return r

    def _setup(self, fields):
        yield from self._send(U.token(U.PID_SETUP, 0, 0))
        yield from self._idle(2 + self._tv() % 4)
        yield from self._send(U.data_packet(U.PID_DATA0, U.setup_payload(*fields)))
        r = yield from self._response()
        yield from self._idle(2 + self._tv() % 5)
        return r

    def _status_out(self):
        yield from self._send(U.token(U.PID_OUT, 0, 0))
        yield from self._idle(2 + self._tv() % 4)
        yield from self._send(U.data_packet(U.PID_DATA1, b""))
        r = yield from self._response()
        yield from self._idle(2 + self._tv() % 5)
        return r

    def _host(self):
        yield {"connect": 1, "line_state": J_STATE, "rx_active": 0, "rx_valid": 0, "rx_data": 0}
        try:
            yield from self._idle(3)
            for rq in self.requests:
                yield from self._request(rq)
            yield from self._idle(8)
        except self.Stop:
            return

    def _request(self, rq):
        kind = rq.get("kind", "get_descriptor")
        abandon = rq.get("abandon")                 # None, or the number of ACKed data packets after which the host walks away
        rec = dict(rq=rq, kind=kind, stages=[], abandoned=False, t=self.t)
        self.records.append(rec)
        if kind != "get_descriptor":
            fields, data = OTHER_REQUESTS[kind]
            rec["setup"] = yield from self._setup(fields)
            if abandon is not None and abandon == 0:
                rec["abandoned"] = True
                return
            if data == "in":
                r = yield from self._in(1)
                if abandon is not None or r["kind"] != "data":
                    rec["abandoned"] = True
                    return
                yield from self._status_out()
            else:
                yield from self._in(1)              # status stage: a ZLP, or a STALL
            return
        wl = rq["wlen"]
        rec["setup"] = yield from self._setup((0x80, 6, (rq["type"] << 8) | rq["index"], rq.get("windex", 0), wl))
        yield from self._idle(rq.get("gap", 3))
        pos, got, k = 0, 0, 0
        max_iter = min(wl, 320) // self.mps + 3
        complete = False
        while k < max_iter:
            if abandon is not None and k >= abandon:
                rec["abandoned"] = True
                if rq.get("abandon_noack"):
                    # one more IN whose data packet the host does not acknowledge (it gave up on the transfer)
                    r = yield from self._in(0)
                    rec["stages"].append(dict(pos=pos, attempt=0, resp=r, acked=False))
                return
            retries = rq["retries"][k % len(rq["retries"])] if rq.get("retries") else 0
            r = None
            for attempt in range(1 + retries):
                ack = attempt == retries
                r = yield from self._in(1 if ack else 0)
                rec["stages"].append(dict(pos=pos, attempt=attempt, resp=r, acked=bool(ack and r["kind"] == "data")))
                if r["kind"] != "data":
                    break
                yield from self._idle(rq.get("ack_delay", 3))
            k += 1
            if r["kind"] != "data":
                return                               # STALL / silence / garbage: the transfer is over for the host
            n = len(r["payload"])
            got += n
            if n < self.mps or got >= wl:
                complete = True
                break
            pos += self.mps
        rec["complete"] = complete
        if rq.get("status", 1):
            rec["status"] = yield from self._status_out()
        else:
            rec["abandoned"] = True


def judge_device(records, table, mps):
    """The statement, per GET_DESCRIPTOR request, over what the host received.  -> (fail Result | None, labels, nontrivial)"""
    labels = set()
    nontrivial = False
    prev_abandoned = None
    for rec in records:
        was_after, prev_abandoned = prev_abandoned, None
        if rec["abandoned"]:
            acked = sum(1 for s_ in rec["stages"] if s_.get("acked"))
            prev_abandoned = f"{rec['kind']} abandoned after {acked} acknowledged data packet(s)"
        if rec["kind"] != "get_descriptor":
            labels.add("other:" + rec["kind"])
            continue
        rq = rec["rq"]
        key, wl = (rq["type"], rq["index"]), rq["wlen"]
        hist = f" (directly after: {was_after})" if was_after else ""
        what = f"GET_DESCRIPTOR type {key[0]} index {key[1]} wLength {wl} mps {mps}{hist}"
        sfx = "-after-abandoned-transfer" if was_after else ""
        if was_after:
            labels.add("after-abandoned")
        if rec["abandoned"]:
            labels.add("abandoned")
        if key not in table:
            labels.add("absent")
            if not rec["stages"]:
                continue
            r = rec["stages"][0]["resp"]
            if r["kind"] in ("data", "data-badcrc", "data-short"):
                return fail(f"{what}: descriptor does not exist but the device sent data {r['raw'][:10]} (cycles {r['t']})",
                            signature="data-for-missing-descriptor" + sfx), labels, False
            if not (r["kind"] == "handshake" and r["pid"] == U.PID_STALL):
                return fail(f"{what}: descriptor does not exist but the first IN was answered with "
                            f"{r['kind']} {r.get('raw', [])[:4]} instead of STALL",
                            signature="no-stall-for-missing-descriptor" + sfx), labels, False
            continue
        desc = table[key]
        L = len(desc)
        total = min(wl, L)
        labels.add("present")
        got = 0
        for s_ in rec["stages"]:
            pos, r = s_["pos"], s_["resp"]
            if pos < total:
                exp = list(desc[pos:min(pos + mps, total)])
            elif pos == total and total % mps == 0 and total < wl:
                exp = []
            else:
                # the host only asks again after a full-size packet below wLength, so this position can only be
                # reached after an earlier packet that already differed
                return fail(f"{what}: host was led to position {pos} beyond the stage (total {total})",
                            signature="stage-overrun" + sfx), labels, False
            where = f"descriptor length {L}, position {pos} (attempt {s_['attempt']})"
            if r["kind"] == "handshake" and r["pid"] == U.PID_STALL:
                return fail(f"{what}: {where}: existing descriptor STALLed", signature="stall-for-existing-descriptor" + sfx), labels, False
            if r["kind"] != "data":
                sig = "no-zlp-at-descriptor-end" if not exp else ("no-packet" if r["kind"] == "none" else "malformed-packet")
                return fail(f"{what}: {where}: expected {'a ZLP' if not exp else f'{len(exp)} bytes'}, device answered "
                            f"{r['kind']} {r.get('raw', [])[:12]}", signature=sig + sfx), labels, False
            if r["payload"] != exp:
                sig = "data-mismatch"
                if not exp:
                    sig = "no-zlp-at-descriptor-end"
                elif len(r["payload"]) != len(exp):
                    sig = "wrong-packet-length"
                return fail(f"{what}: {where}: sent {len(r['payload'])} bytes {r['payload'][:10]}, expected {len(exp)} bytes "
                            f"{exp[:10]} (cycles {r['t']})", signature=sig + sfx), labels, False
            if s_["acked"]:
                got += len(exp)
                if not exp:
                    labels.add("zlp-terminated")
            if s_["attempt"]:
                labels.add("retry")
        if "complete" in rec:
            if not rec["complete"] or got != total:
                return fail(f"{what}: stage ended after {got} of {total} bytes (descriptor length {L})",
                            signature="stage-incomplete" + sfx), labels, False
            if total % mps == 0:
                labels.add("multiple-of-mps")
            if wl < L:
                labels.add("wlen<len")
            if total % mps == 0 or wl < L or key[1] > 3:
                nontrivial = True
    return None, labels, nontrivial


def device_request_strategy(table, mps):
    base = request_strategy(table, mps, present_percent=80)
    abandon = st.one_of(st.none(), st.none(), weighted([(1, 4), (2, 3), (3, 2), (0, 1), (5, 1)]))
    gd = base.flatmap(lambda b: st.fixed_dictionaries(dict(
        {k: st.just(v) for k, v in b.items()}, kind=st.just("get_descriptor"),
        abandon=abandon, abandon_noack=weighted([(0, 3), (1, 1)]), status=weighted([(1, 5), (0, 1)]))))
    other = st.fixed_dictionaries(dict(kind=st.sampled_from(sorted(OTHER_REQUESTS)),
                                       abandon=st.one_of(st.none(), st.none(), st.integers(0, 1))))
    return st.one_of(gd, gd, gd, gd, other)


class DeviceSub(Sub):
    name = "device"
    budget = {"quick": 480, "thorough": 8000}
    shrink_budget = 120
    rule = ("whole device: USBDevice(bare UTMI, full speed) + standard control endpoint (add_standard_control_endpoint / "
            "USBControlEndpoint(max_packet_size).add_standard_request_handlers, avoid_blockram False/True) for 8 (collection, ep0 packet size 8/16/32/64, handler block/distributed/mux/distributed-with-"
            "runtime) configurations, address 0. A closed-loop host issues 2-6 control transfers: GET_DESCRIPTOR (existing / "
            "near-miss non-existing, wLength around the length, multiples of mps, 255, 0xFFFF, any value 1..0xFFFF, large "
            "buffer sizes m*2^n-2..+len+mps+1) read with IN tokens in "
            "packet-size pieces with lost-ACK retries, each either completed with its status stage or ABANDONED (after 0-5 "
            "acknowledged packets, optionally after one more un-acknowledged packet, or after the whole data stage without "
            "status stage) and directly followed by the next SETUP; other standard requests (GET_STATUS, "
            "GET/SET_CONFIGURATION, CLEAR_FEATURE, unsupported GET_INTERFACE; completed or abandoned) as surrounding "
            "traffic; byte bubbles, rx_active lead/tail, PHY tx_ready patterns. Oracle (from the collection spec only): "
            "every data packet received at host position p equals desc[p:min(p+mps, min(wLength,len))] (so each is <= mps), "
            "a ZLP when the total is a non-zero multiple of mps below wLength, a completed stage delivered exactly "
            "min(wLength,len) bytes, non-existing descriptors STALL the first IN without data, existing ones never STALL; "
            "abandoned requests are judged on the packets they did read. Handshakes to SETUP/status stages and data PIDs "
            "are not judged here. Non-trivial as in `handlers` (over completed requests).")

    def setup(self):
        self.h = {}

    def harness(self, cfg):
        if cfg not in self.h:
            pool, mps, kind = DEV_CONFIGS[cfg]
            self.h[cfg] = device_harness(POOL[pool], mps, kind)
        return self.h[cfg]

    def strategy(self):
        def case(cfg):
            pool, mps, kind = DEV_CONFIGS[cfg]
            table = table_of(POOL[pool])
            return st.fixed_dictionaries(dict(
                cfg=st.just(cfg),
                tm=st.one_of(st.just([0]), st.lists(weighted([(0, 4), (1, 2), (2, 1), (3, 1)]), min_size=1, max_size=7)),
                txr=st.one_of(st.just([1]), st.just([1]), st.sampled_from([[1, 0], [1, 0, 0, 0], [1, 1, 0], [0, 0, 1]])),
                rq=st.lists(device_request_strategy(table, mps), min_size=2, max_size=6)))
        return st.integers(0, len(DEV_CONFIGS) - 1).flatmap(case)

    def run(self, case):
        pool, mps, kind = DEV_CONFIGS[case["cfg"]]
        host = CtrlHost(case["rq"], mps, case.get("tm", [0]), case.get("txr", [1]))
        self.harness(case["cfg"]).run_driver(host, 120000)
        if not host.finished:
            raise RuntimeError("host program did not finish")
        res, labels, nt = judge_device(host.records, table_of(POOL[pool]), mps)
        labels.add(kind)
        labels.add(f"mps={mps}")
        if res is None and host.error is not None:
            res = fail(host.error[1], signature=host.error[0])
        if res is not None:
            res.signature = f"device-{kind}-{res.signature}"
            res.msg = f"[whole device, {kind} handler, collection {pool}] " + res.msg
            return res
        return Result(ok=True, nontrivial=nt, labels=tuple(sorted(labels)))


SUBS = [PoolSub(), GenCollectionSub(), DeviceSub()]
