"""C05 — Inter-packet response timing matches the selected bus speed."""
from hypothesis import strategies as st

from lunaverif.core import Sub, Result, fail
from lunaverif.simkit import CycleHarness
from lunaverif.gen import long_lists, weighted

PROPERTY = "C05"
ASSUMPTIONS = [
    "time is measured in clock periods from the clock edge that samples the start strobe (or releases reset): a start "
    "asserted in cycle s puts 'N cycles later' in cycle s+1+N; after reset, cycle N",
    "the delay table is entered from the statement: HS 1 / 24 / 92 cycles (8 / - / 736 bit times at 8 bits per 60 MHz "
    "cycle); FS 2 / 6.5 / 16 bit times = 10 / 32.5 / 80 cycles at 60 MHz and 2 / 6.5 / 16 cycles at 12 MHz; LS 2 / 6.5 / 16 "
    "low-speed bit times = 80 / 260 / 640 cycles at 60 MHz; the half-cycle of 6.5 FS bit times may be rounded either "
    "way (32 or 33 at 60 MHz, 6 or 7 at 12 MHz) but the deadline strobe must occur exactly once",
    "speed takes only the values HIGH/FULL/LOW; in fs_only builds only FULL is asserted on (statement)",
    "a reset of the usb clock domain (ResetInserter around the timer) asserted in cycle s restarts the measurement exactly "
    "like a start asserted in cycle s (statement: 'from the most recent timer start (or reset)')",
    "each strobe is expected only in its exact cycle (it is a strobe) and on every attached interface",
]

HIGH, FULL, LOW = 0, 1, 2
SPEED_NAMES = {HIGH: "HS", FULL: "FS", LOW: "LS"}

# (domain clock, fs_only)
CONFIGS = [(60e6, False), (60e6, True), (12e6, True)]


def table(clock, speed):
    """-> (allowed, {deadline options}, timeout) in cycles, from the statement (never from the DUT)."""
    if speed == HIGH:
        return 1, {24}, 736 // 8
    bit = {FULL: clock / 12e6, LOW: clock / 1.5e6}[speed]          # cycles per bit time
    d = 6.5 * bit
    lo = int(d)
    return int(2 * bit), ({lo} if lo == d else {lo, lo + 1}), int(16 * bit)


assert table(60e6, FULL) == (10, {32, 33}, 80) and table(12e6, FULL) == (2, {6, 7}, 16)
assert table(60e6, LOW) == (80, {260}, 640) and table(60e6, HIGH) == (1, {24}, 92)


def _harness(clock, fs_only):
    from luna.gateware.usb.usb2.packet import USBInterpacketTimer, InterpacketTimerInterface
    dut = USBInterpacketTimer(domain_clock=clock, fs_only=fs_only)
    a, b = InterpacketTimerInterface(), InterpacketTimerInterface()
    dut.add_interface(a)
    dut.add_interface(b)
    # a synchronous reset of the timer's clock domain, applied from outside (the statement's "or reset")
    from amaranth import Signal, ResetInserter
    rst = Signal()
    return CycleHarness(
        ResetInserter({"usb": rst})(dut), dict(speed=dut.speed, s0=a.start, s1=b.start, rst=rst),
        dict(a0=a.tx_allowed, d0=a.tx_timeout, t0=a.rx_timeout, a1=b.tx_allowed, d1=b.tx_timeout, t1=b.rx_timeout),
        domain="usb", period=1 / clock)


NEAR = [0, 1, 2, 3, 6, 7, 8, 9, 10, 11, 12, 15, 16, 17, 18, 23, 24, 25, 26, 31, 32, 33, 34, 35, 79, 80, 81, 82, 83,
        91, 92, 93, 94, 95, 259, 260, 261, 262, 263, 639, 640, 641, 642, 643, 660, 700]


class Timer(Sub):
    name = "timer"
    budget = {"quick": 5000, "thorough": 80000}
    rule = ("USBInterpacketTimer built for (60 MHz, all speeds), (60 MHz, fs_only), (12 MHz, fs_only) with two attached "
            "interfaces; 1..8 segments, each = optional start strobe (either or both interfaces, held 1..3 cycles) with a "
            "speed in {HS,FS,LS}, then a wait drawn from values around every table entry / short restarts / long silences "
            "up to 700 cycles, optionally with a speed switch in the middle of the wait; the first segment may omit the "
            "start (measured from reset); plus one enumerated 66 300-cycle silence per configuration and speed. Oracle: per cycle, tx_allowed / tx_timeout / rx_timeout of both interfaces must "
            "equal (elapsed == table[current speed]) with the table entered from the statement. non-trivial = every speed "
            "the build asserts on has >=1 expected strobe observed AND >=1 restart before the running measurement expired")

    def setup(self):
        self.h = {}

    def harness(self, i):
        if i not in self.h:
            self.h[i] = _harness(*CONFIGS[i])
        return self.h[i]

    def strategy(self):
        wait = st.one_of(st.sampled_from(NEAR), st.sampled_from(NEAR), st.integers(0, 40), st.integers(0, 700))
        seg = st.fixed_dictionaries(dict(
            start=weighted([(1, 4), (2, 2), (3, 1), (0, 1), (4, 2)]),  # bit0: interface 0, bit1: interface 1, 4: domain reset
            hold=weighted([(1, 6), (2, 1), (3, 1)]),
            speed=st.sampled_from([HIGH, FULL, LOW]),
            wait=wait,
            switch=st.one_of(st.none(), st.tuples(st.integers(0, 700), st.sampled_from([HIGH, FULL, LOW]))),
        ))
        return st.fixed_dictionaries(dict(
            cfg=weighted([(0, 4), (1, 1), (2, 1)]),
            segs=long_lists(seg, min_size=1, max_size=8, average=4),
        ))

    def enumerate(self, tier):
        # long silences: one start (or the power-on reset), then 66 300 cycles (> 2^16 + the longest table entry)
        # without any further start -- the strobes belong to the most recent start only, however long ago it was
        out = []
        for ci, (clock, fs_only) in enumerate(CONFIGS):
            for sp in ([FULL] if fs_only else [HIGH, FULL, LOW]):
                out.append(dict(cfg=ci, segs=[dict(start=1 if sp != FULL else 0, hold=1, speed=sp, wait=66300, switch=None)]))
        return out

    def run(self, case):
        clock, fs_only = CONFIGS[case["cfg"]]
        script = []
        for i, sg in enumerate(case["segs"]):
            st_bits = sg["start"]
            if st_bits:
                for _ in range(sg["hold"]):
                    script.append(dict(speed=sg["speed"], s0=st_bits & 1, s1=(st_bits >> 1) & 1, rst=st_bits >> 2))
            sp = sg["speed"]
            for k in range(sg["wait"] + 1):
                if sg["switch"] is not None and k == sg["switch"][0]:
                    sp = sg["switch"][1]
                script.append(dict(speed=sp, s0=0, s1=0, rst=0))
        trace = self.harness(case["cfg"]).run_script(script)

        elapsed = 0
        measured = set()
        restart_early = False
        labels = {f"clk{int(clock / 1e6)}" + ("-fsonly" if fs_only else "")}
        for t, (vec, o) in enumerate(zip(script, trace)):
            sp = vec["speed"]
            started = vec["s0"] | vec["s1"] | vec["rst"]
            if not (fs_only and sp != FULL):
                allowed, deadline, timeout = table(clock, sp)
                got = (o.a0, o.d0, o.t0)
                if (o.a1, o.d1, o.t1) != got:
                    return fail(f"cycle {t}: the two attached interfaces disagree: {o}", signature="interfaces-differ")
                exp_a, exp_t = int(elapsed == allowed), int(elapsed == timeout)
                ok_d = (o.d0 == 1 and elapsed in deadline) or (o.d0 == 0 and (elapsed not in deadline or len(deadline) == 2))
                if (o.a0, o.t0) != (exp_a, exp_t) or not ok_d:
                    which = "+".join(n for n, bad in (("tx_allowed", o.a0 != exp_a), ("tx_timeout", not ok_d),
                                                       ("rx_timeout", o.t0 != exp_t)) if bad)
                    sig = f"{SPEED_NAMES[sp]}-{which}-mismatch"
                    if sp == LOW and not fs_only:
                        ha, hd, ht = table(clock, HIGH)
                        la, ld, lt = table(clock, LOW)
                        if got == (int(elapsed == ha), int(elapsed in hd), int(elapsed == ht)) and \
                                elapsed in (ha, ht, la, lt) + tuple(hd) + tuple(ld):
                            sig = "ls-uses-hs-timing"
                    return fail(f"{int(clock / 1e6)} MHz fs_only={fs_only} speed={SPEED_NAMES[sp]} cycle {t}, {elapsed} cycles "
                                f"after the last start: (tx_allowed, tx_timeout, rx_timeout)={got}, expected tx_allowed at "
                                f"{allowed}, tx_timeout at {sorted(deadline)}, rx_timeout at {timeout}", signature=sig)
                if any(got):
                    measured.add(sp)
                    labels.add(SPEED_NAMES[sp] + "-" + "+".join(n for n, v in zip(("allowed", "deadline", "timeout"), got) if v))
                if started and elapsed < timeout and t > 0:
                    restart_early = True
            if started:
                elapsed = 0
            else:
                elapsed += 1
        # where two roundings of the 6.5-bit deadline are admissible, the strobe must still occur exactly once
        res = self._deadline_once(case, script, trace, clock, fs_only)
        if res is not None:
            return res
        if restart_early:
            labels.add("restart-before-expiry")
        if any(sg["switch"] is not None and sg["switch"][0] <= sg["wait"] for sg in case["segs"]):
            labels.add("speed-switch-mid-wait")
        if not case["segs"][0]["start"]:
            labels.add("from-reset")
        if any(sg["wait"] > 65536 for sg in case["segs"]):
            labels.add("silence-over-65536-cycles")
        if any(sg["start"] == 4 for sg in case["segs"][1:]):
            labels.add("domain-reset-mid-run")
        need = {FULL} if fs_only else {HIGH, FULL, LOW}
        return Result(ok=True, nontrivial=need <= measured and restart_early, labels=tuple(sorted(labels)))

    @staticmethod
    def _deadline_once(case, script, trace, clock, fs_only):
        """Where the deadline has two admissible cycles, the strobe must be seen in exactly one of them whenever the
        measurement runs through both at a constant asserted speed."""
        elapsed = 0
        hits = 0
        for t, (vec, o) in enumerate(zip(script, trace)):
            sp = vec["speed"]
            started = vec["s0"] | vec["s1"] | vec["rst"]
            if not (fs_only and sp != FULL):
                _, deadline, _ = table(clock, sp)
                if len(deadline) == 2:
                    lo, hi = sorted(deadline)
                    if elapsed == lo:
                        hits = o.d0
                    elif elapsed == hi and t >= 1 and not (script[t - 1]["s0"] | script[t - 1]["s1"] | script[t - 1]["rst"]) and \
                            script[t - 1]["speed"] == sp:
                        hits += o.d0
                        if hits != 1:
                            return fail(f"{int(clock / 1e6)} MHz speed={SPEED_NAMES[sp]}: tx_timeout strobed {hits} times in "
                                        f"cycles {t - 1}..{t} ({lo}/{hi} cycles after start), expected exactly once",
                                        signature=f"{SPEED_NAMES[sp]}-tx_timeout-count")
            elapsed = 0 if started else elapsed + 1
        return None


SUBS = [Timer()]
