"""C28 — OUT boundary detection marks first/last bytes and delays completion."""
from hypothesis import strategies as st

from lunaverif.core import Sub, Result, fail
from lunaverif.simkit import CycleHarness
from lunaverif.gen import long_lists, weighted
from lunaverif.bfm import g1_rx as rx

PROPERTY = "C28"
ASSUMPTIONS = [
    "the raw stream is what USBDataPacketReceiver.stream produces: valid high around each packet, one byte per 'next' "
    "cycle, valid stays high >= 1 cycle after the last byte (the receiver sees rx_active fall one cycle later), valid "
    "low >= 5 cycles between packets (2 idle UTMI cycles + PID + the receiver's two-byte pipeline)",
    "at most one of complete_in / invalid_in is pulsed per packet, for one cycle (C02: a packet never raises both); it is "
    "pulsed no earlier than the cycle after the packet's first byte and no later than the first cycle valid is low (the "
    "real receiver pulses it exactly in that last cycle; earlier positions are the statement's 'strobes at any point')",
    "a strobe in the very cycle of the first byte, or outside any packet (zero-length packets: valid without bytes), is "
    "not judged: the statement only speaks about strobes seen during a packet that has bytes",
    "first/last are only meaningful in cycles where processed_stream.next is high",
]


def _harness():
    from luna.gateware.usb.stream import USBOutStreamBoundaryDetector
    dut = USBOutStreamBoundaryDetector()
    i, o = dut.unprocessed_stream, dut.processed_stream
    return CycleHarness(
        dut,
        dict(valid=i.valid, next=i.next, payload=i.payload, cin=dut.complete_in, iin=dut.invalid_in),
        dict(ov=o.valid, on=o.next, op=o.payload, first=dut.first, last=dut.last, co=dut.complete_out, io=dut.invalid_out),
        domain="usb")


def render(pkts, noise):
    """-> script, info[i] = dict(s=valid rises, f=first byte cycle or None, v=first cycle valid low)"""
    script, info = [], []
    idle = dict(valid=0, next=0, payload=noise, cin=0, iin=0)
    script += [dict(idle)] * 2
    for pk in pkts:
        s = len(script)
        data = pk["data"]
        for _ in range(pk["lead"]):
            script.append(dict(valid=1, next=0, payload=noise, cin=0, iin=0))
        f = None
        gaps = pk["gaps"] or [0]
        for k, b in enumerate(data):
            if k == 0:
                f = len(script)
            script.append(dict(valid=1, next=1, payload=b, cin=0, iin=0))
            if k != len(data) - 1:
                for _ in range(gaps[k % len(gaps)]):
                    script.append(dict(valid=1, next=0, payload=noise, cin=0, iin=0))
        for _ in range(max(1, pk["trail"])):
            script.append(dict(valid=1, next=0, payload=noise, cin=0, iin=0))
        v = len(script)
        for _ in range(max(5, pk["idle"])):
            script.append(dict(idle))
        # strobe placement
        kind = pk["strobe"]
        at = None
        if kind:
            if f is None:
                at = v                                    # zero-length packet: the receiver still strobes at v
            else:
                lo, hi = f + 1, v
                at = hi if pk["pos"] is None else lo + pk["pos"] % (hi - lo + 1)
            script[at] = dict(script[at], **{("cin" if kind == 1 else "iin"): 1})
        info.append(dict(s=s, f=f, v=v, at=at))
    return script, info


class Boundary(Sub):
    name = "boundary"
    budget = {"quick": 15000, "thorough": 150000}
    rule = ("1..10 packets of 0..40 bytes on the raw USBOutStream (lead 0..3 valid cycles before the first byte, per-byte "
            "gaps 0..7, >=1 trailing valid cycle, >=5 idle cycles) each with no strobe / complete_in / invalid_in placed "
            "either in the first valid-low cycle (as the real receiver does) or anywhere from the cycle after the first "
            "byte; oracle over the recorded trace per packet: bytes seen with processed next == the packet's bytes in "
            "order, first only on the first, last only on the final one, complete_out/invalid_out strobed exactly once "
            "iff the matching input strobe was seen during the packet, strictly after the cycle that output the last "
            "byte, and never otherwise. non-trivial = >=1 packet with complete AND >=1 with invalid AND >=1 packet of "
            "1 or 2 bytes AND >=1 strobe placed before the end of its packet")

    def setup(self):
        self.h = _harness()

    def strategy(self):
        pkt = st.fixed_dictionaries(dict(
            data=st.one_of(st.lists(rx.BYTE, min_size=1, max_size=3), rx.payloads(max_len=40, average=8),
                           rx.payloads(max_len=40, average=8)),
            lead=weighted([(0, 2), (1, 4), (2, 1), (3, 1)]),
            gaps=st.lists(weighted([(0, 8), (1, 3), (2, 1), (4, 1), (7, 1)]), min_size=1, max_size=4),
            trail=weighted([(1, 6), (2, 2), (4, 1)]),
            idle=weighted([(5, 4), (6, 2), (9, 1), (20, 1)]),
            strobe=weighted([(1, 4), (2, 3), (0, 2)]),
            pos=st.one_of(st.none(), st.none(), st.integers(0, 400)),
        ))
        return st.fixed_dictionaries(dict(
            pkts=long_lists(pkt, min_size=1, max_size=10, average=5),
            noise=st.sampled_from([0, 0xFF, 0x5A]),
        ))

    def run(self, case):
        pkts = case["pkts"]
        script, info = render(pkts, case["noise"])
        trace = self.h.run_script(script, tail=6)
        labels = set()
        for t in range(0, info[0]["s"]):
            o = trace[t]
            if o.on or o.co or o.io:
                return fail(f"cycle {t}: output before the first packet: {o}", signature="spurious-before-first")
        n_c = n_i = n_small = n_mid = 0
        for i, (pk, inf) in enumerate(zip(pkts, info)):
            lo = inf["s"]
            hi = info[i + 1]["s"] if i + 1 < len(info) else len(trace)
            data = pk["data"]
            outs = [(t, trace[t]) for t in range(lo, hi) if trace[t].on]
            cos = [t for t in range(lo, hi) if trace[t].co]
            ios = [t for t in range(lo, hi) if trace[t].io]

            def what():
                return (f"packet {i} ({len(data)} bytes [{rx.hexs(data[:12])}{' ...' if len(data) > 12 else ''}], valid cycles "
                        f"{inf['s']}..{inf['v'] - 1}, first byte cycle {inf['f']}, strobe "
                        f"{['none', 'complete_in', 'invalid_in'][pk['strobe']]} at {inf['at']})")

            got = [o.op for _, o in outs]
            if got != list(data):
                sig = "bytes-lost" if len(got) < len(data) else ("bytes-extra" if len(got) > len(data) else "bytes-wrong")
                return fail(f"{what()}: processed bytes [{rx.hexs(got)}] at cycles {[t for t, _ in outs]}", signature=sig)
            if not data:
                labels.add("zero-length")
                continue
            firsts = [int(o.first) for _, o in outs]
            lasts = [int(o.last) for _, o in outs]
            n = len(data)
            if firsts != [1] + [0] * (n - 1):
                return fail(f"{what()}: 'first' flags per output byte {firsts}", signature="first-misplaced")
            if lasts != [0] * (n - 1) + [1]:
                return fail(f"{what()}: 'last' flags per output byte {lasts}", signature="last-misplaced")
            t_last = outs[-1][0]
            want_c, want_i = int(pk["strobe"] == 1), int(pk["strobe"] == 2)
            for name, want, seen in (("complete_out", want_c, cos), ("invalid_out", want_i, ios)):
                if len(seen) != want:
                    sig = f"{name}-missing" if want else f"{name}-spurious"
                    if want and seen:
                        sig = f"{name}-duplicated"
                    return fail(f"{what()}: {name} strobes at {seen}, expected {want}", signature=sig)
                if want and seen[0] <= t_last:
                    return fail(f"{what()}: {name} at cycle {seen[0]} not after the last byte (output at cycle {t_last})",
                                signature=f"{name}-before-last-byte")
            n_c += want_c
            n_i += want_i
            if n <= 2:
                n_small += 1
                labels.add(f"len{n}")
            if pk["strobe"] and inf["at"] < inf["v"]:
                n_mid += 1
                labels.add("strobe-mid-packet")
            if pk["strobe"] and inf["at"] == inf["v"]:
                labels.add("strobe-at-end")
            if n >= 20:
                labels.add("len>=20")
            if pk["lead"] == 0:
                labels.add("lead0")
        return Result(ok=True, nontrivial=bool(n_c and n_i and n_small and n_mid), labels=tuple(sorted(labels)))


SUBS = [Boundary()]
