"""C38 — link re-entry always re-advertises sequence number and credits."""
from hypothesis import strategies as st

from lunaverif.core import Sub, Result, fail, HarnessError
from lunaverif.gen import weighted, bits
from lunaverif.ref import g4_usb3 as R
from lunaverif.bfm import g4_hprx as B
from lunaverif.bfm import g4_layer as L
from lunaverif.props import c37 as C37

PROPERTY = "C38"
ASSUMPTIONS = [
    "enable follows LinkLayer's wiring: it is ltssm.link_ready (a level, low for at least 12 cycles while the link "
    "retrains); usb_reset is a level (ltssm.in_usb_reset | request_hot_reset): a warm reset rises one cycle before "
    "enable falls (U0 reacts to in_usb_reset one cycle later) and ends before re-entry; a hot reset lies entirely "
    "inside the down interval; a plain recovery has no usb_reset",
    "the partner is the legal partner of C37 while the link is up; after the link went down it may finish up to 12 "
    "more words of what it was sending (headers still in flight), then sends TS1/TS2/idle/not-valid words; after "
    "re-entry it stays idle until it has received the advertisement and continues from the advertised number + 1",
    "while the link is down source.ready either keeps its pattern or is low for a prefix of the interval (training "
    "sets have priority in the Tx arbiter) but is high for at least 6 cycles before re-entry (idle handshake)",
    "keepalive / retry_required / reject_power_state strobes occur in U0 and, after a re-entry, only once the "
    "advertisement has been transmitted (their sources need a completed bring-up: in U0 the partner is the legal one)",
    "while the link is down the received stream is untrusted (in-flight words, training sets, loss of lock, a partner "
    "that reached U0 before us): LinkLayer derives retry_required / retry_received / reject_power_state from "
    "PacketTransmitter's link-command detector, which taps that stream and is not gated by enable or the link state, "
    "so these three may pulse in ANY cycle of the down interval, its last ones included (down.dstrobes; the LBAD / "
    "LRTY / LGO_U words are put on the wire in the two cycles before); keepalive_required is not generated while "
    "down (the keepalive timer is held at 0 by ~enable)",
    "a header that arrives from one cycle before the link goes down until re-entry may or may not count as "
    "received: both advertisements are accepted provided the DUT then accepts advertised+1 (consistency); but a "
    "header the advertisement counts as received must really have been received: it was offered on `queue` (or "
    "acknowledged by its LGOOD) at some cycle before re-entry -- not judged when an older header still occupied the "
    "head of the queue when the link went down (the counted header may sit behind it, unobservable)",
    "the link is never down for less than 12 cycles: LTSSM leaves U0 only into Recovery.Active, which needs a "
    "complete TS1 burst, a TS2 burst, 16 more TS2 and the idle handshake (>150 cycles) before U0 is re-entered; "
    "one- or two-cycle outages are not generated",
    "[layer] link-layer level (USB3LinkLayer on a mock physical layer, lunaverif/bfm/g4_layer.py): the host is a legal "
    "link partner -- it trains with TS1 / TS2 / logical idle as the device's LTSSM expects, requests a hot reset only "
    "with TS2 sets carrying the Reset bit during (re)training, advertises LGOOD(7) LCRD A-D after every entry, sends "
    "intact transaction-packet headers numbered from the expected advertisement + 1 and only into credits the device "
    "has granted, and leaves U0 by starting Recovery (TS1) or by one named provocation (header with a wrong sequence "
    "number, LCRD with a wrong letter, LGOOD with a wrong number); every header it sends ends at least 4 cycles before "
    "the link can go down, so `last received` is unambiguous; a TS2 with the Reset bit received during training is a "
    "USB reset (hot reset): the advertisement after it must be LGOOD(7); warm reset / VBUS loss need a second "
    "524288-cycle TSEQ burst and are exercised only at receiver level (sub reentry)",
    "[layer] every case continues, in a fork()ed child, one simulation that was taken through the input-free power-on "
    "prefix (Rx.Detect, Polling.LFPS, the 65536-TSEQ burst) once; the case itself starts in Polling.Active",
]

AIM_KINDS = ["any", "LGOOD", "LCRD", "LBAD", "LRTY", "LUP", "LXU", "uniform"]     # + "HDR": end of a received header
AIM_CMD = {"LGOOD": R.LGOOD, "LCRD": R.LCRD, "LBAD": R.LBAD, "LRTY": R.LRTY, "LUP": R.LUP, "LXU": R.LXU}
CMD_LABEL = {R.LGOOD: "LGOOD", R.LCRD: "LCRD", R.LBAD: "LBAD", R.LRTY: "LRTY", R.LUP: "keepalive", R.LXU: "LXU"}


def down_strategy():
    length = st.integers(12, 90)
    return st.fixed_dictionaries(dict(
        mode=weighted([(0, 5), (1, 2), (2, 2)]),
        rst_off=st.integers(0, 30),
        rst_len=st.integers(2, 40),
        length=length,
        cont=weighted([(0, 3), (3, 1), (5, 2), (8, 1), (12, 1)]),
        traffic=st.one_of(st.lists(st.sampled_from(["ts1", "ts2", "idle", "inv", "invx"]), min_size=1, max_size=5),
                          st.lists(st.sampled_from(["ts1", "ts2", "idle", "inv", "invx"]), min_size=1, max_size=5),
                          st.just(["inv"])),     # receiver lost lock: nothing valid arrives while the link is down
        stall=weighted([(-1, 3), (0, 1), (2, 1), (5, 1), (10, 1), (30, 1), (80, 1)]),
        post=st.lists(C37.hdr_op(), min_size=1, max_size=6),
        # [anchor, off, kind]: anchor 1 = counted back from the last down cycle (off 0 = last), 0 = from the first;
        # kind 1 retry_required, 2 reject_power_state, 3 retry_received
        dstrobes=weighted([(0, 2), (1, 3)]).flatmap(lambda k: st.lists(
            st.tuples(weighted([(1, 3), (0, 1)]), weighted([(0, 6), (1, 4), (2, 2), (3, 1), (5, 1), (9, 1), (20, 1)]),
                      weighted([(1, 4), (3, 1), (2, 1)])).map(list), min_size=k, max_size=3 * k)),
    ))


def case_strategy():
    d = C37.traffic_strategy(max_ops=12, avg_ops=5, allow_wrongseq=False)
    d["down"] = down_strategy()
    cmd_aim = st.tuples(weighted([(k, {"LBAD": 3, "LXU": 1, "uniform": 1}.get(k, 2)) for k in AIM_KINDS]),
                        st.integers(0, 31), st.integers(-3, 6)).map(list)
    # link-down instant = <cycle of the last word of the idx-th header the partner sends> + offset: covers the cycles in
    # which the header is checked, counted, buffered, first offered on the queue and its LGOOD dispatched
    hdr_aim = st.tuples(st.just("HDR"), st.integers(0, 31), st.integers(-2, 8)).map(list)
    d["aim"] = weighted([(0, 3), (1, 1)]).flatmap(lambda k: hdr_aim if k else cmd_aim)
    return st.fixed_dictionaries(d)


def normalise(case):
    """Down description as the partner BFM wants it (derived fields, legality clamps)."""
    d = dict(case["down"])
    length = d["length"]
    k = d.pop("stall")
    d["sready_down"] = None if k < 0 else [0] * min(k, length - 6) + [1] * 200
    if d["mode"] == 2:
        d["rst_off"] = min(d["rst_off"], length - 4)
    c = dict(case)
    c["down"] = d
    return c


class ReentrySub(Sub):
    name = "reentry"
    budget = {"quick": 6000, "thorough": 100000}
    shrink_budget = 400
    rule = ("C37 closed-loop traffic (headers, corruption, LBAD/LRTY cycles, queue/source stalls, keepalive/LRTY/LXU "
            "strobes) into HeaderPacketReceiver(4); a first run learns the DUT's link-command schedule, the second "
            "takes the link down (plain disable / warm reset / hot reset) at <start of the aimed command kind> + "
            "offset (-3..+6), at <last word of a header the partner sends> + offset (-2..+8; a quarter of the cases) or "
            "at a uniform cycle; the partner keeps sending in-flight headers and training traffic "
            "while down; in 3 cases of 5 retry_required / retry_received / reject_power_state pulse 1..3 times at "
            "generated cycles of the down interval (weighted to its last and last-but-one cycle); "
            "after 12..90 cycles the link comes back. Oracle: the command words transmitted after "
            "re-entry begin with exactly LGOOD(last received number; 7 after a reset) LCRD A B C D, a header around the "
            "edge that the advertisement counts was offered on the queue or acknowledged before re-entry, the queue is "
            "empty, and the C37 rules hold for the traffic after re-entry starting at advertised+1 (no stale "
            "LBAD/LRTY/keepalive, no stale ignore flag). Non-trivial: the link went down (or the reset arrived) "
            "inside a command transmission (cycle in which the command is dispatched .. its last word) and at "
            "least one header is accepted after re-entry.")

    def setup(self):
        self.h = B.make_harness(4)

    def strategy(self):
        return case_strategy()

    # ------------------------------------------------------------------------------------------------------------
    def run(self, case):
        case = normalise(case)
        d = case["down"]
        # ---- pass 1: learn the command schedule of this history without a link-down
        nodown = dict(case)
        nodown.pop("down")
        drv1 = B.Partner(nodown)
        max1 = 300 + 30 * len(case["ops"]) + 20 * len(case.get("noise", []))
        trace1 = self.h.run_driver(drv1, max1)
        (cmds1, _), err = B.source_commands(drv1.log[:len(trace1)], trace1)
        if err is not None:
            return fail(err[1], signature="source-malformed")
        kind, idx, off = case["aim"]
        n1 = len(trace1)
        hdr_pool = B.sink_headers(drv1.log[:n1]) if kind == "HDR" else []
        pool = cmds1 if kind in ("any", "uniform", "HDR") else [c for c in cmds1 if c["cmd"] == AIM_CMD[kind]]
        if not pool and kind != "uniform":
            pool = cmds1                       # the aimed kind does not occur in this history: aim at any command
        if hdr_pool:
            down_at = hdr_pool[idx % len(hdr_pool)]["end"] + off
        elif kind == "uniform" or not pool:
            down_at = 3 + idx * max(1, n1 - 6) // 32
        else:
            down_at = pool[idx % len(pool)]["start"] + off
        down_at = max(3, min(down_at, n1 - 2))
        # ---- pass 2
        drv = B.Partner(case, down_at=down_at)
        max2 = down_at + d["length"] + 350 + 40 * len(d["post"]) + 20 * len(case.get("noise", []))
        sp = list(case.get("sready") or [1])
        if 0 < sum(sp) < len(sp):             # sparse source.ready: four source words per header take longer (harness budget)
            max2 += (6 * len(d["post"]) + 20) * -(-len(sp) // sum(sp))
        trace = self.h.run_driver(drv, max2)
        log = drv.log[:len(trace)]
        n = len(trace)
        up_at = down_at + d["length"]
        if n <= up_at + 5:
            return fail(f"run ended at cycle {n} before re-entry at {up_at} could be observed", signature="harness-short")
        reset_mode = d["mode"] != 0
        # first cycle in which the DUT can see the link going down / the reset
        t_evt = down_at - 1 if d["mode"] == 1 else down_at
        # (a transmission may be abandoned when the link goes down: the hold rule is judged inside U0 only)
        res = C37.check_stream_held(log, trace, 0, t_evt) or C37.check_stream_held(log, trace, up_at, n)
        if res is not None:
            return res
        # ---- what happened before the link went down (reference model)
        # (a receiver starts afresh at link entry: what was cut short when the link went down is not completed by
        # what arrives after re-entry, so the two parts of the stream are decoded separately)
        headers = B.sink_headers(log, 0, up_at) + B.sink_headers(log, up_at, n)
        (cmds_pre, st_pre), err = B.source_commands(log, trace, 0, t_evt)
        if err is not None:
            return fail(err[1], signature="source-malformed")
        model = B.AcceptModel()
        sure = [h for h in headers if h["end"] + 2 < t_evt - 1]
        C37.replay_model(sure, log, 0, max(0, t_evt - 1), model)
        acked = [c["sub"] for c in cmds_pre if c["cmd"] == R.LGOOD]
        last_acked = acked[-1] if acked else None
        acks_pending = len(model.accepted) - max(0, len(acked) - 1)
        ignoring_at_down = model.ignoring
        # optional headers: arriving around / after the down edge (and before re-entry)
        optional = [h for h in headers if h["end"] + 2 >= t_evt - 1 and h["end"] < up_at]
        rst_end = None
        if d["mode"] == 1:
            rst_end = down_at - 1 + d["rst_len"]
        elif d["mode"] == 2:
            lo = min(d["rst_off"], max(0, d["length"] - 2))
            rst_end = down_at + min(lo + d["rst_len"], d["length"] - 1)
        # states = set of (last_received, expected)
        base = (7, 0) if reset_mode else (model.last_received, model.expected)
        states = {base}
        for h in optional:
            if reset_mode and h["end"] + 2 <= rst_end + 1:
                continue                       # wiped by the reset level
            if h["crc16_ok"] and h["crc5_ok"]:
                states |= {(h["seq"], (h["seq"] + 1) & 7) for (_, e) in states if e == h["seq"]}
        allowed = sorted({s[0] for s in states})
        # ---- the advertisement
        inside = [c for c in cmds1 if c["start"] - 2 <= t_evt <= c["end"]]
        in_cmd = bool(inside)
        where = f"link down at cycle {down_at} (mode {d['mode']}), re-entry at {up_at}"
        if in_cmd:
            c = inside[0]
            where += f", i.e. inside {R.LC_NAMES.get(c['cmd'], c['cmd'])}({c['sub']}) of cycles {c['start']}..{c['end']}"
        (cmds, state), err = B.source_commands(log, trace, up_at, n)
        if err is not None:
            return fail(f"{where}: {err[1]} — a link command that was in flight when the link went down is completed "
                        f"after re-entry", signature="stale-command-word-after-reentry")
        names = [f"{R.LC_NAMES.get(c['cmd'], c['cmd'])}({c['sub']})@{c['start']}" for c in cmds[:6]]
        stalled_q = not any(log[t]["qready"] for t in range(up_at, n))
        if len(cmds) < 5:
            return fail(f"{where}: only {len(cmds)} link commands after re-entry ({names}); expected LGOOD({allowed}) "
                        f"followed by LCRD A,B,C,D", signature="link-down-inside-command-not-readvertised" if in_cmd
                        else "no-readvertisement-after-reentry")
        first = cmds[0]
        if first["cmd"] != R.LGOOD:
            stale = {R.LBAD: "stale-lbad-after-reentry", R.LRTY: "stale-lrty-after-reentry",
                     R.LUP: "stale-keepalive-after-reentry", R.LXU: "stale-lxu-after-reentry"}
            sig = stale.get(first["cmd"])
            if sig is None:
                sig = "link-down-inside-command-not-readvertised" if in_cmd else "no-readvertisement-after-reentry"
            return fail(f"{where}: first link command after re-entry is {names[0]}, not the LGOOD advertisement "
                        f"(commands: {names})", signature=sig)
        for k in range(4):
            c = cmds[1 + k]
            if (c["cmd"], c["sub"]) != (R.LCRD, k):
                if c["cmd"] == R.LGOOD and k == 0:
                    sig = "second-lgood-in-readvertisement"
                elif c["cmd"] in (R.LBAD, R.LRTY, R.LUP, R.LXU):
                    sig = "stale-command-inside-readvertisement"
                else:
                    sig = "link-down-inside-command-not-readvertised" if in_cmd else "credits-not-readvertised"
                return fail(f"{where}: commands after re-entry are {names}; expected LGOOD then LCRD A,B,C,D "
                            f"(credits for all four buffers)", signature=sig)
        a = first["sub"]
        if a not in allowed:
            if not reset_mode and acks_pending > 0 and last_acked is not None and a == last_acked:
                sig = "advertises-last-acknowledged-not-last-received"
            elif reset_mode:
                sig = "sequence-not-reset-by-usb-reset"
            else:
                sig = "link-down-inside-command-wrong-number" if in_cmd else "advertises-wrong-number"
            return fail(f"{where}: advertisement is LGOOD({a}); the last received header number is {allowed} "
                        f"(accepted before the link went down: {[h['seq'] for h in model.accepted]}, acknowledged: "
                        f"{acked[1:]})", signature=sig)
        # ---- "last received": a header the advertisement counts was really received (offered to the protocol layer
        # or acknowledged) and not merely counted.  Only headers around the edge can be concerned (the others are
        # judged by C37); nothing is demanded when an older header occupied the queue head at the link-down instant.
        counted = []
        if a != base[0]:
            nxt = base[1]
            while True:
                counted.append(nxt)
                if nxt == a:
                    break
                nxt = (nxt + 1) & 7

        def q(t):
            o = trace[t]
            return (o.q0, o.q1, o.q2, o.qseq, o.qrsv, o.qhub, o.qdl, o.qdf)
        blocked_by = None
        for seq in counted:
            cands = [h for h in optional if h["seq"] == seq and h["crc16_ok"] and h["crc5_ok"]]
            if not cands:
                continue
            fields = {C37.hdr_fields(h) for h in cands}
            first_end = min(h["end"] for h in cands)
            offered = [t for t in range(first_end + 1, up_at) if trace[t].qvalid and q(t) in fields]
            lgood = [c for c in cmds_pre if c["cmd"] == R.LGOOD and c["sub"] == seq and c["start"] > first_end]
            if offered or lgood:
                continue
            older = [t for t in (t_evt - 1, t_evt) if 0 <= t < n and trace[t].qvalid and q(t) not in fields]
            if older:
                blocked_by = older[0]
                continue
            h = cands[0]
            return fail(f"{where}: advertisement LGOOD({a}) counts header seq {seq} (last word in cycle {h['end']}, "
                        f"{t_evt - h['end']} cycles before the link went down) as received, but that header was never "
                        f"offered on the queue (queue.valid was low in cycles {max(0, t_evt - 1)}..{t_evt}, "
                        f"queue.ready={[log[t]['qready'] for t in range(max(0, t_evt - 1), t_evt + 1)]}) nor "
                        f"acknowledged before re-entry: it was counted while being discarded, the partner will retire "
                        f"it and it is lost", signature="header-counted-but-never-accepted")
        # ---- fresh state: queue empty, traffic after re-entry handled per C37 starting at advertised + 1
        post_headers = [h for h in headers if h["end"] >= up_at]
        first_post_end = min([h["end"] for h in post_headers], default=n)
        for t in range(up_at, min(first_post_end + 2, n)):
            if trace[t].qvalid:
                return fail(f"{where}: queue.valid in cycle {t}, before any header arrived after re-entry: a header "
                            f"buffered before (or while) the link was down is still queued although all four credits "
                            f"are re-advertised", signature="queue-not-empty-after-reentry")
        model2 = B.AcceptModel()
        model2.expected = (a + 1) & 7
        C37.replay_model(post_headers, log, up_at, n, model2)
        finished = drv.phase_done and state == "idle"
        bad_down = ignoring_at_down or any(not (h["crc16_ok"] and h["crc5_ok"]) for h in optional)
        res = C37.judge_u0(log, trace, headers, model2.accepted, model2.lbad_triggers, cmds, up_at, n,
                           complete=finished and not stalled_q)
        if res is None:
            res = C37.check_recovery(trace, model2.seq_errors, up_at, n)
        if res is None and not finished:
            res = fail(f"history did not drain within {max2} cycles (partner phase {drv.phase}, unacked "
                       f"{[s for s, _ in drv.unacked]})", signature="no-progress")
        if res is not None:
            if bad_down and res.signature in ("missing-lgood", "queue-missing-delivery", "no-progress", "missing-lbad",
                                              "back-to-back-header-missed", "queue-wrong-header", "spurious-lbad",
                                              "lgood-wrong-number", "recovery-for-ignored-header"):
                # a corrupted header seen while the link was down (or an unanswered one before) left its mark
                res.signature = "stale-ignore-or-lbad-after-reentry"
            elif len(allowed) > 1:
                res.signature = "header-processed-while-link-down"
            else:
                res.signature = "after-reentry-" + (res.signature or "unclassified")
            res.msg = f"{where}; advertisement LGOOD({a}); after re-entry: {res.msg}"
            return res
        # ---- classification
        labels = {f"mode={('disable', 'warm-reset', 'hot-reset')[d['mode']]}"}
        if in_cmd:
            labels.add("down-inside-" + CMD_LABEL.get(inside[0]["cmd"], "other"))
            w = inside[0]
            labels.add("down-at-dispatch" if t_evt == w["start"] - 2 else
                       "down-at-generate" if t_evt == w["start"] - 1 else
                       "down-at-last-word" if t_evt == w["end"] else "down-mid-command")
        else:
            labels.add("down-between-commands")
        if acks_pending > 0:
            labels.add("acks-pending-at-down")
        if ignoring_at_down:
            labels.add("ignoring-at-down")
        if optional:
            labels.add("header-arrives-while-down")
        if kind == "HDR" and hdr_pool:
            labels.add("aimed-at-header-end")
        for h in headers:
            if h["end"] < up_at and -2 <= t_evt - h["end"] <= 8 and h["crc16_ok"] and h["crc5_ok"]:
                labels.add(f"down-at-header-end{t_evt - h['end']:+d}")
        if counted:
            labels.add("edge-header-counted-blocked" if blocked_by is not None else "edge-header-counted-and-offered")
        if any(not (h["crc16_ok"] and h["crc5_ok"]) for h in optional):
            labels.add("bad-header-while-down")
        ds = sorted({(down_at + off if anchor == 0 else up_at - 1 - off, knd) for anchor, off, knd in
                     d.get("dstrobes", ())})
        ds = [(t, k) for t, k in ds if down_at <= t < up_at]
        if ds:
            labels.add("strobe-while-down")
        for t, k in ds:
            if up_at - t <= 2:
                labels.add(("", "retry_required", "reject_power_state", "retry_received")[k] +
                           ("-in-last-down-cycle" if t == up_at - 1 else "-in-last-but-one-down-cycle"))
        if d["sready_down"] is not None and in_cmd:
            labels.add("command-stalled-into-down")
        if model2.lbad_triggers:
            labels.add("lbad-after-reentry")
        if len(model.accepted) >= 4:
            labels.add("pre-accepted>=4")
        if any(trace[t].qvalid for t in range(max(0, down_at - 1), down_at + 1)):
            labels.add("queue-occupied-at-down")
        labels.add(f"post-accepted={min(len(model2.accepted), 4)}")
        return Result(ok=True, nontrivial=in_cmd and len(model2.accepted) >= 1, labels=tuple(sorted(labels)))


# ======================================================================================== link-layer level
def layer_seg():
    hdr = st.tuples(weighted([(0, 2), (3, 1), (8, 2), (14, 2), (30, 1)]), bits(32), bits(32), bits(32)).map(list)
    return st.fixed_dictionaries(dict(
        # how the link is trained INTO this U0 period
        hot=weighted([(0, 3), (1, 2)]),
        hot_extra=st.integers(0, 24),
        # the period itself
        adv_delay=weighted([(0, 2), (3, 1), (10, 2), (40, 1)]),
        adv_gap=weighted([(0, 3), (2, 1), (7, 1)]),
        post_adv=st.integers(0, 12),
        hdrs=st.lists(hdr, min_size=0, max_size=6),
        # how it ends (ignored for the last period)
        pre_down=weighted([(0, 2), (4, 1), (12, 2), (40, 1)]),
        down=weighted([("ts1", 4), ("badseq", 2), ("badlcrd", 1), ("badlgood", 1)]),
        delta=st.integers(0, 6),
    ))


def layer_strategy():
    return st.fixed_dictionaries(dict(
        segs=st.lists(layer_seg(), min_size=2, max_size=6),
        hready=st.sampled_from([[1], [1], [1, 0], [0, 0, 1], [1, 1, 1, 0]]),
    ))


def layer_commands(trace, t0, t1):
    """Link commands the device handed to the physical layer in cycles [t0, t1): dict(t, cmd, sub) (t = cycle of the
    command word); a malformed command word gives cmd None."""
    out = []
    pending = False
    for t in range(t0, t1):
        o = trace[t]
        if not o.valid:
            continue
        if pending:
            pending = False
            dec = R.lc_decode(o.data, o.ctrl)
            out.append(dict(t=t, cmd=dec[0] if dec else None, sub=dec[1] if dec else o.data))
        elif (o.data, o.ctrl) == R.LCSTART:
            pending = True
    return out


def judge_layer(case, trace, rep):
    n = len(trace)
    hpat = list(case.get("hready") or [1])
    if not any(hpat):
        hpat.append(1)
    ups = [t for t in range(n) if trace[t].trained and (t == 0 or not trace[t - 1].trained)]
    downs = [t for t in range(1, n) if trace[t - 1].trained and not trace[t].trained]
    periods = rep["periods"]
    if [p["up"] for p in periods] != ups or [p["down"] for p in periods if p["down"] is not None] != downs:
        raise HarnessError(f"host bookkeeping and trace disagree about the U0 periods: {ups} {downs} vs "
                           f"{[(p['up'], p['down']) for p in periods]}")
    if rep["stuck"]:
        raise HarnessError("link training did not complete (not a C38 verdict): " + rep["stuck"])
    labels = set()
    nontrivial = False
    lname = lambda c: f"{R.LC_NAMES.get(c['cmd'], c['cmd'])}({c['sub']})@{c['t']}"
    for k, p in enumerate(periods):
        up = p["up"]
        end = p["down"] if p["down"] is not None else n
        nxt = periods[k + 1]["up"] if k + 1 < len(periods) else n
        how = ("power-on training" + (" with hot reset" if p["hot"] else "")) if k == 0 else \
            ("Recovery with hot reset (TS2 Reset bit)" if p["hot"] else "plain Recovery")
        good = [h for h in p["sent"] if h["good"]]
        prev_rx = [h for h in periods[k - 1]["sent"] if h["good"]] if k else []
        where = (f"U0 entry {k} in cycle {up} after {how}" +
                 (f"; headers received in the previous period: {[h['seq'] for h in prev_rx]}" if k else ""))
        cmds = layer_commands(trace, up, end)
        names = [lname(c) for c in cmds[:7]]
        want = p["expect_adv"]
        wtxt = f"LGOOD({want}) LCRD A B C D" + (" (USB reset: nothing received yet)" if p["reset_before"] else
                                                " (last received header number)")
        judged_until = end
        if p["trigger"] not in (None, "ts1"):
            judged_until = p["trigger_at"]
        unprovoked = p["down"] is not None and p["trigger"] is None
        # ---- the advertisement (judged on what was sent, also when the period was cut short)
        if len(cmds) < 5 and not unprovoked:
            if end - up < 40 and p["down"] is not None:
                continue                   # provoked out of U0 before the advertisement could finish: nothing to judge
            return fail(f"{where}: only {len(cmds)} link commands in {end - up} cycles of U0 ({names}); expected {wtxt}",
                        signature="layer-no-readvertisement")
        first = cmds[0] if cmds else None
        if first is not None and first["cmd"] != R.LGOOD:
            return fail(f"{where}: the first link command is {names[0]}, not the LGOOD advertisement ({names})",
                        signature="layer-stale-command-before-advertisement")
        for i in range(min(4, len(cmds) - 1)):
            c = cmds[1 + i]
            if (c["cmd"], c["sub"]) != (R.LCRD, i):
                return fail(f"{where}: commands after entry are {names}; expected {wtxt}",
                            signature="layer-credits-not-readvertised")
        if first is not None and first["sub"] != want:
            return fail(f"{where}: advertisement is LGOOD({first['sub']}); expected {wtxt}",
                        signature="layer-sequence-not-reset-by-hot-reset" if p["hot"] else
                        "layer-advertises-wrong-number")
        # ---- the link left U0 although the host did nothing to provoke it
        if unprovoked:
            last = good[-1] if good else None
            return fail(f"{where}: the device left U0 in cycle {p['down']} by itself; the host had only sent its "
                        f"advertisement and {len(good)} intact header(s) numbered from {(want + 1) & 7}"
                        + (f" (last one seq {last['seq']} in cycles {last['start']}..{last['end']})" if last else "")
                        + f"; commands since entry: {names}",
                        signature="layer-hot-reset-receive-state-not-fresh" if p["hot"] else
                        "layer-unprovoked-recovery-after-reentry")
        # ---- fresh receive state: exactly the intact headers sent in this period are acknowledged, in order; nothing
        # stale (LBAD / LRTY / LXU) is sent; nothing but these headers is handed to the protocol layer
        rest = [c for c in cmds[5:] if c["t"] < judged_until]
        for c in rest:
            if c["cmd"] not in (R.LGOOD, R.LCRD, R.LUP):
                return fail(f"{where}: {lname(c)} transmitted although the host sent only intact in-sequence headers "
                            f"and no LGO / LRTY in this period", signature="layer-stale-command-after-reentry")
        acks = [c["sub"] for c in rest if c["cmd"] == R.LGOOD]
        due = [h["seq"] for h in good if h["end"] + 40 <= judged_until]
        possible = [h["seq"] for h in good]
        if acks != possible[:len(acks)] or len(acks) < len(due):
            return fail(f"{where}: advertisement LGOOD({want}) was followed by intact headers numbered {possible} "
                        f"(last words in cycles {[h['end'] for h in good]}) but the device acknowledged {acks} "
                        f"(judged up to cycle {judged_until})", signature="layer-receive-state-not-fresh")
        delivered = [(trace[t].hseq, trace[t].h0, trace[t].h1, trace[t].h2) for t in range(up, nxt)
                     if trace[t].hvalid and hpat[t % len(hpat)]]
        sent_f = [(h["seq"], h["dw0"], h["dw1"], h["dw2"]) for h in p["sent"] if h["good"]]
        if delivered != sent_f[:len(delivered)]:
            return fail(f"{where}: headers handed to the protocol layer (seq, dw0..2) {delivered[:6]} are not a prefix "
                        f"of the headers received in this period {sent_f[:6]}: a stale or altered header was queued",
                        signature="layer-stale-header-delivered")
        # ---- classification
        if k:
            labels.add("reentry-hot" if p["hot"] else "reentry-plain")
            labels.add("down-by-" + str(periods[k - 1]["trigger"]))
            if p["hot"] and prev_rx:
                labels.add("hot-reset-after-traffic")
            if not p["hot"] and want != 7:
                labels.add("plain-reentry-number!=7")
            if acks and ((p["hot"] and prev_rx) or (not p["hot"] and want != 7)):
                nontrivial = True
        elif p["hot"]:
            labels.add("first-entry-hot")
        if p.get("starved"):
            labels.add("host-credit-starved")
        if len(good) >= 4:
            labels.add("period-headers>=4")
    labels.add(f"entries={min(len(periods), 6)}")
    return Result(ok=True, nontrivial=nontrivial, labels=tuple(sorted(labels)))


class LayerSub(Sub):
    name = "layer"
    budget = {"quick": 64, "thorough": 1500}
    shrink_budget = 12
    rule = ("complete USB3LinkLayer (LTSSM, TS unit, header receiver / transmitter, timers as wired in link/layer.py) on "
            "a mock physical layer, prepared once through power-on up to Polling.Active, each case continued in a "
            "forked child: a closed-loop host trains the link and plays 2..6 U0 periods -- entered by plain training / "
            "Recovery or through a HOT RESET (TS2 with the Reset bit; 0..24 extra reset sets) -- each with the host's "
            "advertisement (generated delay / spacing), 0..6 intact headers (random content, gaps 0..30, credit "
            "respecting) and an exit by host Recovery (TS1) or a provoked device Recovery (wrong header number, wrong "
            "LCRD letter, wrong LGOOD number) 0..40 cycles after the last header; header_source.ready patterns. Oracle "
            "(host-side reference count of what was received): after EVERY entry into U0 the commands handed to the "
            "physical layer begin with exactly LGOOD(last received number; 7 after power-on or a hot reset) LCRD A B C "
            "D; then exactly the period's headers are acknowledged in order from that number + 1, no LBAD/LRTY/LXU "
            "appears, only these headers reach the protocol layer, and the device does not leave U0 unprovoked. "
            "Non-trivial: a re-entry whose expected number differs from what a wrong reset decision would give "
            "(plain Recovery after traffic with number != 7, or hot reset after traffic) followed by an "
            "acknowledged header.")

    def setup(self):
        if getattr(self, "h", None) is None:
            self.h = L.LayerHarness()
        self.h.prepare()

    def enumerate(self, tier):
        # Called once in the parent before the workers are forked: prepare the (expensive, input-free) power-on prefix
        # here so that every worker inherits it instead of repeating it.  No enumerated cases.
        self.setup()
        return None

    def strategy(self):
        return layer_strategy()

    def run(self, case):
        segs = case["segs"]
        max_cycles = 1500 + sum(900 + 60 * s.get("hot_extra", 0) + s.get("adv_delay", 0) + s.get("pre_down", 0) +
                                sum(40 + h[0] for h in s["hdrs"]) for s in segs)
        trace, rep = self.h.run_case(lambda: L.Host(case), max_cycles)
        if not rep["done"] and not rep["stuck"]:
            raise HarnessError(f"history did not finish within {max_cycles} cycles (host phase {rep['phase']}, "
                               f"segment {rep['si']})")
        return judge_layer(case, trace, rep)


SUBS = [ReentrySub(), LayerSub()]
