"""C14 — data toggles advance only on success and reset on CLEAR_FEATURE(ENDPOINT_HALT) (full USBDevice, host BFM)."""
from hypothesis import strategies as st

from lunaverif.core import Sub, Result, fail
from lunaverif.gen import long_lists, weighted
from lunaverif.bfm import g9_usb2host as H
from lunaverif.bfm import g9_hostgen as G

PROPERTY = "C14"
ASSUMPTIONS = [
    "full-speed device on a bare UTMI bus; stream endpoints 1 (IN), 2 (OUT), 4 (IN and OUT), max packet 8; sub "
    "'high-numbers': stream endpoints 1 and 9 (IN and OUT each) -- USB allows endpoint numbers 1..15 and LUNA's "
    "tokenizer/endpoint compare are 4 bits wide, so a device with an endpoint numbered >= 8 is a legal configuration",
    "host packets well formed with good CRCs (a corrupted OUT data packet trips C06's deserializer defect and is "
    "C13's subject); a lost device ACK is modelled by the host re-using the previous OUT toggle, a lost host ACK by "
    "not acknowledging an IN data packet",
    "a CLEAR_FEATURE(ENDPOINT_HALT) 'completes' when the host ACKs its status ZLP; nothing is asserted about the "
    "signal (status) endpoint's toggle after a clear-halt that names it (it does not implement clear-halt)",
    "whether an OUT packet that may overflow the FIFO is ACKed or NAKed is C13's subject; the toggle must follow "
    "the handshake actually sent",
]

def tables(in_eps, out_eps):
    xin = [dict(k="xin", ep=ep, n=n, ack=1) for ep in in_eps for n in (1, 4, 8)]
    bulk = (G.foreign_table(in_eps=in_eps, out_eps=out_eps) + xin * 2
            + [dict(k="out", ep=ep, n=8, flip=0) for ep in out_eps] * 2)
    acked = [f for f in bulk if f["k"] == "in"] + [dict(k="probe", addr="dev", ack=1)]
    return bulk, acked


BULK, ACKED = tables((1, 4), (2, 4))
EP_ADDRS = [0x81, 0x02, 0x84, 0x04, 0x81, 0x02, 0x84, 0x04, 0x83, 0x01, 0x82, 0x00, 0x80, 0x03, 0x05, 0x8F, 0x0E]
# "wide" rig (stream endpoints 1 and 9, IN and OUT each): the existing addresses three times, then neighbours that
# differ from an existing number in one bit of the 4-bit endpoint number, the signal endpoint, endpoint 0, 15
WIDE_BULK, WIDE_ACKED = tables((1, 9), (1, 9))
WIDE_ADDRS = [0x81, 0x01, 0x89, 0x09] * 3 + [0x83, 0x03, 0x8B, 0x0B, 0x88, 0x08, 0x80, 0x00, 0x8D, 0x05, 0x8F, 0x0F]


def clear_items(addrs=EP_ADDRS, bulk=BULK, acked=ACKED):
    halt = st.sampled_from(addrs).map(lambda e: [0x02, 1, 0, e, 0])
    a, b = addrs[0], addrs[1]
    other = st.sampled_from([[0x02, 1, 1, a, 0], [0x02, 1, 2, b, 0], [0x00, 1, 0, a, 0], [0x01, 1, 0, addrs[3], 0],
                             [0x00, 1, 1, 0, 0], [0x02, 1, 1, addrs[2], 0]])
    return st.fixed_dictionaries(dict(
        k=st.just("ctrl"), req=st.one_of(halt, halt, halt, other),
        cut=weighted([(0, 7), (1, 1), (2, 1)]),
        noack=weighted([(0, 4), (1, 1)]),
        mid=long_lists(st.tuples(st.integers(0, 2), st.sampled_from(bulk + acked)).map(list), max_size=3, average=0.8),
    ))


class Toggles(Sub):
    name = "toggles"
    budget = {"quick": 1000, "thorough": 20000}
    shrink_budget = 250
    kind = "full"
    bulk, acked, addrs = BULK, ACKED, EP_ADDRS
    # one successful transaction per stream endpoint (+ the signal endpoint): prologue bit -> item; closing items
    stream_eps = ((1, "in"), (2, "out"), (4, "in"), (4, "out"))
    rule = ("a prologue moving a generated subset of toggles to DATA1, then histories of 1..24 items: IN transactions (ACKed or not) on stream endpoints 1/4 and the signal endpoint, "
            "OUT transactions (in sequence, repeated toggle, zero length, overflow-prone) on 2/4, PINGs, stream feeds, "
            "and CLEAR_FEATURE requests -- ENDPOINT_HALT naming any endpoint address 0x00-0x8F (existing, other "
            "direction of an existing number, absent), complete, abandoned after SETUP, with a lost status ACK, with "
            "other endpoints' ACKed transactions between SETUP and status, and non-HALT / non-endpoint variants "
            "(must reset nothing); oracle = independent model of every endpoint's toggle: IN data PID, OUT "
            "accept/skip and the delivered OUT stream must match; a closing IN/OUT on every endpoint exposes the "
            "final toggles; non-trivial = a clear-halt completes while its target's toggle is DATA1 and another "
            "endpoint's toggle is DATA1 too")

    def setup(self):
        self.rig = H.rig(self.kind)

    def strategy(self):
        bulk = st.sampled_from(self.bulk)
        top = st.one_of(bulk, bulk, bulk, clear_items(self.addrs, self.bulk, self.acked))
        return st.fixed_dictionaries(dict(pre=st.integers(0, 31), items=long_lists(top, min_size=1, max_size=24, average=12),
                                          **G.env_fields()))

    def build(self, case):
        b = G.Builder(self.rig.descriptors)
        # prologue: move a generated subset of toggles to DATA1 with one successful transaction each
        pre = [dict(k="xin", ep=ep, n=2, ack=1) if d == "in" else dict(k="out", ep=ep, n=2, flip=0)
               for ep, d in self.stream_eps] + [dict(k="in", ep=3, ack=1)]
        for bit, it in enumerate(pre):
            if case["pre"] >> bit & 1:
                b.item(it)
        for it in case["items"]:
            b.item(it)
        ins = [ep for ep, d in self.stream_eps if d == "in"]
        outs = [ep for ep, d in self.stream_eps if d == "out"]
        for it in ([dict(k="feed", ep=ep, n=2, last=1) for ep in ins] + [dict(k="idle", n=12)]
                   + [dict(k="in", ep=ep, ack=1) for ep in ins] + [dict(k="out", ep=ep, n=1, flip=0) for ep in outs]):
            b.item(it)
        return b

    def run(self, case):
        b = self.build(case)
        run = H.execute(self.kind, b.prog, **G.env_of(case))
        if run.violation is not None:
            v = run.violation
            return fail(v["msg"], signature=self.diagnose(run, b, G.response_signature(v), v.get("txn")))
        err = H.stream_check(run)
        if err:
            return fail(err, signature=self.diagnose(run, b, "out-stream-mismatch", None))
        labels = set()
        nontrivial = False
        for name, detail in run.model.events:
            if name == "clear_halt":
                key, snap = detail
                if key not in snap:
                    labels.add("clear-halt-absent-endpoint")
                    continue
                labels.add(f"clear-halt-ep{key[0]}{key[1]}-at-DATA{snap[key]}")
                if snap[key] == 1 and any(v == 1 for k, v in snap.items() if k != key):
                    nontrivial = True
                    if snap.get((key[0], "out" if key[1] == "in" else "in")) == 1:
                        labels.add("same-number-other-direction-at-DATA1")
        for tr in b.transfers:
            if tr["name"] == "clear_halt" and tr["abandoned"]:
                labels.add("clear-halt-abandoned-after-" + tr["stages"][-1])
            if tr["name"] == "clear_halt" and tr["lost"] and not tr["abandoned"]:
                labels.add("clear-halt-lost-ack-retry")
            if tr["name"] == "clear_feature_other":
                labels.add("clear-feature-other")
            if tr["foreign_inside"]:
                labels.add("traffic-inside-clear-feature")
        for t in run.txns:
            if t["kind"] == "in" and t["ep"] and t["resp"][0] == "data" and not t["ack"]:
                labels.add("in-not-acked")
            if t["kind"] == "out" and t["ep"]:
                if t["resp"] == ("hs", 0xA):
                    labels.add("out-NAK")
                if len(t["allowed"]) == 1 and t["allowed"][0] == ("hs", 0x2) and "flip" in b.prog[t["i"]] and b.prog[t["i"]]["flip"]:
                    labels.add("out-repeated-toggle")
        return Result(ok=True, nontrivial=nontrivial, labels=tuple(sorted(labels)))

    @staticmethod
    def diagnose(run, b, sig, t):
        facts = G.pending_request_facts(run, b.prog)
        upto = t["i"] if t is not None else len(b.prog)
        if facts["foreign_ack_while_pending"]:
            return "foreign-ack-completes-pending-request"
        if any(tr["name"] == "clear_feature_other" and tr["last"] < upto for tr in b.transfers):
            return "stalled-clear-feature-stays-armed"
        if facts["abandoned_before"] and t is not None and t["ep"] == 0 and t["kind"] != "setup":
            return "stale-request-state-after-abandoned-transfer"
        return sig


class HighNumbers(Toggles):
    name = "high-numbers"
    budget = {"quick": 300, "thorough": 8000}
    kind = "wide"
    bulk, acked, addrs = WIDE_BULK, WIDE_ACKED, WIDE_ADDRS
    stream_eps = ((1, "in"), (1, "out"), (9, "in"), (9, "out"))
    rule = ("the same histories and the same toggle model as 'toggles' on a device whose stream endpoints are 1 and 9 "
            "(IN and OUT each; numbers that differ only in bit 3): clear-halts name 0x81/0x01/0x89/0x09 (3 in 5), one-bit "
            "neighbours (3, 11, 8), 0, 5, 13, 15; non-trivial as in 'toggles'")


SUBS = [Toggles(), HighNumbers()]
