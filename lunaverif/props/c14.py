"""C14 — data toggles advance only on success and reset on CLEAR_FEATURE(ENDPOINT_HALT) (full USBDevice, host BFM)."""
from hypothesis import strategies as st

from lunaverif.core import Sub, Result, fail
from lunaverif.gen import long_lists, weighted
from lunaverif.bfm import g9_usb2host as H
from lunaverif.bfm import g9_hostgen as G

PROPERTY = "C14"
ASSUMPTIONS = [
    "full-speed device on a bare UTMI bus; stream endpoints 1 (IN), 2 (OUT), 4 (IN and OUT), max packet 8",
    "host packets well formed with good CRCs (a corrupted OUT data packet trips C06's deserializer defect and is "
    "C13's subject); a lost device ACK is modelled by the host re-using the previous OUT toggle, a lost host ACK by "
    "not acknowledging an IN data packet",
    "a CLEAR_FEATURE(ENDPOINT_HALT) 'completes' when the host ACKs its status ZLP; nothing is asserted about the "
    "signal (status) endpoint's toggle after a clear-halt that names it (it does not implement clear-halt)",
    "whether an OUT packet that may overflow the FIFO is ACKed or NAKed is C13's subject; the toggle must follow "
    "the handshake actually sent",
]

XIN = [dict(k="xin", ep=ep, n=n, ack=1) for ep in (1, 4) for n in (1, 4, 8)]
BULK = G.foreign_table() + XIN * 2 + [dict(k="out", ep=ep, n=8, flip=0) for ep in (2, 4)] * 2
EP_ADDRS = [0x81, 0x02, 0x84, 0x04, 0x81, 0x02, 0x84, 0x04, 0x83, 0x01, 0x82, 0x00, 0x80, 0x03, 0x05, 0x8F, 0x0E]
ACKED = [f for f in BULK if f["k"] == "in"] + [dict(k="probe", addr="dev", ack=1)]


def clear_items():
    halt = st.sampled_from(EP_ADDRS).map(lambda e: [0x02, 1, 0, e, 0])
    other = st.sampled_from([[0x02, 1, 1, 0x81, 0], [0x02, 1, 2, 0x02, 0], [0x00, 1, 0, 0x81, 0], [0x01, 1, 0, 0x04, 0],
                             [0x00, 1, 1, 0, 0], [0x02, 1, 1, 0x84, 0]])
    return st.fixed_dictionaries(dict(
        k=st.just("ctrl"), req=st.one_of(halt, halt, halt, other),
        cut=weighted([(0, 7), (1, 1), (2, 1)]),
        noack=weighted([(0, 4), (1, 1)]),
        mid=long_lists(st.tuples(st.integers(0, 2), st.sampled_from(BULK + ACKED)).map(list), max_size=3, average=0.8),
    ))


class Toggles(Sub):
    name = "toggles"
    budget = {"quick": 1000, "thorough": 20000}
    shrink_budget = 250
    rule = ("a prologue moving a generated subset of toggles to DATA1, then histories of 1..24 items: IN transactions (ACKed or not) on stream endpoints 1/4 and the signal endpoint, "
            "OUT transactions (in sequence, repeated toggle, zero length, overflow-prone) on 2/4, PINGs, stream feeds, "
            "and CLEAR_FEATURE requests -- ENDPOINT_HALT naming any endpoint address 0x00-0x8F (existing, other "
            "direction of an existing number, absent), complete, abandoned after SETUP, with a lost status ACK, with "
            "other endpoints' ACKed transactions between SETUP and status, and non-HALT / non-endpoint variants "
            "(must reset nothing); oracle = independent model of every endpoint's toggle: IN data PID, OUT "
            "accept/skip and the delivered OUT stream must match; a closing IN/OUT on every endpoint exposes the "
            "final toggles; non-trivial = a clear-halt completes while its target's toggle is DATA1 and another "
            "endpoint's toggle is DATA1 too")

    def setup(self):
        self.rig = H.rig("full")

    def strategy(self):
        top = st.one_of(st.sampled_from(BULK), st.sampled_from(BULK), st.sampled_from(BULK), clear_items())
        return st.fixed_dictionaries(dict(pre=st.integers(0, 31), items=long_lists(top, min_size=1, max_size=24, average=12),
                                          **G.env_fields()))

    def build(self, case):
        b = G.Builder(self.rig.descriptors)
        # prologue: move a generated subset of toggles to DATA1 with one successful transaction each
        for bit, it in enumerate((dict(k="xin", ep=1, n=2, ack=1), dict(k="out", ep=2, n=2, flip=0),
                                  dict(k="xin", ep=4, n=2, ack=1), dict(k="out", ep=4, n=2, flip=0),
                                  dict(k="in", ep=3, ack=1))):
            if case["pre"] >> bit & 1:
                b.item(it)
        for it in case["items"]:
            b.item(it)
        for it in (dict(k="feed", ep=1, n=2, last=1), dict(k="feed", ep=4, n=2, last=1), dict(k="idle", n=12),
                   dict(k="in", ep=1, ack=1), dict(k="in", ep=4, ack=1), dict(k="out", ep=2, n=1, flip=0),
                   dict(k="out", ep=4, n=1, flip=0)):
            b.item(it)
        return b

    def run(self, case):
        b = self.build(case)
        run = H.execute("full", b.prog, **G.env_of(case))
        if run.violation is not None:
            v = run.violation
            return fail(v["msg"], signature=self.diagnose(run, b, G.response_signature(v), v.get("txn")))
        err = H.stream_check(run)
        if err:
            return fail(err, signature=self.diagnose(run, b, "out-stream-mismatch", None))
        labels = set()
        nontrivial = False
        for name, detail in run.model.events:
            if name == "clear_halt":
                key, snap = detail
                if key not in snap:
                    labels.add("clear-halt-absent-endpoint")
                    continue
                labels.add(f"clear-halt-ep{key[0]}{key[1]}-at-DATA{snap[key]}")
                if snap[key] == 1 and any(v == 1 for k, v in snap.items() if k != key):
                    nontrivial = True
                    if snap.get((key[0], "out" if key[1] == "in" else "in")) == 1:
                        labels.add("same-number-other-direction-at-DATA1")
        for tr in b.transfers:
            if tr["name"] == "clear_halt" and tr["abandoned"]:
                labels.add("clear-halt-abandoned-after-" + tr["stages"][-1])
            if tr["name"] == "clear_halt" and tr["lost"] and not tr["abandoned"]:
                labels.add("clear-halt-lost-ack-retry")
            if tr["name"] == "clear_feature_other":
                labels.add("clear-feature-other")
            if tr["foreign_inside"]:
                labels.add("traffic-inside-clear-feature")
        for t in run.txns:
            if t["kind"] == "in" and t["ep"] and t["resp"][0] == "data" and not t["ack"]:
                labels.add("in-not-acked")
            if t["kind"] == "out" and t["ep"]:
                if t["resp"] == ("hs", 0xA):
                    labels.add("out-NAK")
                if len(t["allowed"]) == 1 and t["allowed"][0] == ("hs", 0x2) and "flip" in b.prog[t["i"]] and b.prog[t["i"]]["flip"]:
                    labels.add("out-repeated-toggle")
        return Result(ok=True, nontrivial=nontrivial, labels=tuple(sorted(labels)))

    @staticmethod
    def diagnose(run, b, sig, t):
        facts = G.pending_request_facts(run, b.prog)
        upto = t["i"] if t is not None else len(b.prog)
        if facts["foreign_ack_while_pending"]:
            return "foreign-ack-completes-pending-request"
        if any(tr["name"] == "clear_feature_other" and tr["last"] < upto for tr in b.transfers):
            return "stalled-clear-feature-stays-armed"
        if facts["abandoned_before"] and t is not None and t["ep"] == 0 and t["kind"] != "setup":
            return "stale-request-state-after-abandoned-transfer"
        return sig


SUBS = [Toggles()]
