"""C14 — data toggles advance only on success and reset on CLEAR_FEATURE(ENDPOINT_HALT) (full USBDevice, host BFM)."""
from hypothesis import strategies as st

from lunaverif.core import Sub, Result, fail
from lunaverif.gen import long_lists, weighted
from lunaverif.bfm import g9_usb2host as H
from lunaverif.bfm import g9_hostgen as G
from lunaverif.bfm import g8_gen as E
from lunaverif.bfm.g8_ephost import EpHost, Segments, interface_ports, crc_body, PID_OUT, PID_SETUP, D_HS

PROPERTY = "C14"
ASSUMPTIONS = [
    "full-speed device on a bare UTMI bus; stream endpoints 1 (IN), 2 (OUT), 4 (IN and OUT), max packet 8; sub "
    "'high-numbers': stream endpoints 1 and 9 (IN and OUT each) -- USB allows endpoint numbers 1..15 and LUNA's "
    "tokenizer/endpoint compare are 4 bits wide, so a device with an endpoint numbered >= 8 is a legal configuration",
    "host packets well formed with good CRCs (a corrupted OUT data packet trips C06's deserializer defect and is "
    "C13's subject); a lost device ACK is modelled by the host re-using the previous OUT toggle, a lost host ACK by "
    "not acknowledging an IN data packet",
    "a CLEAR_FEATURE(ENDPOINT_HALT) 'completes' when the host ACKs its status ZLP; nothing is asserted about the "
    "signal (status) endpoint's toggle after a clear-halt that names it (it does not implement clear-halt)",
    "whether an OUT packet that may overflow the FIFO is ACKed or NAKed is C13's subject; the toggle must follow "
    "the handshake actually sent",
    "sub 'out-speeds': one USBStreamOutEndpoint driven at its EndpointInterface with the strobe order and timing "
    "device.py produces (lunaverif.bfm.g8_ephost, cross-checked against the real token detector / receiver / timers): "
    "response decision 1 cycle (high speed), 2 (full speed, 12 MHz table) or 10 (full speed, 60 MHz table) after the "
    "end of the packet, one more for packets of <= 8 bytes when the device has a control endpoint. The host is legal: "
    "well-formed packets, toggle advanced on every ACK it sees, the same packet again after a NAK or a lost ACK (or "
    "the transfer given up), PING tokens only at high speed -- either the bulk PING protocol (after a NAK every OUT "
    "is preceded by a PING and only sent if that is ACKed) or none (an interrupt endpoint retries directly); a "
    "completed CLEAR_FEATURE(ENDPOINT_HALT) reaches the endpoint as the clear_endpoint_halt strobe in the cycle of "
    "the host's ACK of the status stage and resets the host's toggle too when it names this endpoint's OUT side. "
    "A transaction not answered with exactly one ACK or NAK is C13's subject and ends the judgement of that case",
]

def tables(in_eps, out_eps):
    xin = [dict(k="xin", ep=ep, n=n, ack=1) for ep in in_eps for n in (1, 4, 8)]
    bulk = (G.foreign_table(in_eps=in_eps, out_eps=out_eps) + xin * 2
            + [dict(k="out", ep=ep, n=8, flip=0) for ep in out_eps] * 2)
    acked = [f for f in bulk if f["k"] == "in"] + [dict(k="probe", addr="dev", ack=1)]
    return bulk, acked


BULK, ACKED = tables((1, 4), (2, 4))
EP_ADDRS = [0x81, 0x02, 0x84, 0x04, 0x81, 0x02, 0x84, 0x04, 0x83, 0x01, 0x82, 0x00, 0x80, 0x03, 0x05, 0x8F, 0x0E]
# "wide" rig (stream endpoints 1 and 9, IN and OUT each): the existing addresses three times, then neighbours that
# differ from an existing number in one bit of the 4-bit endpoint number, the signal endpoint, endpoint 0, 15
WIDE_BULK, WIDE_ACKED = tables((1, 9), (1, 9))
WIDE_ADDRS = [0x81, 0x01, 0x89, 0x09] * 3 + [0x83, 0x03, 0x8B, 0x0B, 0x88, 0x08, 0x80, 0x00, 0x8D, 0x05, 0x8F, 0x0F]


def clear_items(addrs=EP_ADDRS, bulk=BULK, acked=ACKED):
    halt = st.sampled_from(addrs).map(lambda e: [0x02, 1, 0, e, 0])
    a, b = addrs[0], addrs[1]
    other = st.sampled_from([[0x02, 1, 1, a, 0], [0x02, 1, 2, b, 0], [0x00, 1, 0, a, 0], [0x01, 1, 0, addrs[3], 0],
                             [0x00, 1, 1, 0, 0], [0x02, 1, 1, addrs[2], 0]])
    return st.fixed_dictionaries(dict(
        k=st.just("ctrl"), req=st.one_of(halt, halt, halt, other),
        cut=weighted([(0, 7), (1, 1), (2, 1)]),
        noack=weighted([(0, 4), (1, 1)]),
        mid=long_lists(st.tuples(st.integers(0, 2), st.sampled_from(bulk + acked)).map(list), max_size=3, average=0.8),
    ))


class Toggles(Sub):
    name = "toggles"
    budget = {"quick": 1000, "thorough": 20000}
    shrink_budget = 250
    kind = "full"
    bulk, acked, addrs = BULK, ACKED, EP_ADDRS
    # one successful transaction per stream endpoint (+ the signal endpoint): prologue bit -> item; closing items
    stream_eps = ((1, "in"), (2, "out"), (4, "in"), (4, "out"))
    rule = ("a prologue moving a generated subset of toggles to DATA1, then histories of 1..24 items: IN transactions (ACKed or not) on stream endpoints 1/4 and the signal endpoint, "
            "OUT transactions (in sequence, repeated toggle, zero length, overflow-prone) on 2/4, PINGs, stream feeds, "
            "and CLEAR_FEATURE requests -- ENDPOINT_HALT naming any endpoint address 0x00-0x8F (existing, other "
            "direction of an existing number, absent), complete, abandoned after SETUP, with a lost status ACK, with "
            "other endpoints' ACKed transactions between SETUP and status, and non-HALT / non-endpoint variants "
            "(must reset nothing); oracle = independent model of every endpoint's toggle: IN data PID, OUT "
            "accept/skip and the delivered OUT stream must match; a closing IN/OUT on every endpoint exposes the "
            "final toggles; non-trivial = a clear-halt completes while its target's toggle is DATA1 and another "
            "endpoint's toggle is DATA1 too")

    def setup(self):
        self.rig = H.rig(self.kind)

    def strategy(self):
        bulk = st.sampled_from(self.bulk)
        top = st.one_of(bulk, bulk, bulk, clear_items(self.addrs, self.bulk, self.acked))
        return st.fixed_dictionaries(dict(pre=st.integers(0, 31), items=long_lists(top, min_size=1, max_size=24, average=12),
                                          **G.env_fields()))

    def build(self, case):
        b = G.Builder(self.rig.descriptors)
        # prologue: move a generated subset of toggles to DATA1 with one successful transaction each
        pre = [dict(k="xin", ep=ep, n=2, ack=1) if d == "in" else dict(k="out", ep=ep, n=2, flip=0)
               for ep, d in self.stream_eps] + [dict(k="in", ep=3, ack=1)]
        for bit, it in enumerate(pre):
            if case["pre"] >> bit & 1:
                b.item(it)
        for it in case["items"]:
            b.item(it)
        ins = [ep for ep, d in self.stream_eps if d == "in"]
        outs = [ep for ep, d in self.stream_eps if d == "out"]
        for it in ([dict(k="feed", ep=ep, n=2, last=1) for ep in ins] + [dict(k="idle", n=12)]
                   + [dict(k="in", ep=ep, ack=1) for ep in ins] + [dict(k="out", ep=ep, n=1, flip=0) for ep in outs]):
            b.item(it)
        return b

    def run(self, case):
        b = self.build(case)
        run = H.execute(self.kind, b.prog, **G.env_of(case))
        if run.violation is not None:
            v = run.violation
            return fail(v["msg"], signature=self.diagnose(run, b, G.response_signature(v), v.get("txn")))
        err = H.stream_check(run)
        if err:
            return fail(err, signature=self.diagnose(run, b, "out-stream-mismatch", None))
        labels = set()
        nontrivial = False
        for name, detail in run.model.events:
            if name == "clear_halt":
                key, snap = detail
                if key not in snap:
                    labels.add("clear-halt-absent-endpoint")
                    continue
                labels.add(f"clear-halt-ep{key[0]}{key[1]}-at-DATA{snap[key]}")
                if snap[key] == 1 and any(v == 1 for k, v in snap.items() if k != key):
                    nontrivial = True
                    if snap.get((key[0], "out" if key[1] == "in" else "in")) == 1:
                        labels.add("same-number-other-direction-at-DATA1")
        for tr in b.transfers:
            if tr["name"] == "clear_halt" and tr["abandoned"]:
                labels.add("clear-halt-abandoned-after-" + tr["stages"][-1])
            if tr["name"] == "clear_halt" and tr["lost"] and not tr["abandoned"]:
                labels.add("clear-halt-lost-ack-retry")
            if tr["name"] == "clear_feature_other":
                labels.add("clear-feature-other")
            if tr["foreign_inside"]:
                labels.add("traffic-inside-clear-feature")
        for t in run.txns:
            if t["kind"] == "in" and t["ep"] and t["resp"][0] == "data" and not t["ack"]:
                labels.add("in-not-acked")
            if t["kind"] == "out" and t["ep"]:
                if t["resp"] == ("hs", 0xA):
                    labels.add("out-NAK")
                if len(t["allowed"]) == 1 and t["allowed"][0] == ("hs", 0x2) and "flip" in b.prog[t["i"]] and b.prog[t["i"]]["flip"]:
                    labels.add("out-repeated-toggle")
        return Result(ok=True, nontrivial=nontrivial, labels=tuple(sorted(labels)))

    @staticmethod
    def diagnose(run, b, sig, t):
        facts = G.pending_request_facts(run, b.prog)
        upto = t["i"] if t is not None else len(b.prog)
        if facts["foreign_ack_while_pending"]:
            return "foreign-ack-completes-pending-request"
        if any(tr["name"] == "clear_feature_other" and tr["last"] < upto for tr in b.transfers):
            return "stalled-clear-feature-stays-armed"
        if facts["abandoned_before"] and t is not None and t["ep"] == 0 and t["kind"] != "setup":
            return "stale-request-state-after-abandoned-transfer"
        return sig


class HighNumbers(Toggles):
    name = "high-numbers"
    budget = {"quick": 300, "thorough": 8000}
    kind = "wide"
    bulk, acked, addrs = WIDE_BULK, WIDE_ACKED, WIDE_ADDRS
    stream_eps = ((1, "in"), (1, "out"), (9, "in"), (9, "out"))
    rule = ("the same histories and the same toggle model as 'toggles' on a device whose stream endpoints are 1 and 9 "
            "(IN and OUT each; numbers that differ only in bit 3): clear-halts name 0x81/0x01/0x89/0x09 (3 in 5), one-bit "
            "neighbours (3, 11, 8), 0, 5, 13, 15; non-trivial as in 'toggles'")


# ---------------------------------------------------------------------------------------------------------------------
# The OUT toggle at every speed / timer table (endpoint level)
# (max_packet_size, buffer_size or None (= the default 2*mps-1), endpoint number)
OUT_CONFIGS = [(8, None, 2), (8, 8, 2), (16, None, 5), (16, 16, 5), (16, 40, 13), (64, None, 1)]
CLOSING = [dict(op="drain"),
           dict(op="out", n=2, ack_lost=False, retry=True, lead=1, period=1, jitter=[], trail=0, tok2data=3, gap=2),
           dict(op="out", n=1, ack_lost=False, retry=True, lead=2, period=1, jitter=[], trail=1, tok2data=3, gap=2),
           dict(op="drain")]


def _out_endpoint(mps, buf, ep):
    """USBStreamOutEndpoint with its clear_endpoint_halt_in fields driven from three plain signals."""
    from amaranth import Elaboratable, Module, Signal
    from luna.gateware.usb.usb2.endpoints.stream import USBStreamOutEndpoint

    class Wrapped(Elaboratable):
        def __init__(self):
            self.ep = USBStreamOutEndpoint(endpoint_number=ep, max_packet_size=mps, buffer_size=buf)
            self.ch_en, self.ch_dir, self.ch_num = Signal(name="ch_en"), Signal(name="ch_dir"), Signal(4, name="ch_num")

        def elaborate(self, platform):
            m = Module()
            m.submodules.ep = self.ep
            ch = self.ep.interface.clear_endpoint_halt_in
            m.d.comb += [ch.enable.eq(self.ch_en), ch.direction.eq(self.ch_dir), ch.number.eq(self.ch_num)]
            return m
    return Wrapped()


def out_speed_ops(ep, mps, N, d):
    # lengths: full packets, the lengths that make whole packets end exactly at / one byte past the end of the buffer, any
    n = st.one_of(st.sampled_from([mps, mps, mps, mps - 1, 1, 0, (N + 1) % mps, N % mps]),
                  st.sampled_from([mps, mps, mps, mps - 1, 1, 0, (N + 1) % mps, N % mps]), st.integers(0, mps))
    fields = dict(ack_lost=weighted([(False, 4), (True, 1)]), retry=weighted([(True, 4), (False, 1)]),
                  lead=st.integers(1, 3), period=weighted([(1, 5), (2, 2), (3, 1), (5, 1)]),
                  jitter=st.lists(st.integers(0, 2), max_size=3), trail=weighted([(0, 3), (1, 2), (2, 1)]),
                  tok2data=st.integers(2, 12), gap=E.gap)
    out = st.fixed_dictionaries(dict(op=st.just("out"), n=n, **fields))
    # "tight": the host first sends as many packets as it takes to leave exactly `b` free bytes in the buffer (as far as
    # the consumer lets it: `stall` keeps the consumer from reading until the packet is answered), then an n-byte packet:
    # its byte number b (0 = first, n-1 = last) is the one that finds the FIFO full
    tight = st.fixed_dictionaries(dict(
        op=st.just("tight"), n=st.one_of(st.sampled_from([mps, mps, mps - 1, 2, 1]), st.integers(1, mps)),
        at=weighted([("last", 4), ("first", 2), ("any", 2)]), pos=st.integers(0, 1023),
        stall=weighted([(True, 3), (False, 1)]), **fields))
    others = [e for e in range(16) if e != ep]
    bg_kinds = [E.in_other(list(range(16))), E.out_other(others), E.foreign(), E.idle, E.sof]
    if d == D_HS:
        bg_kinds.append(E.ping(others))
    bg = st.fixed_dictionaries(dict(op=st.just("bg"), ev=st.one_of(*bg_kinds)))
    # CLEAR_FEATURE(ENDPOINT_HALT) completing: this endpoint's OUT side, its IN side, numbers one bit away, any
    addr = st.one_of(st.just([ep, 0]), st.just([ep, 0]), st.just([ep, 1]),
                     st.tuples(st.sampled_from([ep ^ 1, ep ^ 2, ep ^ 4, ep ^ 8, 0]), st.integers(0, 1)).map(list),
                     st.tuples(st.integers(0, 15), st.integers(0, 1)).map(list))
    clear = st.fixed_dictionaries(dict(op=st.just("clear"), addr=addr, gap=E.gap, ack_delay=st.integers(1, 6),
                                       tok2data=st.integers(2, 8)))
    kinds = [out] * 5 + [tight] * 2 + [bg, clear]
    if d == D_HS:
        kinds.append(st.fixed_dictionaries(dict(op=st.just("ping"), gap=E.gap)))
    return st.one_of(*kinds)


class OutSpeeds(Sub):
    name = "out-speeds"
    budget = {"quick": 700, "thorough": 15000}
    shrink_budget = 300
    rule = ("USBStreamOutEndpoint (mps 8/16/64, buffer mps / default 2*mps-1 / 40) at its EndpointInterface with the "
            "response timing of all three timer tables (high speed 1 cycle, full speed 2 or 10 cycles, +1 behind a "
            "control endpoint for <= 8 bytes) under a legal host: histories of 4..30 items, mostly OUT transactions of 0..mps bytes "
            "(weighted to 1, mps-1, mps and the lengths that end at / one past the end of the buffer) and 'tight' items -- the "
            "host fills the buffer until exactly b bytes are free (consumer held off, 3 in 4) and then sends an n-byte "
            "packet, so that the FIFO runs full at a chosen byte of it: the last (1 in 2), the first, any --, lost ACKs (toggle re-used), retries after NAK or the transfer given up, at high speed "
            "PINGs (bulk PING protocol after a NAK, or direct retries as on an interrupt endpoint), completed "
            "CLEAR_FEATURE(ENDPOINT_HALT) strobes naming this endpoint's OUT side / its IN side / one-bit-neighbour "
            "numbers / any, background traffic; consumer ready patterns from always to never; a drain and two closing "
            "OUT transactions expose the final toggle. Oracle = toggle model: it advances on an ACK of a packet that "
            "carries the expected toggle and on nothing else (NAK, ACK of a repeated toggle, other traffic), returns to "
            "DATA0 on a clear-halt naming exactly (this number, OUT); the delivered byte stream must be the payloads "
            "(every packet's bytes are distinct) of exactly the ACKed packets that carried the model's toggle. "
            "non-trivial = an in-sequence packet is NAKed and a later in-sequence packet is ACKed")

    def setup(self):
        self.h = {}

    def harness(self, cfg):
        if cfg not in self.h:
            from lunaverif.simkit import CycleHarness
            dut = _out_endpoint(*OUT_CONFIGS[cfg])
            ins, outs = interface_ports(dut.ep.interface)
            ins.update(o_ready=dut.ep.stream.ready, ch_en=dut.ch_en, ch_dir=dut.ch_dir, ch_num=dut.ch_num)
            outs.update(o_valid=dut.ep.stream.valid, o_data=dut.ep.stream.payload)
            self.h[cfg] = CycleHarness(dut, ins, outs, domain="usb")
        return self.h[cfg]

    def strategy(self):
        def case(cd):
            cfg, d = cd
            mps, buf, ep = OUT_CONFIGS[cfg]
            return st.fixed_dictionaries(dict(
                cfg=st.just(cfg), d=st.just(d), ctrl=weighted([(True, 2), (False, 1)]),
                pingp=weighted([(True, 2), (False, 1)]), salt=st.integers(0, 255),
                ready=st.one_of(E.ready_segments, st.just([[0, 1]]), st.just([[0, 1]]),
                                st.integers(3, 40).map(lambda k: [[1, 1], [0, k]]),
                                st.tuples(st.integers(40, 400), st.integers(1, 2 * mps)).map(lambda a: [[0, a[0]], [1, a[1]]]),
                                E.segments(weighted([(0, 3), (1, 1)]), max_dwell=80, max_seg=8),
                                st.lists(st.tuples(weighted([(0, 2), (1, 1)]), st.integers(1, 3 * mps)).map(list),
                                         min_size=2, max_size=8)),
                ops=long_lists(out_speed_ops(ep, mps, buf if buf is not None else 2 * mps - 1, d), min_size=4, max_size=30, average=17)))
        cfgs = weighted([(i, 1 if OUT_CONFIGS[i][0] == 64 else 2) for i in range(len(OUT_CONFIGS))])
        return st.tuples(cfgs, weighted([(1, 3), (2, 2), (10, 2)])).flatmap(case)

    def run(self, case):
        mps, buf, ep = OUT_CONFIGS[case["cfg"]]
        N = buf if buf is not None else 2 * mps - 1
        d, salt = case["d"], case.get("salt", 0)
        pingp = bool(case.get("pingp")) and d == D_HS
        rdy = Segments(case["ready"])
        ops = list(case["ops"]) + CLOSING
        ready_at = []
        hst = dict(i=0, ht=0, pending=None, last=None, drain=False, pingstate=False, ping_for=None, queue=[], clear=None,
                   tight=None, stall=False, acc=0, dup=False, consumed=0)
        sent = {}       # log index -> dict(toggle, payload)
        clears = {}     # log index (of the status-stage IN) -> [number, direction]

        def side(t, prev, host):
            if prev is not None and prev.o_valid and ready_at[-1]:
                hst["consumed"] += 1
            r = 1 if hst["drain"] else (0 if hst["stall"] else rdy.at(t))
            ready_at.append(r)
            v = dict(o_ready=r, ch_en=0)
            c = hst["clear"]
            if c is not None and len(host.log) > c[0] and host.log[c[0]].get("t_ack") == t:
                v.update(ch_en=1, ch_num=c[1][0], ch_dir=c[1][1])
            return v

        def response_of(host, j):
            nh1 = host.log[j + 1]["nh0"] if j + 1 < len(host.log) else len(host.hs_out)
            return [k for _, k in host.hs_out[host.log[j]["nh0"]:nh1]]

        def out_event(host, i, op):
            payload = hst["pending"] if hst["pending"] is not None else \
                [(salt + 29 * i + 101 * op.get("filler", 0) + 7 * k) & 0xFF for k in range(op["n"])]
            j = len(host.log)
            hst["last"] = (j, op, payload)
            sent[j] = dict(toggle=hst["ht"], payload=payload, trail=op["trail"])
            return dict(k="out", ep=ep, pid=PID_OUT, dpid=hst["ht"], data=crc_body(payload), lead=op["lead"],
                        period=op["period"], jitter=op["jitter"], trail=op["trail"], tok2data=op["tok2data"], gap=op["gap"])

        def more(host):
            if hst["last"] is not None:                     # what the host saw of its previous OUT transaction
                j, op, payload = hst["last"]
                kinds = response_of(host, j)
                if kinds == ["ack"]:
                    if not hst["dup"]:
                        hst["acc"] += len(payload)            # (steering only) bytes the endpoint has taken so far
                    hst["dup"] = bool(op["ack_lost"])
                if kinds == ["ack"] and not op["ack_lost"]:
                    hst["ht"] ^= 1
                    hst["pending"] = None
                    hst["pingstate"] = False
                elif kinds == ["ack"]:
                    hst["pending"] = payload                  # ACK lost on its way: same packet, same toggle again
                else:
                    hst["pending"] = payload if op["retry"] else None
                    hst["pingstate"] = True
                    hst["tight"] = None
                hst["last"] = None
                if hst["tight"] is None:
                    hst["stall"] = False
            if hst["ping_for"] is not None:                 # bulk PING protocol: OUT only after an ACKed PING
                j, i, op = hst["ping_for"]
                hst["ping_for"] = None
                if response_of(host, j) == ["ack"]:
                    hst["pingstate"] = False
                    return out_event(host, i, op)
                hst["tight"], hst["stall"] = None, False      # the host defers the transfer
            if hst["queue"]:
                ev = hst["queue"].pop(0)
                if ev.get("clear") is not None:
                    j = len(host.log)
                    hst["clear"] = (j, ev["clear"])
                    clears[j] = ev["clear"]
                    if ev["clear"] == [ep, 0]:
                        hst["ht"] = 0                         # the host resets its toggle as well [USB 2.0: 9.4.5]
                        hst["dup"] = False
                return ev
            tg = hst["tight"]
            if tg is not None:
                free = N - (hst["acc"] - hst["consumed"])
                if free > tg["b"] and tg["fillers"] < 8:
                    tg["fillers"] += 1
                    return send(host, tg["i"], dict(tg["op"], n=min(mps, free - tg["b"]), filler=tg["fillers"],
                                                    ack_lost=False, trail=1))
                hst["tight"] = None
                return send(host, tg["i"], tg["op"])
            if hst["i"] >= len(ops):
                return None
            i = hst["i"]
            op = ops[i]
            hst["i"] += 1
            k = op["op"]
            if k == "drain":
                hst["drain"] = True
                return dict(k="idle", n=N + 8, gap=0)
            if k == "bg":
                return op["ev"]
            if k == "ping":
                return dict(k="ping", ep=ep, gap=op["gap"])
            if k == "clear":
                num, direction = op["addr"]
                req = [0x02, 1, 0, 0, num | (direction << 7), 0, 0, 0]
                hst["queue"].append(dict(k="in", ep=0, mine=False, hs="ack", other_len=3, gap=2,
                                         ack_delay=op["ack_delay"], clear=[num, direction]))
                return dict(k="out", ep=0, pid=PID_SETUP, dpid=0, data=crc_body(req), lead=1, period=1, jitter=[],
                            trail=1, tok2data=op["tok2data"], gap=op["gap"])
            if k == "tight":
                n = op["n"]
                b = n - 1 if op["at"] == "last" else (0 if op["at"] == "first" else op["pos"] % n)
                hst["tight"] = dict(i=i, op=op, b=b, fillers=0)
                hst["stall"] = bool(op["stall"])
                return more(host)
            return send(host, i, op)

        def send(host, i, op):
            if pingp and hst["pingstate"]:
                hst["ping_for"] = (len(host.log), i, op)
                return dict(k="ping", ep=ep, gap=op["gap"])
            return out_event(host, i, op)

        host = EpHost([], d=d, side=side, more=more, ctrl=case["ctrl"])
        trace = self.harness(case["cfg"]).run_driver(host, 400000)
        if host.done_at is None:
            raise RuntimeError("host script did not finish")
        got = [o.o_data for t, o in enumerate(trace) if o.o_valid and ready_at[t]]

        # transcript for the toggle model: ("clear", number, direction) | ("out", toggle, payload, "ack"|"nak", log index)
        script = []
        labels = {f"d={d}{'+ctrl' if case['ctrl'] else ''}", f"mps={mps}/buf={N}"}
        for j, rec in enumerate(host.log):
            if j in clears and rec.get("t_ack") is not None:
                script.append(("clear", clears[j][0], clears[j][1]))
            elif j in sent:
                kinds = response_of(host, j)
                if kinds not in (["ack"], ["nak"]):
                    return Result(ok=True, nontrivial=False, labels=("handshake-anomaly-left-to-C13",))
                script.append(("out", sent[j]["toggle"], sent[j]["payload"], kinds[0], j))
                if kinds == ["nak"] and rec.get("t_rdy") is not None and rec["t_rdy"] <= rec["T"] + 2 and not sent[j]["trail"]:
                    labels.add("nak-decided-with-last-byte-in-flight")

        def model(deviation=None, note=None):
            """The statement's toggle rule over the transcript -> the bytes that must have been delivered.
            deviation (diagnosis only) = (index into script, what) names ONE step at which a wrong rule is applied."""
            dt, out, nak_seen, nontrivial = 0, [], False, False
            for idx, ev in enumerate(script):
                wrong = deviation is not None and deviation[0] == idx
                if ev[0] == "clear":
                    mine = (ev[1] == ep and ev[2] == 0)
                    if note is not None:
                        note.add("clear-halt-mine-at-DATA%d" % dt if mine else
                                 ("clear-halt-my-number-IN" if ev[1] == ep else "clear-halt-other-number"))
                    if mine != wrong:
                        dt = 0
                    continue
                _, tog, payload, kind, j = ev
                if kind == "ack" and tog == dt:
                    out += payload
                    if not wrong:
                        dt ^= 1
                    if nak_seen:
                        nontrivial = True
                    if note is not None:
                        note.add("ack-new-zlp" if not payload else "ack-new")
                elif kind == "ack":
                    if wrong:
                        dt ^= 1
                    if note is not None:
                        note.add("ack-repeated-toggle")
                else:
                    if wrong:
                        dt ^= 1
                    if tog == dt or wrong:
                        nak_seen = True
                    if note is not None:
                        note.add("nak" if tog == dt else "nak-repeated-toggle")
            return out, nontrivial

        expected, nontrivial = model(note=labels)
        if pingp:
            labels.add("ping-protocol")
        if got != expected:
            k = next((i for i, (a, b) in enumerate(zip(got, expected)) if a != b), min(len(got), len(expected)))
            sig, why = "out-stream-disagrees-with-toggle-model", "no single wrong toggle step explains the delivered stream"
            # diagnosis: which single wrong toggle step would explain what was delivered?  A wrong step is only located up
            # to the next packet that exposes the toggle, so all candidates are listed; the signature names the first of:
            # advance on a NAK, reset by a foreign clear-halt, missed own clear-halt, advance on a repeated toggle, no
            # advance on an ACK of new data
            cands = []
            for idx, ev in enumerate(script):
                if model(deviation=(idx, True))[0] != got:
                    continue
                if ev[0] == "clear":
                    mine = (ev[1] == ep and ev[2] == 0)
                    cands.append((2 if mine else 1,
                                  "out-toggle-not-reset-by-its-clear-halt" if mine else "out-toggle-reset-by-clear-halt-naming-another-endpoint",
                                  f"the clear-halt naming endpoint {ev[1]} {'IN' if ev[2] else 'OUT'} (step {idx}) "
                                  + ("NOT resetting the toggle" if mine else "resetting this endpoint's OUT toggle")))
                else:
                    _, tog, payload, kind, j = ev
                    rec = host.log[j]
                    what = f"the DATA{tog} packet of log entry {j} ({len(payload)} bytes, rx end T={rec['T']}, {kind.upper()} at {rec.get('t_rdy')})"
                    if kind == "nak":
                        cands.append((0, "out-toggle-advanced-on-nak", f"the toggle advancing on {what}"))
                    elif tog == self._toggle_before(script, idx, ep):
                        cands.append((4, "out-toggle-not-advanced-on-ack-of-new-data", f"the toggle NOT advancing on {what}"))
                    else:
                        cands.append((3, "out-toggle-advanced-on-ack-of-repeated-toggle", f"the toggle advancing on {what}, a repeated toggle"))
            if cands:
                cands.sort(key=lambda c: c[0])
                sig = cands[0][1]
                why = "explained by " + " / or by ".join(c[2] for c in cands[:3])
            return fail(f"OUT ep{ep} (mps {mps}, buffer {N}, d={d}{'+ctrl' if case['ctrl'] else ''}): delivered stream differs from the "
                        f"ACKed packets that carried the expected toggle -- {why}; first difference at byte {k}: delivered "
                        f"{len(got)} bytes {got[max(0, k - 2):k + 4]}, toggle model expects {len(expected)} bytes "
                        f"{expected[max(0, k - 2):k + 4]}", signature=sig)
        return Result(ok=True, nontrivial=nontrivial, labels=tuple(sorted(labels)))


    @staticmethod
    def _toggle_before(script, upto, ep):
        dt = 0
        for ev in script[:upto]:
            if ev[0] == "clear":
                if ev[1] == ep and ev[2] == 0:
                    dt = 0
            elif ev[3] == "ack" and ev[1] == dt:
                dt ^= 1
        return dt


SUBS = [Toggles(), HighNumbers(), OutSpeeds()]
