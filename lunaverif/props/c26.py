"""C26 — stream arbiters forward whole bursts without loss (StreamArbiter, HeaderQueueArbiter)."""
from hypothesis import strategies as st

from lunaverif.core import Sub, Result, fail
from lunaverif.gen import weighted, bits
from lunaverif.simkit import CycleHarness

PROPERTY = "C26"
ASSUMPTIONS = [
    "producers obey valid-hold: once valid is raised the word is held unchanged until a cycle in which the arbiter "
    "returns ready to that producer; a burst is a maximal run of cycles with valid held, bursts are separated by >= 1 "
    "cycle of valid low",
    "sub 'arbiter': valid is a single bit (StreamInterface, USBRawSuperSpeedStream and HeaderQueue — every stream type "
    "the repository arbitrates); sub 'arbiter-multilane-valid': StreamArbiter(stream_type=SuperSpeedStreamInterface), "
    "an input offers data while its 4-lane valid mask is non-zero (no in-repo arbiter is built this way)",
    "the consumer's ready is arbitrary (also high while nothing is offered) with bounded gaps",
    "nothing is assumed about which input is selected after reset or while no input is valid",
]

# kind -> (domain, [(field, width)])
KINDS = {
    "stream8": ("sync", [("payload", 8), ("first", 1), ("last", 1)]),
    "rawss": ("ss", [("payload", 32), ("ctrl", 4), ("first", 1), ("last", 1)]),
    "header": ("ss", [("header", 128)]),
    # multi-lane valid (SuperSpeedStreamInterface): the word's first element is its non-zero valid mask
    "ss4": ("sync", [("payload", 32), ("first", 1), ("last", 1)]),
}
MULTILANE = {"ss4"}
CONFIGS = [("stream8", 1), ("stream8", 2), ("stream8", 3), ("stream8", 4), ("rawss", 4), ("rawss", 2),
           ("header", 1), ("header", 2), ("header", 3), ("ss4", 2), ("ss4", 3)]


def build(kind, n):
    domain, fields = KINDS[kind]
    if kind == "stream8":
        from luna.gateware.stream import StreamInterface
        from luna.gateware.stream.arbiter import StreamArbiter
        dut = StreamArbiter()
        prods = [StreamInterface() for _ in range(n)]
        for p in prods:
            dut.add_stream(p)
    elif kind == "rawss":
        from luna.gateware.usb.stream import SuperSpeedStreamArbiter, USBRawSuperSpeedStream
        dut = SuperSpeedStreamArbiter()
        prods = [USBRawSuperSpeedStream() for _ in range(n)]
        for p in prods:
            dut.add_stream(p)
    elif kind == "ss4":
        from luna.gateware.usb.stream import SuperSpeedStreamInterface
        from luna.gateware.stream.arbiter import StreamArbiter
        dut = StreamArbiter(stream_type=SuperSpeedStreamInterface)
        prods = [SuperSpeedStreamInterface() for _ in range(n)]
        for p in prods:
            dut.add_stream(p)
    else:
        from luna.gateware.usb.usb3.link.header import HeaderQueueArbiter, HeaderQueue
        dut = HeaderQueueArbiter()
        prods = [HeaderQueue() for _ in range(n)]
        for p in prods:
            dut.add_producer(p)
    ins = {"ready": dut.source.ready}
    outs = {"valid": dut.source.valid, "idle": dut.idle}
    for f, _ in fields:
        outs["src_" + f] = getattr(dut.source, f)
    for k, p in enumerate(prods):
        ins[f"v{k}"] = p.valid
        outs[f"r{k}"] = p.ready
        for f, _ in fields:
            ins[f"{f}{k}"] = getattr(p, f)
    return CycleHarness(dut, ins, outs, domain=domain)


class _Driver:
    def __init__(self, n, fields, inputs, ready, tail=3, multilane=False):
        self.multilane = multilane
        self.n = n
        self.fields = fields
        self.inputs = inputs
        self.ready = ready
        self.tail = tail
        # per producer: burst index, word index, remaining gap
        self.bi = [0] * n
        self.wi = [0] * n
        self.gap = [inputs[k][0]["gap"] if inputs[k] else 0 for k in range(n)]
        self.valid = [0] * n
        self.log = []           # per cycle: dict(v=[..], w=[word or None], burst=[index or None], ready=r)
        self.after = 0

    def step(self, t, prev):
        n = self.n
        if prev is not None:
            for k in range(n):
                if self.valid[k] and getattr(prev, f"r{k}"):
                    self.wi[k] += 1
                    if self.wi[k] >= len(self.inputs[k][self.bi[k]]["words"]):
                        self.bi[k] += 1
                        self.wi[k] = 0
                        self.valid[k] = 0
                        if self.bi[k] < len(self.inputs[k]):
                            self.gap[k] = max(1, self.inputs[k][self.bi[k]]["gap"])
                        # the mandatory one low cycle is this one (gap >= 1 counts it)
        upd = {}
        v, w, b = [], [], []
        for k in range(n):
            if not self.valid[k] and self.bi[k] < len(self.inputs[k]):
                if self.gap[k] > 0:
                    self.gap[k] -= 1
                else:
                    self.valid[k] = 1
            if self.valid[k]:
                word = list(self.inputs[k][self.bi[k]]["words"][self.wi[k]])
                mask = word.pop(0) if self.multilane else 1
                for (f, _), val in zip(self.fields, word):
                    upd[f"{f}{k}"] = val
                w.append(word)
                b.append(self.bi[k])
            else:
                mask = 0
                w.append(None)
                b.append(None)
            upd[f"v{k}"] = mask
            v.append(mask)
        r = self.ready[t % len(self.ready)]
        upd["ready"] = r
        if not any(v) and all(self.bi[k] >= len(self.inputs[k]) for k in range(n)):
            self.after += 1
            if self.after > self.tail:
                return None
        self.log.append(dict(v=v, w=w, burst=b, ready=r))
        return upd


class ArbiterSub(Sub):
    name = "arbiter"
    budget = {"quick": 20000, "thorough": 300000}
    rule = ("StreamArbiter with 1..4 StreamInterface sinks, SuperSpeedStreamArbiter (raw 32-bit + ctrl) with 2/4 sinks, "
            "HeaderQueueArbiter with 1..3 producers; per input a list of bursts (gap, words) driven by valid-hold "
            "producers, arbitrary consumer ready pattern; oracle per cycle: a selected index exists that explains "
            "source and every ready output, the selection never leaves an input whose valid is held and moves to the "
            "lowest-index waiting input, idle == no input valid, accepted == delivered, bursts not interleaved; "
            "non-trivial = a higher-priority input raised valid while a lower-priority burst was in progress AND that "
            "burst was stalled by the consumer at least once")

    cfg_ids = list(range(9))

    def setup(self):
        self.h = {}

    def harness(self, ci):
        if ci not in self.h:
            self.h[ci] = build(*CONFIGS[ci])
        return self.h[ci]

    def strategy(self):
        def for_cfg(ci):
            kind, n = CONFIGS[ci]
            fields = KINDS[kind][1]
            word = st.tuples(*[bits(wd) for _, wd in fields]).map(list)
            if kind in MULTILANE:
                mask = weighted([(0b1111, 5), (0b0001, 1), (0b0011, 1), (0b0111, 1), (0b1000, 1)])
                word = st.tuples(mask, word).map(lambda mw: [mw[0]] + mw[1])
            burst = st.fixed_dictionaries(dict(gap=weighted([(0, 2), (1, 3), (2, 2), (4, 1), (9, 1)]),
                                               words=st.lists(word, min_size=1, max_size=6)))
            ready = st.one_of(st.just([1]),
                              st.lists(weighted([(1, 2), (0, 1)]), min_size=0, max_size=9).map(lambda l: l + [1]),
                              st.lists(weighted([(0, 3), (1, 1)]), min_size=1, max_size=5).map(lambda l: l + [1]))
            return st.fixed_dictionaries(dict(
                cfg=st.just(ci),
                inputs=st.lists(st.lists(burst, min_size=0, max_size=4), min_size=n, max_size=n),
                ready=ready))
        return st.sampled_from(self.cfg_ids).flatmap(for_cfg)

    def run(self, case):
        ci = case["cfg"]
        kind, n = CONFIGS[ci]
        fields = KINDS[kind][1]
        drv = _Driver(n, fields, case["inputs"], case["ready"], multilane=kind in MULTILANE)
        total_words = sum(len(b["words"]) for inp in case["inputs"] for b in inp)
        bursts = [b for inp in case["inputs"] for b in inp]
        bound = total_words * (len(case["ready"]) + 1) + sum(b["gap"] + 4 for b in bursts) + 50
        trace = self.harness(ci).run_driver(drv, max_cycles=bound)
        log = drv.log
        what = f"{kind} x{n}"
        if any(drv.bi[k] < len(case["inputs"][k]) for k in range(n)):
            return fail(f"{what}: not all offered words were accepted within the cycle bound (an input starved with a "
                        f"consumer that keeps offering ready)", signature="starvation")

        cand = None
        accepted_in_burst = [0] * n       # words accepted from the producer's current burst
        cur_burst = [None] * n
        labels = set()
        preempt_attempt = False
        stalled_burst = [False] * n
        nt = False
        for t, (lg, o) in enumerate(zip(log, trace)):
            v, w, r = lg["v"], lg["w"], lg["ready"]
            src = [getattr(o, "src_" + f) for f, _ in fields]
            rk = [getattr(o, f"r{k}") for k in range(n)]
            # ---- idle
            if o.idle != int(not any(v)):
                partial = kind in MULTILANE and any(x not in (0, 15) for x in v)
                return fail(f"{what} cycle {t}: idle={o.idle} with input valids {v}",
                            signature="idle-wrong" + ("-partial-valid-mask" if partial else ""))
            # ---- which selections explain this cycle?
            consistent = set()
            for s in range(n):
                if o.valid != v[s]:
                    continue
                if v[s] and src != w[s]:
                    continue
                if any(rk[k] != (r if k == s else 0) for k in range(n)):
                    continue
                consistent.add(s)
            if not consistent:
                sig = "no-selection-explains-cycle"
                if sum(rk) > 1 or any(rk[k] and not r for k in range(n)):
                    sig = "ready-misrouted"
                elif o.valid and src not in [w[k] for k in range(n) if v[k]]:
                    sig = "forwarded-word-from-no-input"
                return fail(f"{what} cycle {t}: source valid={o.valid} word={src} readys={rk} (consumer ready={r}) is "
                            f"not explained by any selected input; inputs valid={v} words={w}", signature=sig)
            if cand is None:
                new = consistent
            else:
                allowed = set()
                pv = log[t - 1]["v"]
                for s in cand:
                    if pv[s]:
                        allowed.add(s)
                        if not v[s]:
                            # s's burst ended (its last word was taken in t-1): an eager arbiter may already have
                            # moved on to the best input that was waiting, LUNA's takes one bubble cycle
                            others = [i for i, x in enumerate(pv) if x and i != s]
                            allowed |= {others[0]} if others else set(range(n))
                    elif any(pv):
                        allowed.add(next(i for i, x in enumerate(pv) if x))
                    else:
                        allowed |= set(range(n))
                new = consistent & allowed
                if not new:
                    held = [s for s in cand if pv[s] and v[s]]
                    sig = "switched-while-valid-held" if held else "wrong-input-selected"
                    if held and kind in MULTILANE and all(pv[s] != 15 for s in held):
                        sig = "switched-while-partial-valid-mask-held"
                    return fail(f"{what} cycle {t}: selection {sorted(consistent)} not reachable from {sorted(cand)} "
                                f"(previous cycle valids {pv}): " +
                                ("the selected input still held valid" if held else
                                 "the lowest-index waiting input must be selected"), signature=sig)
            cand = new
            # ---- end to end + burst interleaving
            acc = [k for k in range(n) if v[k] and rk[k]]
            delivered = bool(o.valid and r)
            if len(acc) != int(delivered) or (acc and w[acc[0]] != src):
                return fail(f"{what} cycle {t}: accepted from inputs {acc} but delivered={delivered} word={src}",
                            signature="accepted-not-delivered")
            for k in range(n):
                if lg["burst"][k] != cur_burst[k]:
                    cur_burst[k] = lg["burst"][k]
                    accepted_in_burst[k] = 0
                    stalled_burst[k] = False
            if acc:
                j = acc[0]
                for k in range(n):
                    if k != j and v[k] and accepted_in_burst[k] > 0:
                        return fail(f"{what} cycle {t}: word from input {j} delivered in the middle of input {k}'s "
                                    f"burst ({accepted_in_burst[k]} words in, valid still held)",
                                    signature="burst-interleaved")
                accepted_in_burst[j] += 1
            # ---- classification
            if sum(1 for x in v if x) >= 2:
                labels.add("contention")
            for k in range(n):
                if v[k] and accepted_in_burst[k] > 0 and not r and k in cand:
                    stalled_burst[k] = True
                if v[k] and accepted_in_burst[k] > 0 and any(v[j] for j in range(k)):
                    labels.add("higher-priority-waits-for-burst")
                    if stalled_burst[k]:
                        nt = True
            if not any(v) and r:
                labels.add("ready-while-idle")
        labels.add(what)
        return Result(ok=True, nontrivial=nt, labels=tuple(sorted(labels)))


class MultiLaneArbiterSub(ArbiterSub):
    name = "arbiter-multilane-valid"
    budget = {"quick": 3000, "thorough": 40000}
    cfg_ids = [9, 10]
    rule = ("StreamArbiter(stream_type=SuperSpeedStreamInterface) with 2..3 sinks: the same generator and oracle, but every "
            "word carries a non-zero 4-lane valid mask (mostly 0b1111, partial masks as on the final word of a USB3 "
            "payload); an input is 'offering data' while its mask is non-zero and the forwarded mask must be the "
            "selected input's; kept separate because no in-repo arbiter carries multi-lane valid; non-trivial as for "
            "the arbiter sub")


SUBS = [ArbiterSub(), MultiLaneArbiterSub()]
