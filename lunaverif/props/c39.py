"""C39 — header transmission respects credits and retransmits unacknowledged headers."""
from hypothesis import strategies as st

from lunaverif.core import Sub, Result, fail
from lunaverif.gen import long_lists, weighted, bits
from lunaverif.ref import g4_usb3 as R
from lunaverif.bfm import g4b_hptx as B

PROPERTY = "C39"
ASSUMPTIONS = [
    "the link partner is legal except for the named mismatches (lunaverif/bfm/g4b_hptx.py): it advertises LGOOD(m) then "
    "LCRD A-D at every link entry, acknowledges intact in-sequence headers in order, returns a credit per consumed "
    "header in letter order, answers a corrupted header with one LBAD after all earlier LGOODs and ignores everything "
    "until our LRTY has gone out",
    "lrty_pending behaves as HeaderPacketReceiver's: high from the cycle after retry_required until the LRTY command "
    "has been transmitted, which the Tx arbiter allows only between two packets of the transmitter",
    "when the DUT raises recovery_required the link leaves U0 in the next cycle (enable low) and re-enters later with "
    "a fresh advertisement; headers still queued at that moment are dropped by design and not judged",
    "protocol layer: queue.valid held until ready with a stable header; DATA headers announce an empty payload "
    "(data_sink idle); header fields delayed=0, reserved=0",
    "ordering mismatch (quantifier: all LGOOD/LBAD orderings): the partner's LBAD may overtake the LGOODs it still "
    "owes for intact headers received before the corrupted one; these LGOODs carry the correct numbers, come in "
    "order after the LBAD and before the partner acknowledges anything retransmitted; a header retired by such an "
    "LGOOD between the LBAD and the start of the retransmission may or may not be retransmitted (not judged)",
    "a header whose transmission starts up to 3 cycles after the partner's LBAD word may still be a regular "
    "(non-retransmitted) one: the LBAD is decoded one cycle after its word and a dispatch takes two more cycles",
]

LBAD_WINDOW = 3


def hdr_entry():
    trig = st.one_of(
        st.tuples(st.just("delay"), weighted([(0, 6), (1, 2), (2, 2), (4, 1), (9, 1), (25, 1)])),
        st.tuples(st.just("delay"), weighted([(0, 6), (1, 2), (2, 2), (4, 1), (9, 1), (25, 1)])),
        st.tuples(st.just("lbad"), st.integers(-3, 4)),
    )
    return st.tuples(trig, bits(32), bits(32), bits(32), st.integers(0, 3), bits(3), bits(1), bits(3)).map(
        lambda v: [v[0][0], v[0][1], v[1], v[2], v[3], v[4], v[5], v[6], v[7]])


def case_strategy():
    return st.fixed_dictionaries(dict(
        hdrs=long_lists(hdr_entry(), min_size=2, max_size=24, average=10),
        noise=st.lists(weighted([(0, 4), (1, 1)]), max_size=30),
        adv=st.lists(bits(3), min_size=1, max_size=4),
        ack_delay=st.lists(weighted([(0, 3), (1, 2), (3, 2), (7, 1), (15, 1)]), min_size=1, max_size=6),
        crd_delay=st.lists(weighted([(0, 3), (2, 2), (6, 2), (20, 1), (60, 1)]), min_size=1, max_size=6),
        cmd_gap=st.lists(st.integers(-3, 5), min_size=1, max_size=6),
        lrty_extra=st.lists(weighted([(0, 3), (1, 1), (3, 1), (8, 1), (20, 1)]), min_size=1, max_size=3),
        bring=st.lists(st.integers(0, 8), min_size=1, max_size=10),
        sready=st.one_of(st.just([1]), st.just([1]), st.lists(weighted([(1, 4), (0, 1)]), min_size=1, max_size=16),
                         st.lists(weighted([(1, 1), (0, 2)]), min_size=2, max_size=8)),
        mischief=st.lists(st.tuples(weighted([("lgood", 2), ("lcrd", 2), ("lrty", 1), ("down", 2)]),
                                    st.integers(1, 14), bits(4)).map(list), max_size=2),
        down_len=st.lists(st.integers(10, 40), min_size=1, max_size=3),
        # ordering mismatch (half of the cases; {} = the partner keeps the legal order): per corrupted header
        # lbads[i] = [kind, off, lbad_delay]: "no" = the LBAD follows the pending LGOODs; "free"/"aim" = it overtakes
        # them (they follow at their own pace / the first one's command word is aimed at <last word of the header the
        # DUT has in flight> + off); ack_delay = a slow acknowledger (several LGOODs pending when a header arrives
        # corrupted); corrupt = which headers the partner sees corrupted (replaces `noise`)
        overtake=st.one_of(st.just({}), st.fixed_dictionaries(dict(
            lbads=st.lists(st.one_of(
                st.just(["no", 0, 0]),
                st.tuples(st.just("free"), st.just(0), st.integers(0, 12)).map(list),
                st.tuples(st.just("aim"), st.integers(-3, 3), weighted([(0, 3), (1, 2), (2, 2), (4, 1), (6, 2), (8, 2),
                                                                        (12, 1)])).map(list),
                st.tuples(st.just("aim"), st.integers(-3, 3), weighted([(0, 3), (1, 2), (2, 2), (4, 1), (6, 2), (8, 2),
                                                                        (12, 1)])).map(list)), min_size=1, max_size=3),
            ack_delay=st.lists(weighted([(0, 1), (5, 1), (8, 2), (12, 2), (18, 2), (25, 1)]), min_size=1, max_size=4),
            corrupt=st.lists(weighted([(0, 2), (1, 1)]), min_size=2, max_size=14)))),
    ))


def want_fields(h):
    q = B.queue_fields(h)
    return dict(dw0=q["q0"], dw1=q["q1"], dw2=q["q2"], hub_depth=q["qhub"], deferred=q["qdf"], reserved=0)


def fmt(r):
    return (f"seq {r['seq']} DL={r['dl']} dw0={r['dw0']:#x} (cycles {r['start']}..{r['end']})")


def judge_epoch(drv, trace, log, ei, final):
    ep = drv.epochs[ei]
    n = len(trace)
    u0, u1 = ep["u0"], ep["u1"] if ep["u1"] is not None else n
    m = ep["adv"]
    A = [(t, qi) for t, qi in drv.accepts if u0 <= t < u1]
    W = [r for r in drv.rx_log if u0 <= r["start"] < u1]
    cmds = [c for c in drv.sent_cmds if c["epoch"] == ei]
    adv = [c["t"] for c in cmds if c["tag"] == "adv"]
    credits = [c["t"] for c in cmds if c["tag"] in ("credit", "adv-credit")]
    acks = [c for c in cmds if c["tag"] == "ack"]
    lbads = [c["t"] for c in cmds if c["cmd"] == R.LBAD]
    tagp = f"link entry {ei} (cycles {u0}..{u1}, advertised {m})"
    # ---- credits / bring-up, judged where a new header is taken from the protocol layer (it leaves only later)
    for i, (t, qi) in enumerate(A):
        if not adv or adv[0] >= t:
            return fail(f"{tagp}: header {i} accepted from the queue in cycle {t} before the partner's sequence number "
                        f"advertisement", signature="header-accepted-before-advertisement")
        have = sum(1 for c in credits if c < t)
        if have < i + 1:
            return fail(f"{tagp}: header {i} accepted from the queue in cycle {t} when the partner had advertised only "
                        f"{have} credits (LCRD words at {credits[:have + 1]}) and {i} were already used",
                        signature="header-accepted-without-credit")
    # ---- presentation time of every transmitted header (first cycle its HPSTART was driven)
    for r in W:
        p = r["start"]
        while p > 0 and trace[p - 1].valid and (trace[p - 1].data, trace[p - 1].ctrl) == R.HPSTART \
                and not log[p - 1]["sready"]:
            p -= 1
        r["pres"] = p
    # ---- go-back-N walk over the wire
    want = [dict(want_fields(drv.hdrs[qi]), seq=(m + 1 + i) & 7) for i, (t, qi) in enumerate(A)]

    def matches(r, i):
        return i < len(want) and A[i][0] < r["pres"] and all(r[k] == v for k, v in want[i].items())

    p = hi = dl_limit = 0
    li = 0
    applied = 0

    def b_of(c):
        return sum(1 for a in acks if a["t"] < c)

    def due(r, lo, s):
        """Index of r among the headers that may be due: the oldest one not retired when the walk (re)started, or --
        when LGOODs arrived since (an LBAD that overtook them) -- a later one, every header skipped being retired by
        an LGOOD sent before r was presented.  (A header retired meanwhile may still be retransmitted: not judged.)"""
        for j in range(lo, max(lo, b_of(s)) + 1):
            if matches(r, j):
                return j
        return None

    for r in W:
        s = r["pres"]
        while li < len(lbads) and lbads[li] + LBAD_WINDOW < s:
            dl_limit = max(dl_limit, hi)
            p = b_of(lbads[li])
            li += 1
            applied += 1
        idx = due(r, p, s)
        if idx is None and li < len(lbads) and lbads[li] + 1 < s:
            idx = due(r, b_of(lbads[li]), s)
            if idx is not None:
                dl_limit = max(dl_limit, hi)
                li += 1
                applied += 1
        if idx is None:
            recent = [c for c in lbads if c < s]
            near = f"; last LBAD word in cycle {recent[-1]}" if recent else ""
            exp = (f"header {p}: seq {want[p]['seq']} dw0={want[p]['dw0']:#x} accepted in cycle {A[p][0]}"
                   if p < len(want) else "no header (nothing accepted is waiting)")
            same = [j for j in range(len(want)) if all(r[k] == v for k, v in want[j].items())]
            if not A and not want:
                sig = "stale-header-after-link-entry"
            elif same and same[0] < p:
                sig = ("unacknowledged-header-resent-without-delayed-flag" if recent and not r["dl"]
                       else "old-header-transmitted-again")
            elif same:
                sig = ("second-lbad-during-retry-skips-header" if len(recent) >= 2 and r["dl"]
                       else "header-skipped-or-early")
            elif any(r["seq"] == w["seq"] for w in want[:max(hi, p) + 1]) and recent:
                sig = "header-words-mixed-at-lbad"
            else:
                sig = "unexpected-header-on-wire"
            return fail(f"{tagp}: transmitted {fmt(r)} but the next header due is {exp}{near}", signature=sig)
        if idx < dl_limit and not r["dl"]:
            c_last = [c for c in lbads if c < s][-1]
            at_end = any(x["dl"] and x["end"] - 1 <= c_last + 1 <= x["end"] + 1 for x in W if x["end"] < s)
            return fail(f"{tagp}: header {idx} ({fmt(r)}) is retransmitted after the LBAD of cycle {c_last} without the "
                        f"delayed flag" + (" (that LBAD was decoded just as the previous retry pass ended)" if at_end
                                           else ""),
                        signature="lbad-at-end-of-retry-pass-resent-without-delayed-flag" if at_end
                        else "retransmission-without-delayed-flag")
        p = idx + 1
        hi = max(hi, p)
    stats = dict(sent=hi, accepted=len(A), lbads=len(lbads), retx=0, credits=len(credits))
    if final:
        while li < len(lbads):
            dl_limit = max(dl_limit, hi)
            p = b_of(lbads[li])
            li += 1
        if p < len(A):
            if p < hi:
                return fail(f"{tagp}: after the LBAD of cycle {lbads[-1]} headers {p}..{hi - 1} were unacknowledged but "
                            f"header {p} (seq {want[p]['seq']}) was not retransmitted by the end of the run (cycle {n})",
                            signature="unacknowledged-header-not-retransmitted")
            at_lbad = any(c + 1 == t for c in lbads for t, _ in A)
            return fail(f"{tagp}: header {p} (seq {want[p]['seq']}) accepted from the queue in cycle {A[p][0]}"
                        + (" (a header was accepted in the very cycle an LBAD was decoded)" if at_lbad else "") + f" was never "
                        f"transmitted although the run drained (cycle {n}, {len(credits)} credits)",
                        signature="header-accepted-at-lbad-never-transmitted" if at_lbad
                        else "accepted-header-never-transmitted")
    stats["retx"] = sum(1 for r in W if r["dl"])
    return stats


class HeaderTxSub(Sub):
    name = "hptx"
    budget = {"quick": 5000, "thorough": 80000}
    shrink_budget = 500
    rule = ("closed loop around PacketTransmitter(buffer_count=4): protocol layer offers 2..24 headers (random content, "
            "all four types; offer times random or aimed at -3..+4 cycles around the partner's next LBAD word); the "
            "partner BFM advertises LGOOD(m)+LCRD A-D, acknowledges / credits with generated delays, corrupts "
            "received headers (-> LBAD, ignore until our LRTY) incl. retransmissions; in half of the cases an LBAD may "
            "overtake the LGOODs still pending for earlier headers (slow acknowledger: several pending), which then "
            "arrive after it, free-running or the first one aimed at -3..+3 cycles around the last word of the header "
            "the DUT has in flight (retirement coinciding with the rewind); injects mismatched LGOOD/LCRD, "
            "stray LRTY or link-downs (the link leaves U0 one cycle after recovery_required and re-enters with a new "
            "advertisement); PHY ready stalls. Oracle (reference parse of the wire + go-back-N model): a header is "
            "taken from the queue only after the advertisement and with an unused credit; the wire carries the "
            "accepted headers in order, numbered consecutively from m+1, with unchanged content; after an LBAD the "
            "next header started (beyond a 3-cycle window) is the oldest unacknowledged one (or a later one if "
            "LGOODs sent meanwhile retired those skipped) and everything sent before and still unacknowledged is "
            "resent in order with DL=1 before anything new; when the run drains nothing accepted is left "
            "unsent. Non-trivial: >= 4 headers transmitted and (an LBAD with a retransmission, or the queue blocked "
            "by exhausted credits).")

    def setup(self):
        self.h = B.make_harness()

    def strategy(self):
        return case_strategy()

    def run(self, case):
        drv = B.TxPartner(case)
        max_cycles = 500 + 60 * len(case["hdrs"]) + 60 * len(case.get("noise", []))
        # The drain bound is a liveness budget of the harness: it must never undercut a slow but legal run.  A sparse
        # PHY-ready pattern stretches every word, and every corrupted (re)transmission costs one more go-back-N round
        # (LBAD, our LRTY, up to four headers again) plus the generated acknowledge / LRTY delays.
        sp = list(case.get("sready") or [1])
        slow = -(-len(sp) // sum(sp)) if 0 < sum(sp) else 1
        ov = case.get("overtake") or {}
        rounds = sum(1 for c in ov.get("corrupt", []) if c) + sum(1 for x in ov.get("lbads", []) if x and x[0] != "no")
        delays = max(list(case.get("lrty_extra", [0])) + [0]) + max(list(ov.get("ack_delay", [0])) + [0])
        max_cycles = max_cycles * slow + rounds * (30 * slow + delays)
        trace = self.h.run_driver(drv, max_cycles)
        log = drv.log[:len(trace)]
        n = len(trace)
        finished = getattr(drv, "finished", False)
        tot = dict(sent=0, accepted=0, lbads=0, retx=0)
        for ei in range(len(drv.epochs)):
            last = ei == len(drv.epochs) - 1
            res = judge_epoch(drv, trace, log, ei, final=last and finished and drv.epochs[ei]["u1"] is None)
            if isinstance(res, Result):
                ov = [c["t"] for c in drv.sent_cmds if c["epoch"] == ei and c["tag"] == "lbad-overtaking"]
                late = [(c["sub"], c["t"]) for c in drv.sent_cmds if c["epoch"] == ei and c["tag"] == "ack" and ov
                        and c["t"] > ov[0]]
                if late:
                    # root-cause class of its own: LGOODs that arrive after the LBAD that overtook them
                    res.signature = "after-late-lgood-" + (res.signature or "unclassified")
                    res.msg += (f" [ordering mismatch in this link entry: LBAD word(s) in cycle(s) {ov} overtook LGOODs "
                                f"that followed: {[f'LGOOD({n})@{t}' for n, t in late[:4]]}]")
                return res
            for k in tot:
                tot[k] += res[k]
        # headers started while the link is down are not judged; one started right at a link entry is (above)
        if not finished:
            blocked = drv.q_valid and not trace[-1].qready
            return fail(f"run did not drain within {n} cycles (offered {drv.q_i}/{len(case['hdrs'])} headers, "
                        f"packets_to_send={trace[-1].pts}, credits={trace[-1].credits}, queue blocked={bool(blocked)}, "
                        f"partner ignoring={drv.ignoring})", signature="no-progress")
        labels = set()
        starved = any(log[t]["qvalid"] and not trace[t].qready and trace[t].bringup and log[t]["enable"]
                      for t in range(n))
        if starved:
            labels.add("credits-exhausted")
        if tot["lbads"]:
            labels.add("lbad")
        if tot["lbads"] > 1:
            labels.add("repeated-lbad")
        if tot["retx"]:
            labels.add("retransmission")
        if tot["retx"] >= 3:
            labels.add("retransmission>=3")
        if len(drv.epochs) > 1:
            labels.add("re-entry")
        for c in drv.sent_cmds:
            if c["tag"] in ("bad-lgood", "bad-lcrd", "stray-lrty"):
                labels.add(c["tag"])
        for c in drv.sent_cmds:
            if c["tag"] == "lbad-overtaking":
                labels.add("lbad-overtakes-lgood")
                late = [a for a in drv.sent_cmds if a["tag"] == "ack" and a["epoch"] == c["epoch"] and a["t"] > c["t"]]
                for a in late[:1]:
                    for r in drv.rx_log:
                        if r["start"] <= c["t"] + 1 <= r["end"] and -3 <= a["t"] - r["end"] <= 3:
                            # LBAD decoded under a header in flight, first late LGOOD word around that header's last word
                            labels.add(f"late-lgood-at-inflight-end{a['t'] - r['end']:+d}")
        if any(h[0] == "lbad" for h in case["hdrs"]) and tot["lbads"]:
            labels.add("offer-aimed-at-lbad")
        labels.add(f"sent={min(tot['sent'], 12) // 4 * 4}+")
        return Result(ok=True, nontrivial=tot["sent"] >= 4 and (tot["retx"] > 0 or starved),
                      labels=tuple(sorted(labels)))


SUBS = [HeaderTxSub()]
