"""C56 — the ILA captures exactly sample_depth consecutive samples following a trigger."""
from hypothesis import strategies as st

from lunaverif.core import Sub, Result, fail
from lunaverif.gen import weighted, bits
from lunaverif.simkit import CycleHarness

PROPERTY = "C56"
ASSUMPTIONS = [
    "'as the trigger is asserted' is read in exactly two ways: sample 0 is the input value of cycle T - pretrigger or of "
    "cycle T - pretrigger + 1 (T = cycle in which the trigger strobe is sampled high); one reading must explain the "
    "whole capture, nothing else is accepted",
    "inputs before the first simulated cycle are 0 (the reset value of the pre-trigger delay registers)",
    "extra triggers are placed strictly inside the capture (cycles T+1 .. T+depth, i.e. every cycle in which sampling is high); a new capture is requested only "
    ">= 2 cycles after the previous one must have completed",
    "read-back: captured_sample_number is held for two cycles and captured_sample is taken in the second one (read "
    "latency of 0 or 1 cycle)",
    "a reader may present captured_sample_number at any time (also before or in the very cycle in which complete "
    "rises, e.g. the address left over from the previous read-out); a read counts as 'after the capture' when complete "
    "is high in both cycles of the two-cycle read",
]

DEPTHS = [1, 2, 3, 4, 5, 7, 8, 9, 16, 17, 31, 32, 33, 64, 70]
PRETRIGGER = [0, 1, 2, 3, 4]
CONFIGS = [(d, p) for d in DEPTHS for p in PRETRIGGER]
WIDTHS = (8, 1, 3)               # three captured signals, Cat() -> 12-bit samples
MASK = (1 << sum(WIDTHS)) - 1
COMPLETE_SLACK = 2


def build(depth, pre):
    from amaranth import Signal
    from luna.gateware.debug.ila import IntegratedLogicAnalyzer
    sigs = [Signal(w, name=f"probe{i}") for i, w in enumerate(WIDTHS)]
    dut = IntegratedLogicAnalyzer(signals=sigs, sample_depth=depth, samples_pretrigger=pre)
    ins = dict(trigger=dut.trigger, addr=dut.captured_sample_number, a=sigs[0], b=sigs[1], c=sigs[2])
    outs = dict(complete=dut.complete, sampling=dut.sampling, data=dut.captured_sample)
    return CycleHarness(dut, ins, outs)


class IlaSub(Sub):
    name = "ila"
    budget = {"quick": 6000, "thorough": 60000}
    rule = ("IntegratedLogicAnalyzer(sample_depth from 15 values 1..70, samples_pretrigger 0..4) capturing three probes "
            "(12 bits); per case 1..2 captures: random input waveform (new value every cycle), trigger strobe (1..3 cycles "
            "wide) at a generated cycle, extra trigger pulses inside the capture, then every sample read back in a "
            "generated order while the inputs keep changing; oracle: the read-back equals depth consecutive input values "
            "starting at T-pretrigger (+0 or +1), complete low during the capture and high afterwards until the next "
            "trigger; captured_sample_number is additionally parked on a generated index (last / first / any) from the "
            "trigger cycle or from a cycle around the end of the capture (T+depth .. T+depth+2) until the read-back, and "
            "in EVERY cycle t of the run with complete high in t-1 and t and the same sample number n in t-1 and t, "
            "captured_sample must be sample n of the reading that explains the capture (so a read issued in the first "
            "cycle of complete, or already pending when it rises, is judged too); non-trivial = a trigger inside the capture AND the candidate windows at offsets -1,0,+1,+2 are "
            "pairwise different (an off-by-one would be visible)")

    def setup(self):
        self.h = {}

    def harness(self, ci):
        if ci not in self.h:
            self.h[ci] = build(*CONFIGS[ci])
        return self.h[ci]

    def strategy(self):
        def for_cfg(ci):
            depth, pre = CONFIGS[ci]
            capture = st.fixed_dictionaries(dict(
                lead=st.integers(0, 12),                       # cycles before the trigger
                width=weighted([(1, 4), (2, 1), (3, 1)]),      # trigger strobe width
                extra=st.lists(st.one_of(st.integers(1, max(1, depth)), st.just(depth)), max_size=3),   # extra triggers at T+x (T+depth = last sampling cycle)
                order=st.sampled_from(["up", "down", "stride"]),
                seed=st.integers(0, 10 ** 6),
                # address parked during / around the end of the capture: [which index, from which cycle]
                park=st.one_of(st.none(), st.tuples(
                    weighted([("last", 3), ("first", 1), ("any", 2)]),
                    weighted([("trigger", 2), ("end-1", 1), ("end", 2), ("end+1", 1)])).map(list)),
            ))
            return st.fixed_dictionaries(dict(
                cfg=st.just(ci),
                vals=st.lists(bits(12), min_size=8, max_size=40),
                captures=st.lists(capture, min_size=1, max_size=2)))
        pool = [ci for ci, c in enumerate(CONFIGS) for _ in range(3 if c[0] <= 9 else 1)]
        return st.sampled_from(pool).flatmap(for_cfg)

    def run(self, case):
        depth, pre = CONFIGS[case["cfg"]]
        vals = case["vals"]

        def inp(t):
            if t < 0:
                return 0
            return (vals[t % len(vals)] + 0x251 * (t // len(vals))) & MASK

        script = []
        plan = []
        addr_at = []                  # captured_sample_number applied in every cycle

        def emit(trigger=0, addr=None):
            t = len(script)
            v = inp(t)
            vec = dict(trigger=trigger, a=v & 0xFF, b=(v >> 8) & 1, c=(v >> 9) & 7)
            if addr is not None:
                vec["addr"] = addr
            addr_at.append(addr if addr is not None else (addr_at[-1] if addr_at else 0))
            script.append(vec)
            return t

        for cap in case["captures"]:
            for _ in range(cap["lead"]):
                emit()
            park = cap.get("park")
            park_n = park_k = None
            if park:
                park_n = {"last": depth - 1, "first": 0}.get(park[0], (cap["seed"] // 7) % depth)
                park_k = {"trigger": 0, "end-1": depth, "end": depth + 1, "end+1": depth + 2}[park[1]]
            T = emit(trigger=1, addr=park_n if park_k == 0 else None)
            extras = sorted({x for x in cap["extra"] if 1 <= x <= depth})
            trig_cycles = set(range(1, cap["width"])) & set(range(1, depth)) | set(extras)
            # capture + completion slack
            for k in range(1, depth + 1 + COMPLETE_SLACK + 1):
                emit(trigger=int(k in trig_cycles), addr=park_n if k == park_k else None)
            done_by = len(script) - 1
            if cap["order"] == "up":
                order = list(range(depth))
            elif cap["order"] == "down":
                order = list(range(depth - 1, -1, -1))
            else:
                stride = 1 + cap["seed"] % max(1, depth - 1)
                order = sorted(range(depth), key=lambda n: ((n * (2 * stride + 1) + cap["seed"]) % depth, n))
            reads = []
            for n in order:
                emit(addr=n)
                reads.append((n, emit(addr=n)))
            plan.append(dict(T=T, in_capture=sorted(trig_cycles), done_by=done_by, reads=reads,
                             park=None if not park else (park_n, T + park_k)))
        emit()
        trace = self.harness(case["cfg"]).run_script(script)
        addr_at += [addr_at[-1]] * (len(trace) - len(addr_at))

        labels = {f"pre={pre}", "depth=1" if depth == 1 else ("depth<=9" if depth <= 9 else "depth>9")}
        nontrivial = False
        cfg = f"depth={depth} pretrigger={pre}"
        prev_end = 0
        for ci, p in enumerate(plan):
            T = p["T"]
            # complete: low from the cycle after the trigger to the end of the capture window
            for t in range(T + 1, T + depth):
                if trace[t].complete:
                    return fail(f"{cfg}: capture {ci} triggered in cycle {T}: complete high in cycle {t}, before "
                                f"{depth} samples can have been stored", signature="complete-early")
            if ci == 0:
                for t in range(0, T + 1):
                    if trace[t].complete:
                        return fail(f"{cfg}: complete high in cycle {t} before any trigger", signature="complete-early")
            end = plan[ci + 1]["T"] - 1 if ci + 1 < len(plan) else len(trace) - 1
            for t in range(p["done_by"], end + 1):
                if not trace[t].complete:
                    return fail(f"{cfg}: capture {ci} triggered in cycle {T}: complete low in cycle {t} (all samples "
                                f"stored by cycle {T + depth + 1}; extra triggers at T+{p['in_capture']})",
                                signature="complete-missing" + ("-after-extra-trigger" if p["in_capture"] else ""))
            got = {}
            for n, t in p["reads"]:
                got[n] = trace[t].data
            got = [got[n] for n in range(depth)]
            windows = {off: [inp(T - pre + off + n) for n in range(depth)] for off in (-1, 0, 1, 2)}
            if got != windows[0] and got != windows[1]:
                # classify the failure shape
                sig = "captured-window-wrong"
                for off in (-1, 2):
                    if got == windows[off]:
                        sig = f"captured-window-offset-{off:+d}"
                if sig == "captured-window-wrong" and p["in_capture"]:
                    sig = "capture-disturbed-by-trigger"
                best = max((0, 1), key=lambda o: sum(a == b for a, b in zip(got, windows[o])))
                bad = [n for n in range(depth) if got[n] != windows[best][n]]
                return fail(f"{cfg}: capture {ci} triggered in cycle {T} (extra triggers at T+{p['in_capture']}): read-back "
                            f"matches neither inputs[T-pre ..] nor inputs[T-pre+1 ..]; closest reading (+{best}) differs at "
                            f"sample indices {bad[:8]}: got {[hex(got[n]) for n in bad[:4]]} expected "
                            f"{[hex(windows[best][n]) for n in bad[:4]]}", signature=sig)
            # every read made while complete is high -- not only the ordered read-back above -- returns the sample
            readings = [o for o in (0, 1) if got == windows[o]]
            rose = None
            for t in range(T + 2, end + 2 if ci + 1 < len(plan) else len(trace)):
                if not trace[t - 1].complete:
                    continue
                if rose is None:
                    rose = t - 1
                n = addr_at[t]
                if not trace[t].complete or addr_at[t - 1] != n:
                    continue
                if all(trace[t].data != windows[o][n] for o in readings):
                    return fail(f"{cfg}: capture {ci} triggered in cycle {T} (extra triggers at T+{p['in_capture']}): "
                                f"complete high since cycle {rose}; captured_sample_number={n} in cycles {t - 1} and {t} "
                                f"(complete high in both) but captured_sample={trace[t].data:#x} in cycle {t}, expected "
                                f"sample {n} = {' or '.join(hex(windows[o][n]) for o in readings)} (the later ordered "
                                f"read-back returned the right value)",
                                signature="readback-wrong-just-after-complete" if t - rose <= 2
                                else "readback-wrong-while-complete")
            if p.get("park"):
                labels.add("addr-parked-last" if p["park"][0] == depth - 1 else "addr-parked-other")
                if rose is not None and p["park"][1] <= rose:
                    labels.add("read-pending-when-complete-rises")
            distinct = len({tuple(w) for w in windows.values()}) == 4
            if p["in_capture"]:
                labels.add("trigger-during-capture")
            if distinct and p["in_capture"]:
                nontrivial = True
            if ci > 0:
                labels.add("second-capture")
            if T - pre < 0:
                labels.add("window-starts-before-reset")
        return Result(ok=True, nontrivial=nontrivial, labels=tuple(sorted(labels)))


SUBS = [IlaSub()]
