"""C10 — unsupported or unclaimed control requests are STALLed, never answered (full USBDevice, host BFM)."""
from hypothesis import strategies as st

from lunaverif.core import Sub, Result, fail
from lunaverif.gen import long_lists, weighted
from lunaverif.bfm import g9_usb2host as H
from lunaverif.bfm import g9_hostgen as G
from lunaverif.bfm import g9_skiprig as K
from lunaverif.ref import g9_device_model as M

PROPERTY = "C10"
ASSUMPTIONS = [
    "full-speed device on a bare UTMI bus with a standard control endpoint only (no class/vendor handler): every "
    "non-standard request is unclaimed",
    "second configuration 'skip': the same device with StandardRequestHandler(skiplist=[GET_DESCRIPTOR of type 0x22, "
    "bRequest 11]) and an application handler (written in lunaverif/bfm/g9_skiprig.py) that claims only "
    "GET_DESCRIPTOR(0x22, *): index 0 is a supported request (control class), other indexes are STALLed by that "
    "handler; skiplisted bRequest 11 is claimed by nobody and must be STALLed by the fallback",
    "requests whose bRequest names an implemented standard request are sent only in that request's valid form "
    "(direction, wLength, recipient) -- the statement is silent about malformed variants; CLEAR_FEATURE varies "
    "freely in recipient and feature selector",
    "an OUT data stage of an unsupported request may be ignored, NAKed or STALLed (anything but ACK); the STALL is "
    "required at the first data-stage IN or at the status stage; a repeated IN after the STALL may time out",
    "'no state change' is observed through later traffic: address probes, GET_CONFIGURATION, data PIDs of the bulk "
    "IN endpoints and accept/skip behaviour of the bulk OUT endpoints",
]

STD_IMPL = [0, 1, 5, 6, 8, 9]
STD_OTHER = [2, 3, 4, 7, 10, 11, 12]

bm_values = st.builds(lambda d, t, r: (d << 7) | (t << 5) | r, st.integers(0, 1),
                      weighted([(0, 5), (1, 2), (2, 2), (3, 1)]),
                      st.one_of(st.integers(0, 3), st.integers(0, 3), st.integers(0, 31)))
breq_values = st.one_of(st.sampled_from(STD_IMPL), st.sampled_from(STD_OTHER), st.sampled_from(STD_OTHER),
                        st.sampled_from([0x20, 0x21, 0x22, 0x23, 0xFF, 13, 0x30]), st.integers(0, 255))
wvalue_values = st.one_of(st.sampled_from([0, 1, 2, 0x0100, 0x0200, 0x0302, 0x0600]), st.integers(0, 0xFFFF))
windex_values = st.one_of(st.sampled_from([0, 1, 0x81, 0x02, 0x84, 0x04, 0x83, 0x0409]), st.integers(0, 0xFFFF))
wlength_values = st.sampled_from([0, 0, 0, 1, 2, 7, 8, 18, 64, 65, 100, 130, 255, 0xFFFF])


def canonical(req):
    """Requests carrying an implemented standard bRequest are put into that request's valid form."""
    bm, breq, wvalue, windex, wlength = req
    if (bm >> 5) & 3:
        return [bm, breq, wvalue, windex, wlength]
    if breq == 0:
        return [0x80 | min(bm & 0x1F, 2), breq, wvalue, windex, max(2, wlength)]
    if breq == 1:
        return [bm & 0x7F, breq, wvalue, windex & 0x8F, 0]
    if breq == 5:
        return [0x00, breq, wvalue, windex, 0]
    if breq == 9:
        return [0x00, breq, wvalue & 0xFF, windex, 0]
    if breq == 8:
        return [0x80, breq, wvalue, windex, max(1, wlength)]
    if breq == 6:
        return [0x80 | (bm & 0x1F), breq, wvalue, windex, max(1, wlength)]
    return [bm, breq, wvalue, windex, wlength]


OBSERVE = [
    [dict(k="probe", addr="dev", ack=1)],
    [dict(k="feed", ep=1, n=3, last=1), dict(k="in", ep=1, ack=1)],
    [dict(k="feed", ep=4, n=2, last=1), dict(k="in", ep=4, ack=1)],
    [dict(k="out", ep=2, n=3, flip=0)],
    [dict(k="out", ep=4, n=2, flip=0)],
    [dict(k="in", ep=3, ack=1)],
    [dict(k="ctrl", req=[0x80, 8, 0, 0, 1], cut=0, noack=0, mid=[])],
    [dict(k="probe", addr=0, ack=0)],
]


class Unsupported(Sub):
    name = "stall"
    budget = {"quick": 1000, "thorough": 30000}
    shrink_budget = 250
    rule = ("after a generated prologue (address, configuration and endpoint toggles moved off their reset values) "
            "1..4 control requests with arbitrary bmRequestType (all types/recipients/directions), bRequest 0..255, "
            "wValue, wIndex, wLength (0, short, > 64, 0xFFFF) -- incl. a CLEAR_FEATURE class over all 32 recipients and "
            "all 16-bit selectors (multiples of 4, single high bits, 0xFFFC..) -- each followed by observation traffic (address probe, "
            "bulk IN/OUT on every endpoint, GET_CONFIGURATION); oracle = independent model: an unsupported request "
            "gets STALL at its first data-stage IN or at its status stage, no data packet, no ACK of its OUT data, "
            "and no change of address/configuration/toggles (seen by the observation traffic); supported requests "
            "in valid form are the control class; non-trivial = at least one unsupported request was STALLed. Half of the "
            "cases run on a second configuration: the standard handler built with a skiplist (GET_DESCRIPTOR of type 0x22 "
            "-> served by an application handler for index 0 and STALLed by it otherwise; bRequest 11 -> claimed by "
            "nobody, STALLed by the fallback), 1..5 requests in which skiplisted requests (complete, abandoned, lost "
            "ACK) precede and follow the arbitrary ones, same oracle")

    def setup(self):
        self.rigs = {"full": H.rig("full"), "skip": K.rig()}
        self.rig = self.rigs["full"]

    def strategy(self):
        def anything():
            return st.tuples(bm_values, breq_values, wvalue_values, windex_values, wlength_values).map(list)
        # CLEAR_FEATURE: the only supported form is recipient ENDPOINT (2) with selector ENDPOINT_HALT (0); every other
        # (recipient, wValue) pair must STALL. Recipient is a 5-bit field and wValue a 16-bit one: draw both over
        # their whole range, with the values that alias the supported pair in their low bits (recipient 2+8k, wValue a
        # multiple of 4 / with only high bits set) and the defined selectors 0..2 well represented.
        cf_recipient = st.one_of(st.sampled_from([0, 1, 2, 2, 2, 3]), st.integers(0, 31),
                                 st.sampled_from([2, 6, 10, 18, 26, 4, 31]))
        cf_selector = st.one_of(st.sampled_from([0, 1, 1, 2]), st.sampled_from([0, 3, 4, 8, 0x0100, 0x8000, 0xFFFC, 0xFFFF]),
                                st.integers(0, 0xFFFF), st.integers(0, 0x3FFF).map(lambda x: 4 * x),
                                st.integers(0, 15).map(lambda k: 1 << k))
        clear_feature = st.tuples(cf_recipient, st.just(1), cf_selector,
                                  st.one_of(st.sampled_from([0, 0x81, 0x02, 0x84, 0x04, 0x83]), windex_values),
                                  st.just(0)).map(list)
        # an implemented request *code* under a class/vendor/reserved type must not reach the standard handler
        typed_impl = st.tuples(st.builds(lambda d, t, r: (d << 7) | (t << 5) | r, st.integers(0, 1), st.integers(1, 3),
                                         st.integers(0, 2)), st.sampled_from(STD_IMPL), wvalue_values,
                               windex_values, st.sampled_from([0, 0, 1, 2, 18])).map(list)
        req = st.fixed_dictionaries(dict(
            raw=st.one_of(anything(), anything(), anything(), anything(), typed_impl, clear_feature, clear_feature,
                          G.standard_requests()),
            early=weighted([(None, 6), (0, 1), (1, 1)]),
            again=weighted([(0, 6), (1, 1)]),
            # the host may abandon a transfer after its first `cut` transactions (0 = runs to completion) or lose the
            # ACK of one of its IN packets: the NEXT request must still be judged on its own merits
            cut=weighted([(0, 7), (1, 2), (2, 1), (3, 1)]),
            noack=weighted([(0, 7), (1, 1), (2, 1)]),
            obs=st.lists(st.integers(0, len(OBSERVE) - 1), min_size=0, max_size=3),
        ))
        full = st.fixed_dictionaries(dict(
            pre=st.integers(0, 127), addr=st.integers(1, 127), cfg=st.integers(1, 255),
            reqs=long_lists(req, min_size=1, max_size=4, average=2.2), **G.env_fields()))
        # configuration "skip": requests the standard handler is told to skip (served by the application handler:
        # GET_DESCRIPTOR(0x22, index) with any recipient / length; claimed by nobody: bRequest 11 in any shape) mixed
        # with everything above, so that every kind of request follows / precedes a skipped one
        report = st.tuples(st.sampled_from([0x80, 0x80, 0x81, 0x82]), st.just(6),
                           weighted([(0, 4), (1, 1), (0xFF, 1)]).map(lambda i: (K.REPORT_TYPE << 8) | i),
                           st.sampled_from([0, 0, 1, 0x0409]),
                           st.sampled_from([1, 2, len(K.REPORT) - 1, len(K.REPORT), len(K.REPORT) + 1, 64, 255, 0xFFFF])).map(list)
        set_interface = st.tuples(bm_values.map(lambda b: b & 0x9F), st.just(K.SKIPPED_UNCLAIMED_REQUEST), wvalue_values,
                                  windex_values, wlength_values).map(list)
        # standard-type requests the device does not implement and the skiplist does not name (any direction,
        # recipient, length), and unsupported CLEAR_FEATUREs: the class the property is about, drawn directly so
        # that it is well represented right after a skipped request
        unimplemented = st.tuples(bm_values.map(lambda b: b & 0x9F),
                                  st.one_of(st.sampled_from([c for c in STD_OTHER if c != K.SKIPPED_UNCLAIMED_REQUEST]),
                                            st.integers(13, 255)),
                                  wvalue_values, windex_values, wlength_values).map(list)
        std_req = st.fixed_dictionaries(dict(
            raw=st.one_of(unimplemented, unimplemented, clear_feature), early=weighted([(None, 6), (0, 1), (1, 1)]),
            again=weighted([(0, 6), (1, 1)]), cut=st.just(0), noack=st.just(0),
            obs=st.lists(st.integers(0, len(OBSERVE) - 1), min_size=0, max_size=2)))
        # a skipped request (complete, abandoned, lost ACK), optionally with the request that directly follows it
        skip_req = st.fixed_dictionaries(dict(
            raw=st.one_of(report, report, set_interface), early=weighted([(None, 6), (0, 1), (1, 1)]),
            again=weighted([(0, 6), (1, 1)]), cut=weighted([(0, 8), (1, 1), (2, 1)]),
            noack=weighted([(0, 7), (1, 1), (2, 1)]),
            obs=st.lists(st.integers(0, len(OBSERVE) - 1), min_size=0, max_size=1),
            then=st.one_of(st.none(), std_req, std_req, req)))
        skip = st.fixed_dictionaries(dict(
            dev=st.just("skip"), pre=st.integers(0, 127), addr=st.integers(1, 127), cfg=st.integers(1, 255),
            reqs=long_lists(st.one_of(req, skip_req, std_req), min_size=1, max_size=4, average=2.5), **G.env_fields()))
        return st.one_of(full, skip)

    def build(self, case):
        b = G.Builder(self.rigs[case.get("dev", "full")].descriptors)
        pre = case["pre"]
        if pre & 1:
            b.item(dict(k="ctrl", req=[0, 5, case["addr"], 0, 0]))
        if pre & 2:
            b.item(dict(k="ctrl", req=[0, 9, case["cfg"], 0, 0]))
        for bit, items in ((4, OBSERVE[1]), (8, OBSERVE[3]), (16, OBSERVE[2]), (32, OBSERVE[4]), (64, OBSERVE[5])):
            if pre & bit:
                for it in items:
                    b.item(it)
        self.n_pre = len(b.transfers)
        for r in [x for r in case["reqs"] for x in (r, r.get("then")) if x]:
            b.item(dict(k="ctrl", req=canonical(r["raw"]), early=r["early"], again=r["again"],
                        cut=r.get("cut", 0), noack=r.get("noack", 0)))
            for o in r["obs"]:
                for it in OBSERVE[o]:
                    b.item(it)
        # closing observation
        for o in (0, 1, 3, 6):
            for it in OBSERVE[o]:
                b.item(it)
        return b

    def run(self, case):
        b = self.build(case)
        dev = case.get("dev", "full")
        run = H.execute(dev, b.prog, **G.env_of(case))
        body = [tr for tr in b.transfers[self.n_pre:] if tr["first"] <= (run.txns[-1]["i"] if run.txns else 0)]
        if run.violation is not None:
            v = run.violation
            sig = G.response_signature(v)
            t = v.get("txn")
            if v["cls"] == "response" and t is not None:
                stalled_cf = [tr for tr in b.transfers if tr["name"] == "clear_feature_other" and tr["last"] < t["i"]]
                cur = [tr for tr in b.transfers if tr["first"] <= t["i"] <= tr["last"]]
                if stalled_cf and not (cur and cur[0]["name"] == "clear_feature_other"):
                    sig = "stalled-clear-feature-stays-armed"
                elif dev == "skip" and cur and t["ep"] == 0 and t["kind"] != "setup":
                    # the verdict of the standard handler's skiplist for the previous standard-type request differs
                    # from the one for the judged request
                    before = [K.skipped(tr["req"]) for tr in b.transfers[:cur[0]["index"]] if not (tr["req"][0] >> 5) & 3]
                    if before and bool(before[-1]) != bool(K.skipped(cur[0]["req"])):
                        sig = "skiplist-verdict-of-previous-request:" + sig
            return fail(v["msg"], signature=sig)
        err = H.stream_check(run)
        if err:
            armed = any(tr["name"] == "clear_feature_other" for tr in b.transfers)
            return fail(err, signature="stalled-clear-feature-stays-armed" if armed else "out-stream-mismatch")
        labels = set()
        stalled = 0
        for prev, tr in zip(body, body[1:]):
            if prev["abandoned"] and tr["info"]["kind"] == "unsupported":
                labels.add("unsupported-after-abandoned-transfer")
        if dev == "skip":
            labels.add("skiplist-configuration")
            std = [tr for tr in b.transfers if not (tr["req"][0] >> 5) & 3]
            for prev, tr in zip(std, std[1:]):
                if tr["index"] >= self.n_pre and tr["done"] > 1:
                    a, c = K.skipped(prev["req"]), K.skipped(tr["req"])
                    if a and not c:
                        labels.add(("unsupported" if tr["info"]["kind"] == "unsupported" else "supported")
                                   + "-standard-request-after-skiplisted-" + a)
                    elif c and not a:
                        labels.add("skiplisted-" + c + "-after-handled-standard-request")
        for tr in body:
            bm, breq, wvalue, windex, wlength = tr["req"]
            if dev == "skip" and K.skipped(tr["req"]):
                labels.add("skiplisted-" + K.skipped(tr["req"]) + "-" + tr["info"]["kind"])
            if tr["info"]["kind"] == "unsupported":
                stalled += 1
                cls = tr["name"]
                if (bm >> 5) & 3 and breq in STD_IMPL:
                    labels.add("implemented-code-with-non-standard-type")
                labels.add("unsupported-" + cls)
                if cls == "clear_feature_other":
                    labels.add("clear-feature-" + ("endpoint" if bm & 0x1F == 2 else "recipient>3" if bm & 0x1F > 3 else
                                                   "recipient<=3") + ("-selector>2" if wvalue > 2 else ""))
                labels.add("unsupported-" + ("in" if bm >> 7 else "out") + ("-data" if wlength else "-nodata"))
                if wlength > 64 and not bm >> 7:
                    labels.add("two-out-data-packets")
            else:
                labels.add("control-class-" + tr["name"])
        return Result(ok=True, nontrivial=stalled > 0, labels=tuple(sorted(labels)))


SUBS = [Unsupported()]
