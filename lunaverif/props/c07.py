"""C07 — control transfers follow the setup/data/status stage protocol (full USBDevice over UTMI, host BFM)."""
from hypothesis import strategies as st

from lunaverif.core import Sub, Result, fail
from lunaverif.gen import long_lists, weighted
from lunaverif.bfm import g9_usb2host as H
from lunaverif.bfm import g9_hostgen as G

PROPERTY = "C07"
ASSUMPTIONS = [
    "full-speed device on a bare UTMI bus (12 MHz timer table); one device on the bus",
    "host packets are well formed with good CRCs (corrupted SETUP data is C06's subject); SETUP only to endpoint 0 "
    "with DATA0 and 8 bytes; no PING to endpoint 0 (full speed)",
    "only the valid forms of the implemented standard requests, absent descriptors, and must-STALL requests are "
    "sent; descriptor lengths are not multiples of 64 (the ZLP corner is C09's subject); the must-STALL class includes "
    "host-to-device requests with a 1..130-byte data stage (SET_DESCRIPTOR, unclaimed class/vendor writes): their OUT "
    "data may be ignored/NAKed/STALLed (never ACKed) and the status IN must STALL",
    "the host starts every transaction only after the previous one has finished or timed out (18 bit times)",
    "illegal-but-named host behaviour generated: transfers abandoned after any stage, repeated SETUPs, lost "
    "host ACKs followed by a retry, data stages ended early by the status stage",
]

ADDRESSES = st.sampled_from([0, 1, 0x15, 0x2A, 0x7F])
CONFIGS = st.sampled_from([0, 1, 2, 0x80, 0xFF])


def ctrl_items(cut_weights=((0, 6), (1, 2), (2, 3), (3, 1), (4, 1)), foreign=None, max_mid=3):
    foreign = foreign if foreign is not None else G.foreign_items()
    return st.fixed_dictionaries(dict(
        k=st.just("ctrl"),
        req=st.one_of(G.standard_requests(ADDRESSES, CONFIGS), G.standard_requests(ADDRESSES, CONFIGS),
                      G.standard_requests(ADDRESSES, CONFIGS), G.unsupported_requests()),
        cut=weighted(list(cut_weights)),
        noack=weighted([(0, 6), (1, 1), (2, 1)]),
        early=weighted([(None, 8), (0, 1), (1, 1)]),
        again=weighted([(0, 9), (1, 1)]),
        mid=long_lists(st.tuples(st.integers(0, 3), foreign).map(list), max_size=5, average=1.8),
    ))


def write_requests():
    """Host-to-device requests WITH a data stage (wLength > 0). None is implemented by the device (SET_DESCRIPTOR is
    optional, the class/vendor ones are unclaimed), so the model only requires 'no data/ACK, STALL at the status IN';
    what matters here is that they put endpoint 0 into its OUT data stage."""
    wl = st.one_of(st.sampled_from([1, 6, 8, 18, 64, 65, 130]), st.integers(1, 130))
    return st.one_of(
        st.builds(lambda v, l: [0x00, 7, v, 0, l], st.sampled_from([0x0100, 0x0200, 0x0301]), wl),   # SET_DESCRIPTOR
        st.builds(lambda bm, r, v, l: [bm, r, v, 0, l], st.sampled_from([0x40, 0x41, 0x21, 0x22, 0x42]),
                  st.sampled_from([0x20, 9, 1, 0xFF]), st.sampled_from([0, 7, 0x1234]), wl))


def read_requests():
    gd = lambda t, i, l: [0x80, 6, (t << 8) | i, 0, l]
    return st.sampled_from([gd(1, 0, 18), gd(1, 0, 8), gd(2, 0, 9), gd(2, 0, 255), gd(3, 2, 255), gd(3, 0, 255),
                            [0x80, 8, 0, 0, 1], [0x80, 0, 0, 0, 2], [0x82, 0, 0, 0x81, 2]])


def abandoned_write_then_read(foreign=None):
    """A control write with a data stage abandoned after its SETUP / after 1..2 OUT data packets (cut 1..3 of
    setup, out[, out], status-in), with optional other-endpoint traffic inside, directly followed by a control read
    (complete, or itself abandoned late) -- 'every new SETUP starts a fresh transfer'."""
    foreign = foreign if foreign is not None else G.foreign_items()
    mid = long_lists(st.tuples(st.integers(0, 3), foreign).map(list), max_size=3, average=0.7)
    wr = st.fixed_dictionaries(dict(k=st.just("ctrl"), req=write_requests(), cut=weighted([(1, 3), (2, 3), (3, 1)]),
                                    noack=st.just(0), early=weighted([(None, 3), (1, 1)]), again=st.just(0), mid=mid))
    rd = st.fixed_dictionaries(dict(k=st.just("ctrl"), req=read_requests(), cut=weighted([(0, 5), (2, 1), (3, 1)]),
                                    noack=weighted([(0, 6), (1, 1)]), early=st.just(None), again=st.just(0), mid=mid))
    return st.tuples(wr, rd).map(list)


class ControlStages(Sub):
    name = "stages"
    budget = {"quick": 1500, "thorough": 30000}
    shrink_budget = 250
    rule = ("host programs of 1..10 control transfers (all implemented standard requests in valid form, absent "
            "descriptors, must-STALL requests; plus control writes with a 1..130-byte data stage -- SET_DESCRIPTOR, "
            "class/vendor OUT -- abandoned after SETUP or after 1..2 OUT data packets and directly followed by a control "
            "read), each complete or abandoned after any transaction, with lost host "
            "ACKs + retries, early status stages, and IN/OUT/PING/SOF traffic to endpoints 1-4 between any two "
            "stages, under generated packet timing and tx_ready patterns; every device response is compared with "
            "an independent host-visible device model (stage, direction, PID, payload); non-trivial = a "
            "transfer abandoned mid-way is followed by a completed one AND another endpoint's transaction lies "
            "between two stages of some transfer")

    def setup(self):
        self.rig = H.rig("full")

    def strategy(self):
        one = lambda s: s.map(lambda x: [x])
        top = st.one_of(one(ctrl_items()), one(ctrl_items()), one(ctrl_items()), one(G.foreign_items()),
                        abandoned_write_then_read())
        flat = lambda groups: [it for g in groups for it in g]
        return st.fixed_dictionaries(dict(items=long_lists(top, min_size=1, max_size=10, average=5).map(flat),
                                          **G.env_fields()))

    def build(self, case):
        b = G.Builder(self.rig.descriptors)
        for it in case["items"]:
            b.item(it)
        return b

    def run(self, case):
        b = self.build(case)
        run = H.execute("full", b.prog, **G.env_of(case))
        return verdict(run, b)


def lost_data_ack_then_foreign_ack(run, t):
    """The failing transaction is a data-stage IN that retries a packet whose host ACK was lost, and a host ACK
    for another endpoint went by in between."""
    if t["ep"] != 0 or t["kind"] != "in" or "data stage" not in t.get("ctx", ""):
        return False
    foreign_ack = False
    for p in reversed(run.txns[:-1]):
        if p["ep"] == 0:
            return (p["kind"] == "in" and p["resp"][0] == "data" and not p["ack"] and foreign_ack)
        if p["ack"]:
            foreign_ack = True
    return False


def verdict(run, b, extra_labels=()):
    labels = set(extra_labels)
    if run.violation is not None:
        v = run.violation
        sig = G.response_signature(v)
        facts = G.pending_request_facts(run, b.prog)
        t = v.get("txn")
        if v["cls"] == "response" and t is not None and lost_data_ack_then_foreign_ack(run, t):
            sig = "foreign-ack-after-lost-data-ack-advances-descriptor"
        elif v["cls"] == "response" and facts["foreign_ack_while_pending"]:
            sig = "foreign-ack-completes-pending-request"
        elif v["cls"] == "response" and t is not None and t["ep"] == 0 and t["kind"] != "setup" and facts["abandoned_before"]:
            sig = "stale-request-state-after-abandoned-transfer"
        return fail(v["msg"] + f"  [program: {len(b.prog)} ops, failing op {t['i'] if t else '?'}]", signature=sig)
    err = H.stream_check(run)
    if err:
        return fail(err, signature="out-stream-mismatch")
    abandoned_then_completed = False
    seen_abandoned = False
    foreign_between = False
    for tr in b.transfers:
        if tr["abandoned"]:
            seen_abandoned = True
            labels.add("abandon-after-" + tr["stages"][-1])
            if tr["req"][0] >> 7 == 0 and tr["req"][4] and "status" not in tr["stages"]:
                labels.add("abandoned-write-with-data")
        else:
            if seen_abandoned:
                abandoned_then_completed = True
            labels.add("complete-" + tr["info"]["kind"])
        if tr["foreign_inside"]:
            foreign_between = True
            labels.add("foreign-between-stages")
        if tr["lost"]:
            labels.add("lost-ack-retry")
        if tr["info"]["kind"] == "get" and tr["planned"] >= 4:
            labels.add("multi-packet-data")
    for t in run.txns:
        if t["ep"] == 0 and t["resp"][0] == "hs" and t["resp"][1] == 0xE:
            labels.add("saw-STALL")
        if t["ep"] not in (0, None) and t["resp"][0] == "hs" and t["resp"][1] == 0xA:
            labels.add("foreign-NAK")
    if abandoned_then_completed:
        labels.add("abandoned-then-completed")
    return Result(ok=True, nontrivial=abandoned_then_completed and foreign_between, labels=tuple(sorted(labels)))


SUBS = [ControlStages()]
