"""C04 — USB2 handshakes are generated and detected exactly."""
from hypothesis import strategies as st

from lunaverif.core import Sub, Result, fail
from lunaverif.simkit import CycleHarness
from lunaverif.gen import long_lists, weighted
from lunaverif.bfm import utmi_rx, g1_rx as rx
from lunaverif.ref import usb2

PROPERTY = "C04"
ASSUMPTIONS = [
    "generator: at most one of issue_ack/issue_nak/issue_stall is asserted per cycle (device.py ORs the endpoints' "
    "requests, and endpoints request one handshake per transaction); tx_ready is an arbitrary 0/1 pattern that "
    "eventually accepts",
    "generator: 'idle' means tx.valid is low in the request cycle; a request in any cycle with tx.valid high (including "
    "the cycle the byte is accepted) is a request while busy and must produce nothing",
    "generator: the latency between request and packet is not asserted, only that the packet follows and precedes the "
    "next effective request",
    "detector: UTMI receive soundness (DESIGN.md §3); a strobe is attributed to the packet that ended most recently",
]

GEN_BYTES = {1: usb2.pid_byte(usb2.PID_ACK), 2: usb2.pid_byte(usb2.PID_NAK), 3: usb2.pid_byte(usb2.PID_STALL)}
GEN_NAMES = {1: "ack", 2: "nak", 3: "stall"}


class Generator(Sub):
    name = "generator"
    budget = {"quick": 10000, "thorough": 100000}
    rule = ("per-cycle vectors (request in {none,ack,nak,stall}, tx_ready) of 4..160 cycles into USBHandshakeGenerator, then a "
            "drain with tx_ready high; oracle over the recorded trace: every request made in a cycle with tx.valid low "
            "(and no earlier request still waiting) yields exactly one run of tx.valid with constant data == PID|~PID<<4 "
            "of the requested kind that lasts exactly until the first tx_ready cycle; requests while tx.valid is high "
            "yield nothing; no other transmission. non-trivial = >=1 request ignored while busy AND >=1 packet stalled "
            ">=1 cycle AND >=2 distinct handshake kinds sent")

    def setup(self):
        from luna.gateware.usb.usb2.packet import USBHandshakeGenerator
        dut = USBHandshakeGenerator()
        self.h = CycleHarness(dut, dict(ack=dut.issue_ack, nak=dut.issue_nak, stall=dut.issue_stall, ready=dut.tx.ready),
                              dict(tv=dut.tx.valid, td=dut.tx.data), domain="usb")

    def strategy(self):
        vec = st.tuples(weighted([(0, 6), (1, 2), (2, 1), (3, 1)]), weighted([(1, 2), (0, 1)]))
        burst = st.tuples(weighted([(1, 1), (2, 1), (3, 1)]), weighted([(0, 2), (1, 1)]))      # dense requests, slow PHY
        return st.fixed_dictionaries(dict(
            ops=long_lists(st.one_of(vec, vec, vec, burst), min_size=4, max_size=160, average=50)))

    def run(self, case):
        ops = case["ops"]
        script = [dict(ack=int(k == 1), nak=int(k == 2), stall=int(k == 3), ready=r) for k, r in ops]
        script += [dict(ack=0, nak=0, stall=0, ready=1)] * 4
        trace = self.h.run_script(script)
        kinds = [k for k, _ in ops] + [0] * 4
        pending = None          # (cycle, kind) of an effective request whose packet has not started
        run = None              # (start, byte, request) of the packet being transmitted
        sent, ignored, stalled = [], 0, 0
        for t, o in enumerate(trace):
            rdy = script[t]["ready"]
            if run is not None and run[0] == "closed":
                if o.tv:
                    return fail(f"cycle {t}: tx.valid still high after the byte was accepted at cycle {run[1]} "
                                f"(packet longer than one byte)", signature="packet-too-long")
                run = None
            if o.tv:
                if run is None:
                    if pending is None:
                        return fail(f"cycle {t}: tx.valid rose without an effective request (data {o.td:#04x})",
                                    signature="unrequested-packet")
                    want = GEN_BYTES[pending[1]]
                    if o.td != want:
                        return fail(f"cycle {t}: packet for {GEN_NAMES[pending[1]]} requested at cycle {pending[0]} carries "
                                    f"{o.td:#04x}, expected {want:#04x}", signature="wrong-handshake-byte")
                    run = (t, o.td, pending)
                    pending = None
                elif o.td != run[1]:
                    return fail(f"cycle {t}: tx.data changed to {o.td:#04x} while the PHY had not accepted {run[1]:#04x} "
                                f"(packet started cycle {run[0]})", signature="data-not-held")
                if kinds[t]:
                    ignored += 1
                if rdy:
                    sent.append(run[2][1])
                    if t > run[0]:
                        stalled += 1
                    run = ("closed", t)
            else:
                if run is not None:
                    return fail(f"cycle {t}: tx.valid dropped before the PHY accepted the byte (packet started cycle {run[0]})",
                                signature="valid-not-held")
                if kinds[t] and pending is None:
                    pending = (t, kinds[t])
        if pending is not None or (run is not None and run[0] != "closed"):
            return fail(f"request {pending or run} never completed although tx_ready was high at the end",
                        signature="request-lost")
        labels = {f"sent-{GEN_NAMES[k]}" for k in set(sent)}
        if ignored:
            labels.add("request-while-busy")
        if stalled:
            labels.add("stalled")
        return Result(ok=True, nontrivial=bool(ignored and stalled and len(set(sent)) >= 2), labels=tuple(sorted(labels)))


HS_LINES = {usb2.PID_ACK: "ack", usb2.PID_NAK: "nak", usb2.PID_STALL: "stall", usb2.PID_NYET: "nyet"}


class Detector(Sub):
    name = "detector"
    budget = {"quick": 10000, "thorough": 100000}
    rule = ("histories of 1..30 UTMI packets into USBHandshakeDetector: the four one-byte handshakes, handshake PID with a "
            "wrong check nibble, handshake PID followed by 1..4 more bytes, one-byte packets with token/data/special "
            "PIDs, tokens, data packets, garbage, aborted activations; byte gaps, lead/trail/idle timing. Oracle re-parses "
            "the literal bytes: exactly one strobe cycle, on the matching line only, after each well-formed one-byte "
            "handshake and none after anything else. non-trivial = >=1 detected handshake AND >=1 rejected near-miss "
            "(over-long or bad-nibble handshake PID)")

    def setup(self):
        from luna.gateware.interface.utmi import UTMIInterface
        from luna.gateware.usb.usb2.packet import USBHandshakeDetector
        utmi = UTMIInterface()
        dut = USBHandshakeDetector(utmi=utmi)
        d = dut.detected
        self.h = CycleHarness(dut, dict(rx_active=utmi.rx_active, rx_valid=utmi.rx_valid, rx_data=utmi.rx_data),
                              dict(ack=d.ack, nak=d.nak, stall=d.stall, nyet=d.nyet), domain="usb")

    def strategy(self):
        hs_long = st.builds(lambda p, xs: [usb2.pid_byte(p)] + xs, rx.HS_PID, st.lists(rx.BYTE, min_size=1, max_size=4))
        hs_nib = st.builds(lambda p, m: [usb2.pid_byte(p) ^ (m << 4)], rx.HS_PID, st.integers(1, 15))
        hs_lownib = st.builds(lambda p, m: [usb2.pid_byte(p) ^ m], rx.HS_PID, st.integers(1, 15))
        one_other = st.builds(lambda p: [usb2.pid_byte(p)], st.sampled_from([0x1, 0x9, 0x5, 0xD, 0x3, 0xB, 0x7, 0xF, 0x4, 0xC, 0x8, 0x0]))
        classes = st.one_of(
            rx.handshake_good(), rx.handshake_good(), rx.handshake_good(), rx.handshake_good(),
            hs_long, hs_long, hs_nib, hs_lownib, one_other,
            st.builds(rx.token_bytes, rx.TOKEN_PID, rx.ADDR, rx.ENDP),
            rx.data_good(payload=rx.payloads(max_len=10, average=3)),
            rx.garbage(5), st.lists(rx.BYTE, min_size=1, max_size=1), st.just([]))
        return st.fixed_dictionaries(dict(
            evs=long_lists(rx.with_timing(classes), min_size=1, max_size=30, average=12),
            noise=st.sampled_from([0, 0xFF, 0xD2, 0x5A])))

    def run(self, case):
        evs = case["evs"]
        script, spans = utmi_rx.render(evs, noise=case["noise"])
        trace = self.h.run_script(script, tail=4)
        e = rx.ends(spans)
        labels = set()
        n_ok = n_near = 0
        for t in range(0, e[0]):
            if any(trace[t]):
                return fail(f"strobe before any packet ended (cycle {t}: {trace[t]})", signature="spurious-strobe")
        for i, ev in enumerate(evs):
            lo, hi = e[i], (e[i + 1] if i + 1 < len(e) else len(trace))
            p = usb2.parse(ev["bytes"])
            kind = p["kind"]
            strobes = [(t, [n for n in ("ack", "nak", "stall", "nyet") if getattr(trace[t], n)]) for t in range(lo, hi)]
            strobes = [(t, ns) for t, ns in strobes if ns]

            def what():
                return f"packet {i} [{rx.hexs(ev['bytes'])}] ({kind}), window cycles {lo}..{hi - 1}"

            if kind == "handshake":
                n_ok += 1
                line = HS_LINES[p["pid"]]
                labels.add("hs-" + line)
                if len(strobes) != 1 or strobes[0][1] != [line]:
                    sig = "handshake-missed" if not strobes else "handshake-wrong-or-duplicated"
                    return fail(f"{what()}: expected exactly one '{line}' strobe, got {strobes}", signature=sig)
            else:
                labels.add(kind)
                is_hs_pid = bool(ev["bytes"]) and (ev["bytes"][0] & 0xF) in usb2.HANDSHAKE_PIDS
                if kind == "handshake-long" or (kind == "badpid" and is_hs_pid and len(ev["bytes"]) == 1):
                    n_near += 1
                if strobes:
                    return fail(f"{what()}: unexpected strobe(s) {strobes}", signature=f"spurious-strobe-{kind}")
        return Result(ok=True, nontrivial=n_ok >= 1 and n_near >= 1, labels=tuple(sorted(labels)))


SUBS = [Generator(), Detector()]
