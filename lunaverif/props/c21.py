"""C21 — Frame and microframe numbers track received SOFs."""
from hypothesis import strategies as st

from lunaverif.core import Sub, Result, fail
from lunaverif.simkit import CycleHarness
from lunaverif.gen import long_lists, weighted
from lunaverif.bfm import utmi_rx, g1_rx as rx
from lunaverif.ref import usb2
from lunaverif.ref.crc import usb2_crc5, usb2_crc16

PROPERTY = "C21"
ASSUMPTIONS = [
    "DUT is USBDevice(bus=UTMIInterface()) without endpoints (bare UTMI: FS-only wiring, device address 0, never transmits); "
    "bus idle state J on line_state, connect high",
    "UTMI receive soundness (DESIGN.md §3), >= 2 idle cycles between packets",
    "after reset the current frame number is 0 and the microframe number 0 (reset values of the outputs); a first SOF "
    "numbered 0 therefore counts as a repeat",
    "a host never sends more than 8 SOFs with the same frame number, so runs of identical numbers are capped at 8 by "
    "construction (microframe 7 is the maximum reached; 3-bit wrap-around is not exercised)",
    "frame_number / microframe_number are compared at the end of the idle time that follows each packet, and must not "
    "take any third value in between; new_frame strobes are counted per packet",
    "bus reset = SE0 on line_state with rx_active low for >= 305 cycles (this FS-only device's reset sequencer fires "
    "after 300 cycles = 5 us; a real host holds it for >= 10 ms, the device's frame logic sees nothing more of it after "
    "the sequencer fired); SE0 of <= 40 cycles is not a reset; lengths in between are not generated. The host keeps "
    "counting frames across a reset. The statement does not say what a reset does to the reported numbers: frame and "
    "microframe number may each stay or go to 0 (the observed values are then taken as current); no new_frame strobe "
    "may occur, because no SOF was received. A short SE0 must change nothing",
]

SE0, J_STATE = 0, 1
RESET_MIN, NOT_RESET_MAX = 305, 40
SE0_GUARD = 8


def _harness():
    from luna.gateware.interface.utmi import UTMIInterface
    from luna.gateware.usb.usb2.device import USBDevice
    utmi = UTMIInterface()
    dut = USBDevice(bus=utmi)
    return CycleHarness(
        dut,
        dict(rx_active=utmi.rx_active, rx_valid=utmi.rx_valid, rx_data=utmi.rx_data, line_state=utmi.line_state,
             connect=dut.connect),
        dict(fn=dut.frame_number, mf=dut.microframe_number, sof=dut.sof_detected, nf=dut.new_frame, txv=utmi.tx_valid),
        domain="usb")


def _build(start, ops):
    """ops -> list of byte strings; SOF numbers are accumulated so that repeats/skips/wraps are relative to the
    previous *generated* SOF (corrupted SOFs carry the number they would have had)."""
    cur = None
    run = 0
    out = []
    flat = []
    for op in ops:
        if op[0] == "sofrun":                      # a run of repeats (microframes of one frame)
            flat += [("sof", 1)] + [("sof", 0)] * op[1]
        else:
            flat.append(op)
    for op in flat:
        k = op[0]
        if k == "se0":
            out.append(dict(reset=op[1], idle=op[2]))
        elif k in ("sof", "sof-bad"):
            d = op[1]
            if cur is None:
                nxt = start
            else:
                nxt = (cur + d) & 0x7FF
            if k == "sof":
                prev = cur if cur is not None else 0          # reset value of frame_number
                if nxt == prev:
                    if run >= 7:                              # cap: at most 7 repeats of one number
                        nxt = (nxt + 1) & 0x7FF
                        run = 0
                    else:
                        run += 1
                else:
                    run = 0
                cur = nxt
                out.append(rx.sof_bytes(nxt))
            else:
                b = rx.sof_bytes(nxt)
                how, arg = op[2], op[3]
                if how == 0:
                    b = [b[0]] + rx.flip_bits(b[1:], [arg % 16])              # one flipped bit in the word: CRC5 fails
                elif how == 1:
                    b = [b[0] ^ (1 << (4 + arg % 4))] + b[1:]                 # check nibble broken
                elif how == 2:
                    b = b[:1 + arg % 2]                                       # truncated
                else:
                    b = b + [arg & 0xFF]                                      # over-long
                out.append(b)
        else:
            out.append(list(op[1]))
    return out


TOKENISH_PID = weighted([(usb2.PID_SOF, 8)] + [(p, 1) for p in usb2.TOKEN_PIDS])


def _data_token_tail(dpid, pid, prefix, start):
    """A well-formed data packet whose LAST THREE bytes (final payload byte + the two CRC16 bytes) are the image of
    a well-formed SOF / token packet: payload = prefix + [f, PID byte]; the one free byte f is searched (from a
    generated starting point) until the packet's CRC16, read as a token word, carries a good CRC5 (1 in 32 values
    of f do; if none of the 256 does the packet is returned as it is -- still an ordinary good data packet)."""
    tail = usb2.pid_byte(pid)
    payload = list(prefix) + [start & 0xFF, tail]
    for k in range(256):
        cand = list(prefix) + [(start + k) & 0xFF, tail]
        c = usb2_crc16(bytes(cand))
        if usb2_crc5(c & 0x7FF) == c >> 11:
            payload = cand
            break
    return rx.data_bytes(dpid, payload)


def _data_token_inside(dpid, image, pre, post):
    """A well-formed data packet whose payload contains the image of a whole well-formed SOF / token packet."""
    return rx.data_bytes(dpid, list(pre) + list(image) + list(post))


def _tokenish_data():
    """Good data packets (any of the four data PIDs, payload <= 11 bytes) that look like a token from some byte on."""
    image = st.one_of(st.builds(rx.sof_bytes, rx.FRAME), st.builds(rx.sof_bytes, rx.FRAME),
                      st.builds(rx.token_bytes, rx.TOKEN_PID, st.sampled_from([0, 0, 5, 0x7F]), rx.ENDP))
    few = st.lists(rx.BYTE, max_size=4)
    return st.one_of(
        st.builds(_data_token_tail, rx.DATA_PID, TOKENISH_PID, few, rx.BYTE),
        st.builds(_data_token_tail, rx.DATA_PID, TOKENISH_PID, few, rx.BYTE),
        st.builds(_data_token_inside, rx.DATA_PID, image, few, few))


def _ops():
    delta = weighted([(0, 6), (1, 5), (2, 1), (3, 1), (100, 1), (2047, 1), (1024, 1)])
    other = st.one_of(
        st.builds(rx.token_bytes, rx.TOKEN_PID, st.sampled_from([0, 0, 5, 0x7F]), rx.ENDP),
        rx.data_good(payload=rx.payloads(max_len=10, average=3)), rx.handshake_good(), rx.garbage(5), st.just([]),
        _tokenish_data().map(list),         # .map: one branch of `other`, not three (one_of flattens nested one_ofs)
        st.builds(lambda w: [usb2.pid_byte(usb2.PID_SOF), w & 0xFF, w >> 8], st.integers(0, 0xFFFF)))
    return st.one_of(
        st.tuples(st.just("sof"), delta), st.tuples(st.just("sof"), delta), st.tuples(st.just("sof"), delta),
        st.tuples(st.just("sof"), st.integers(0, 2047)),
        st.tuples(st.just("sofrun"), st.integers(2, 8)),
        st.tuples(st.just("sof-bad"), delta, st.integers(0, 3), st.integers(0, 255)),
        st.tuples(st.just("other"), other),
        st.tuples(st.just("other"), other),
        st.tuples(st.just("se0"), weighted([(320, 5), (RESET_MIN, 2), (400, 1), (700, 1), (3, 1), (NOT_RESET_MAX, 1)]),
                  st.integers(2, 12)))


def _render(evs, noise):
    """utmi_rx.render for the packet events, with SE0 events {"reset": n, "idle": k} in between: n cycles of
    line_state SE0 (receiver inactive), then J and k idle cycles.  -> script, ends, first: ends[i] = first cycle of
    event i's window (first idle cycle after a packet / SE0_GUARD cycles after the first SE0 cycle of an SE0 event), first = first active cycle."""
    script, e = [], []
    first = None
    for ev in evs:
        if "reset" in ev:
            # the SOF logic reports a packet a few cycles after its end: the preceding packet's window extends
            # SE0_GUARD cycles into the SE0 (the sequencer cannot fire before cycle 300 of it)
            e.append(len(script) + SE0_GUARD)
            script.append(dict(rx_active=0, rx_valid=0, rx_data=noise, line_state=SE0))
            script += [dict() for _ in range(ev["reset"] - 1)]
            script.append(dict(line_state=J_STATE))
            script += [dict() for _ in range(max(2, ev["idle"], SE0_GUARD + 2 - ev["reset"]) - 1)]
        else:
            sc, spans = utmi_rx.render([ev], noise=noise)
            if first is None:
                first = len(script)
            e.append(len(script) + spans[0][1] + 1)
            script += sc
    return script, e, (first if first is not None else len(script))


class Frames(Sub):
    name = "frames"
    budget = {"quick": 8000, "thorough": 80000}
    rule = ("real USBDevice (no endpoints) fed 2..~40 packets (per-packet timing from a cyclic pool of 1..5 timings): SOFs whose numbers repeat / increment / skip / wrap 2047->0 / "
            "jump relative to the previous SOF, runs of 2..8 repeats (first number 0, 1, 2046, 2047 or random), SOFs corrupted (CRC5 bit flip, "
            "check nibble, truncated, over-long, random 16-bit word), own/foreign tokens, data, handshakes, garbage, empty "
            "activations, well-formed data packets that look like a token from some byte on (the last payload byte is a "
            "SOF/token PID byte and the CRC16 bytes happen to be a token word with a good CRC5 -- one payload byte is "
            "searched for that --, or the payload contains a whole SOF/token image); SE0 on line_state between packets (bus reset of 305..700 cycles, or 3/40 cycles = no reset; after a "
            "bus reset no new_frame/sof_detected until the next SOF, frame/microframe each unchanged or 0). Oracle straight from the statement on the literal bytes: after each well-formed SOF frame_number "
            "== its number, microframe_number == 0 if the number changed else previous+1, exactly one new_frame strobe iff "
            "the number changed; any other packet changes nothing and strobes nothing. non-trivial = >=1 repeat, >=1 "
            "change and >=1 corrupted SOF or other packet between two SOFs")

    def setup(self):
        self.h = _harness()

    def strategy(self):
        evs = st.builds(
            lambda start, ops, tms: [b if isinstance(b, dict) else dict(tms[i % len(tms)], bytes=b)
                                     for i, b in enumerate(_build(start, ops))],
            st.one_of(st.sampled_from([0, 1, 2046, 2047]), st.integers(0, 2047)),
            long_lists(_ops(), min_size=2, max_size=24, average=9),
            st.lists(rx.timing(min_idle=2, max_idle=8, big_gaps=False), min_size=1, max_size=5))
        return st.fixed_dictionaries(dict(evs=evs, noise=st.sampled_from([0, 0xFF, 0xA5])))

    def run(self, case):
        evs = case["evs"]
        script, e, first = _render(evs, case["noise"])
        script[0] = dict(dict(line_state=J_STATE), **script[0], connect=1)
        trace = self.h.run_script(script, tail=4)
        frame, micro = 0, 0
        labels = set()
        repeats = changes = between = 0
        seen_sof = False
        for t in range(0, e[0] if "reset" not in evs[0] else 0):
            o = trace[t]
            if o.nf or o.sof or (o.fn, o.mf) != (0, 0):
                return fail(f"cycle {t}: activity before the first packet ended: {o}", signature="spurious-before-first")
        for i, ev in enumerate(evs):
            lo, hi = e[i], (e[i + 1] if i + 1 < len(e) else len(trace))
            if "reset" in ev:
                # SE0 on the bus: a bus reset (>= 305 cycles) or a short SE0.  No SOF is received in this window.
                n = ev["reset"]
                if NOT_RESET_MAX < n < RESET_MIN:
                    raise ValueError("SE0 lengths between 41 and 304 cycles are not generated")
                is_reset = n >= RESET_MIN
                labels.add("bus-reset" if is_reset else "short-se0")
                if is_reset and seen_sof and frame != 0:
                    labels.add("bus-reset-after-nonzero-sof")
                what = f"event {i} (SE0 for {n} cycles = {'bus reset' if is_reset else 'no reset'}), window cycles {lo}..{hi - 1}, " \
                       f"(frame, microframe) before ({frame}, {micro})"
                nfs = [t for t in range(lo, hi) if trace[t].nf]
                if nfs:
                    return fail(f"{what}: new_frame high in {len(nfs)} cycles (first {nfs[0]}) although no SOF was received",
                                signature="new-frame-strobe-after-bus-reset" if is_reset else "new-frame-strobe-without-sof")
                sofs = [t for t in range(lo, hi) if trace[t].sof]
                if sofs:
                    return fail(f"{what}: sof_detected at {sofs[:4]} although no SOF was received",
                                signature="sof-detected-without-sof")
                got = (trace[hi - 1].fn, trace[hi - 1].mf)
                allowed_f = {frame, 0} if is_reset else {frame}
                allowed_m = {micro, 0} if is_reset else {micro}
                for t in range(lo, hi):
                    v = (trace[t].fn, trace[t].mf)
                    if v[0] not in allowed_f or v[1] not in allowed_m:
                        return fail(f"{what}: (frame, microframe) = {v} at cycle {t}; without a SOF each may only keep its "
                                    f"value" + (" or be cleared by the reset" if is_reset else ""),
                                    signature="frame-state-changed-without-sof")
                if got != (frame, micro):
                    labels.add("reset-cleared-frame-state")
                frame, micro = got
                continue
            p = usb2.parse(ev["bytes"])
            before = (frame, micro)
            if p["kind"] == "sof":
                n = p["frame"]
                changed = n != frame
                micro = 0 if changed else (micro + 1) % 8
                frame = n
                want_nf = int(changed)
                if changed:
                    changes += 1
                    labels.add("change")
                    if n == 0:
                        labels.add("wrap-to-0")
                else:
                    repeats += 1
                    labels.add(f"repeat-mf{micro}")
                seen_sof = True
            else:
                want_nf = 0
                labels.add("other:" + p["kind"])
                if p["kind"] == "data":
                    b = ev["bytes"]
                    if usb2.parse(b[-3:])["kind"] in ("sof", "token"):
                        labels.add("data-ending-in-" + usb2.parse(b[-3:])["kind"] + "-image")
                    elif any(usb2.parse(b[k:k + 3])["kind"] in ("sof", "token") for k in range(1, len(b) - 3)):
                        labels.add("data-containing-token-image")
                if seen_sof:
                    between += 1
            after = (frame, micro)
            nfs = [t for t in range(lo, hi) if trace[t].nf]
            sofs = [t for t in range(lo, hi) if trace[t].sof]

            def what():
                return (f"packet {i} [{rx.hexs(ev['bytes'])}] ({p['kind']}{' #%d' % p['frame'] if p['kind'] == 'sof' else ''}), "
                        f"window cycles {lo}..{hi - 1}, (frame, microframe) before {before}")

            if len(nfs) != want_nf:
                sig = ("new-frame-strobe-missing" if want_nf else
                       ("new-frame-strobe-on-repeat" if p["kind"] == "sof" else "new-frame-strobe-without-sof"))
                return fail(f"{what()}: new_frame strobes at {nfs}, expected {want_nf}", signature=sig)
            got = (trace[hi - 1].fn, trace[hi - 1].mf)
            if got != after:
                which = "frame-number" if got[0] != after[0] else "microframe-number"
                return fail(f"{what()}: (frame, microframe) = {got} at cycle {hi - 1}, expected {after}",
                            signature=f"{which}-wrong-{'after-sof' if p['kind'] == 'sof' else 'changed-without-sof'}")
            for t in range(lo, hi):
                v = (trace[t].fn, trace[t].mf)
                if v != before and v != after:
                    return fail(f"{what()}: transient value {v} at cycle {t} (neither {before} nor {after})",
                                signature="transient-value")
            if p["kind"] != "sof" and sofs:
                labels.add("sof_detected-without-wellformed-sof")
        if any(o.txv for o in trace):
            labels.add("device-transmitted")
        return Result(ok=True, nontrivial=repeats >= 1 and changes >= 1 and between >= 1, labels=tuple(sorted(labels)))


SUBS = [Frames()]
