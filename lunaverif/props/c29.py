"""C29 — USBMultibyteStreamInEndpoint serialises words little-endian with correct framing.

The inner ``USBStreamInEndpoint`` is replaced *at elaboration time* by a stub (``unittest.mock.patch`` of the name
in ``luna.gateware.usb.usb2.endpoints.stream`` around the simulator's construction) whose byte stream is
observable and whose ``ready`` is driven by the generator.  LUNA itself is not modified.
"""
from unittest import mock

from hypothesis import strategies as st

from lunaverif.core import Sub, Result, fail
from lunaverif.gen import weighted, bits, long_lists
from lunaverif.simkit import CycleHarness

PROPERTY = "C29"
ASSUMPTIONS = [
    "the word producer obeys valid-hold (valid, payload, first, last held until a cycle with ready)",
    "the byte endpoint's ready is any 0/1 pattern with bounded gaps, independent of the byte stream's valid "
    "(USBStreamInEndpoint derives it from FIFO fill only)",
    "first/last of the byte stream are judged in the cycle the byte is accepted (valid & ready)",
    "the inner USBStreamInEndpoint is a stub in the main sub; its own behaviour is property C11",
]

WIDTHS = [1, 2, 3, 4, 5, 6, 7, 8]
TARGET = "luna.gateware.usb.usb2.endpoints.stream.USBStreamInEndpoint"


def build_stubbed(width):
    from amaranth import Elaboratable, Module, Signal
    from luna.gateware.stream import StreamInterface
    from luna.gateware.usb.usb2.endpoint import EndpointInterface
    from luna.gateware.usb.usb2.endpoints.stream import USBMultibyteStreamInEndpoint

    byte_stream = StreamInterface()
    created = []

    class StubInEndpoint(Elaboratable):
        def __init__(self, *, endpoint_number, max_packet_size):
            self.stream = byte_stream
            self.interface = EndpointInterface()
            self.flush = Signal()
            self.discard = Signal()
            created.append((endpoint_number, max_packet_size))

        def elaborate(self, platform):
            return Module()

    dut = USBMultibyteStreamInEndpoint(byte_width=width, endpoint_number=3, max_packet_size=64)
    w = dut.stream
    ins = dict(valid=w.valid, payload=w.payload, first=w.first, last=w.last, bready=byte_stream.ready)
    outs = dict(ready=w.ready, bvalid=byte_stream.valid, bpayload=byte_stream.payload, bfirst=byte_stream.first,
                blast=byte_stream.last)
    with mock.patch(TARGET, StubInEndpoint):
        h = CycleHarness(dut, ins, outs, domain="usb")
    if created != [(3, 64)]:
        raise RuntimeError(f"stub substitution failed: {created}")
    return h


class _Driver:
    def __init__(self, words, bready, lead, tail):
        self.words = words
        self.bready = bready
        self.i = 0
        self.wait = lead
        self.valid = 0
        self.tail = tail
        self.log = []            # (valid, word index, bready)

    def step(self, t, prev):
        if prev is not None and self.valid and prev.ready:
            self.i += 1
            self.valid = 0
            if self.i < len(self.words):
                self.wait = self.words[self.i]["gap"]
        br = self.bready[t % len(self.bready)]
        if self.i >= len(self.words):
            self.tail -= 1
            if self.tail < 0:
                return None
            self.log.append((0, None, br))
            return dict(valid=0, bready=br)
        if not self.valid:
            if self.wait > 0:
                self.wait -= 1
                self.log.append((0, None, br))
                return dict(valid=0, bready=br)
            self.valid = 1
        w = self.words[self.i]
        self.log.append((1, self.i, br))
        return dict(valid=1, payload=w["data"], first=w["first"], last=w["last"], bready=br)


class MultibyteSub(Sub):
    name = "multibyte-stub"
    budget = {"quick": 8000, "thorough": 100000}
    rule = ("USBMultibyteStreamInEndpoint(byte_width 1..8) with the inner byte endpoint stubbed: word list (value, "
            "first, last, spacing) from a valid-hold producer, byte-side ready pattern; oracle: bytes accepted by the "
            "byte endpoint == the accepted words' bytes little-endian, once each, first only on a first-flagged word's "
            "byte 0, last only on a last-flagged word's final byte, and at every word acceptance all bytes of the "
            "earlier words have been taken by the byte side; non-trivial = a word accepted in the very cycle the "
            "previous word's final byte is taken AND a byte-side stall inside a word AND both flags exercised")

    def setup(self):
        self.h = {}

    def harness(self, width):
        if width not in self.h:
            self.h[width] = build_stubbed(width)
        return self.h[width]

    def strategy(self):
        def for_width(width):
            word = st.fixed_dictionaries(dict(
                data=st.one_of(bits(8 * width), st.just(int.from_bytes(bytes(range(1, width + 1)), "little"))),
                first=weighted([(0, 2), (1, 1)]), last=weighted([(0, 2), (1, 1)]),
                gap=weighted([(0, 5), (1, 2), (2, 1), (width, 1), (2 * width + 1, 1)])))
            bready = st.one_of(st.just([1]),
                               st.lists(weighted([(1, 2), (0, 1)]), min_size=0, max_size=9).map(lambda l: l + [1]),
                               st.lists(weighted([(0, 3), (1, 1)]), min_size=1, max_size=5).map(lambda l: l + [1]))
            return st.fixed_dictionaries(dict(width=st.just(width), lead=st.integers(0, 3), bready=bready,
                                              words=long_lists(word, min_size=1, max_size=16, average=6)))
        return st.sampled_from(WIDTHS).flatmap(for_width)

    def run(self, case):
        width = case["width"]
        words = case["words"]
        period = len(case["bready"])
        drv = _Driver(words, case["bready"], case["lead"], tail=(width + 1) * period + 4)
        bound = case["lead"] + sum(w["gap"] for w in words) + (len(words) + 2) * (width + 1) * (period + 1) + 20
        trace = self.harness(width).run_driver(drv, max_cycles=bound)
        log = drv.log
        cfg = f"byte_width={width}"
        if drv.i < len(words):
            return fail(f"{cfg}: word {drv.i} not accepted within {bound} cycles although the byte side keeps offering "
                        f"ready", signature="word-never-accepted")
        exp = []
        for k, w in enumerate(words):
            for j in range(width):
                exp.append(((w["data"] >> (8 * j)) & 0xFF, int(bool(w["first"]) and j == 0),
                            int(bool(w["last"]) and j == width - 1), k, j))
        got = []
        taken = 0
        back_to_back = False
        stall_inside = False
        for t, ((valid, wi, br), o) in enumerate(zip(log, trace)):
            byte_taken = o.bvalid and br
            if o.bvalid and not br and taken % width != 0:
                stall_inside = True
            if byte_taken:
                got.append((o.bpayload, o.bfirst, o.blast))
                idx = len(got) - 1
                if idx >= len(exp):
                    return fail(f"{cfg} cycle {t}: extra byte {o.bpayload:#04x} after all {len(exp)} expected bytes",
                                signature="extra-byte")
                e = exp[idx]
                if o.bpayload != e[0]:
                    return fail(f"{cfg} cycle {t}: byte {idx} (word {e[3]} = {words[e[3]]['data']:#x}, byte {e[4]}) is "
                                f"{o.bpayload:#04x}, expected {e[0]:#04x}", signature="byte-value-or-order")
                if o.bfirst != e[1]:
                    return fail(f"{cfg} cycle {t}: byte {e[4]} of word {e[3]} (first={words[e[3]]['first']}) has "
                                f"first={o.bfirst}", signature="first-flag")
                if o.blast != e[2]:
                    return fail(f"{cfg} cycle {t}: byte {e[4]} of word {e[3]} (last={words[e[3]]['last']}) has "
                                f"last={o.blast}", signature="last-flag")
                taken += 1
            if valid and o.ready:
                # word wi accepted in this cycle: every byte of words 0..wi-1 must have been taken by now
                if taken < wi * width:
                    return fail(f"{cfg} cycle {t}: word {wi} accepted while only {taken} of the {wi * width} earlier "
                                f"bytes had been taken by the byte endpoint", signature="word-accepted-too-early")
                if wi > 0 and byte_taken and taken == wi * width:
                    back_to_back = True
        if len(got) != len(exp):
            return fail(f"{cfg}: {len(got)} bytes delivered, {len(exp)} expected (words {len(words)})",
                        signature="missing-bytes")
        labels = {f"width={width}"}
        if back_to_back:
            labels.add("word-accepted-with-last-byte")
        if stall_inside:
            labels.add("stall-inside-word")
        flags = any(w["first"] for w in words) and any(w["last"] for w in words)
        if any(w["first"] and w["last"] for w in words):
            labels.add("first+last-same-word")
        return Result(ok=True, nontrivial=back_to_back and stall_inside and flags, labels=tuple(sorted(labels)))


SUBS = [MultibyteSub()]


# ------------------------------------------------------------------------------------------------------------------
# Second run: the real inner USBStreamInEndpoint (spied upon, not replaced) drained by a minimal, always-ACKing host.
# ------------------------------------------------------------------------------------------------------------------
MPS = 8


def build_real(width):
    from amaranth.hdl import Fragment
    from luna.gateware.usb.usb2.endpoints import stream as ep_mod
    from luna.gateware.usb.usb2.endpoints.stream import USBMultibyteStreamInEndpoint

    spied = []

    class SpyInEndpoint(ep_mod.USBStreamInEndpoint):
        def __init__(self, **kw):
            super().__init__(**kw)
            spied.append(self)

    dut = USBMultibyteStreamInEndpoint(byte_width=width, endpoint_number=3, max_packet_size=MPS)
    with mock.patch(TARGET, SpyInEndpoint):
        frag = Fragment.get(dut, None)
    if len(spied) != 1:
        raise RuntimeError("spy substitution failed")
    inner = spied[0]
    w, b, i = dut.stream, inner.stream, dut.interface
    ins = dict(valid=w.valid, payload=w.payload, first=w.first, last=w.last,
               tok_pid=i.tokenizer.pid, tok_ep=i.tokenizer.endpoint, tok_in=i.tokenizer.is_in,
               new_token=i.tokenizer.new_token, rfr=i.tokenizer.ready_for_response,
               ack=i.handshakes_in.ack, tx_ready=i.tx.ready)
    outs = dict(ready=w.ready, bvalid=b.valid, bready=b.ready, bpayload=b.payload, bfirst=b.first, blast=b.last,
                tx_valid=i.tx.valid, tx_payload=i.tx.payload, tx_first=i.tx.first, tx_last=i.tx.last,
                nak=i.handshakes_out.nak)
    return CycleHarness(frag, ins, outs, domain="usb")


class _HostDriver:
    """Word producer (as in the stub run) + a host that polls the endpoint with IN tokens and ACKs every packet."""

    def __init__(self, words, polls, lead):
        self.words = words
        self.i = 0
        self.wait = lead
        self.valid = 0
        self.polls = polls
        self.pi = 0
        self.hstate = "gap"
        self.hcount = polls[0]
        self.saw_data = False
        self.idle_naks = 0
        self.log = []
        self.packets = []          # list of byte lists, filled from prev outputs
        self.cur = None
        self.txr = 0
        self.pid_wait = 0
        self.taken = 0
        self.total = 0             # set by the caller: number of bytes the words serialise to

    def step(self, t, prev):
        # ---- word producer
        if prev is not None and prev.bvalid and prev.bready:
            self.taken += 1
        if prev is not None and self.valid and prev.ready:
            self.i += 1
            self.valid = 0
            if self.i < len(self.words):
                self.wait = self.words[self.i]["gap"]
        upd = dict(tok_pid=0x9, tok_ep=3, tok_in=1, tx_ready=1, new_token=0, rfr=0, ack=0)
        if self.i < len(self.words):
            if not self.valid:
                if self.wait > 0:
                    self.wait -= 1
                else:
                    self.valid = 1
            if self.valid:
                w = self.words[self.i]
                upd.update(valid=1, payload=w["data"], first=w["first"], last=w["last"])
            else:
                upd["valid"] = 0
        else:
            upd["valid"] = 0
        # ---- host: the data-packet generator model keeps tx.ready low while the PID goes out (2 cycles)
        if prev is not None and self.hstate in ("rfr-sent", "response"):
            if prev.tx_valid:
                self.idle_naks = 0
                if self.cur is None:
                    self.cur = []
                    if prev.tx_last and not prev.tx_first:       # ZLP: last without first, nothing consumed
                        self.packets.append([])
                        self.cur = None
                        self.hstate = "ack-wait"
                        self.hcount = 2
                    else:
                        self.pid_wait = 2
                if self.cur is not None:
                    if self.txr:                                  # byte consumed in the previous cycle
                        self.cur.append(prev.tx_payload)
                        if prev.tx_last:
                            self.packets.append(self.cur)
                            self.cur = None
                            self.hstate = "ack-wait"
                            self.hcount = 2
            elif prev.nak and self.hstate == "rfr-sent":
                self.hstate = "gap"
                self.pi += 1
                self.hcount = self.polls[self.pi % len(self.polls)]
                if self.i >= len(self.words) and self.taken >= self.total:
                    self.idle_naks += 1
        if self.cur is not None:
            if self.pid_wait > 0:
                self.pid_wait -= 1
                self.txr = 0
            else:
                self.txr = 1
        else:
            self.txr = 0
        upd["tx_ready"] = self.txr
        if self.hstate == "rfr-sent":
            self.hstate = "response"
            self.hcount = MPS + 10
        if self.hstate == "gap":
            if self.hcount > 0:
                self.hcount -= 1
            else:
                upd["new_token"] = 1
                self.hstate = "token-sent"
                self.hcount = 2
        elif self.hstate == "token-sent":
            if self.hcount > 0:
                self.hcount -= 1
            else:
                upd["rfr"] = 1
                self.hstate = "rfr-sent"
        elif self.hstate == "response":
            self.hcount -= 1
            if self.hcount < 0:          # no answer at all: poll again
                self.hstate = "gap"
                self.hcount = 1
        elif self.hstate == "ack-wait":
            if self.hcount > 0:
                self.hcount -= 1
            else:
                upd["ack"] = 1
                self.hstate = "gap"
                self.pi += 1
                self.hcount = self.polls[self.pi % len(self.polls)]
        if self.idle_naks >= 2:
            return None
        self.log.append((upd["valid"], self.i if upd["valid"] else None))
        return upd


class MultibyteRealSub(Sub):
    name = "multibyte-real-inner"
    budget = {"quick": 1500, "thorough": 15000}
    rule = ("USBMultibyteStreamInEndpoint(byte_width 1..8, max_packet_size 8) with the REAL inner USBStreamInEndpoint "
            "(spied, not replaced): words from a valid-hold producer (the final word carries last), a host polling with "
            "IN tokens at generated intervals and ACKing every packet; oracle: (a) the same per-byte oracle as the stub "
            "run at the inner endpoint's stream port, with ready now produced by the real double-buffered endpoint, (b) "
            "the concatenation of the packets the host received equals the words' little-endian bytes; non-trivial = "
            "the inner endpoint stalled (ready low) in the middle of a word AND >= 3 packets were received")

    def setup(self):
        self.h = {}

    def harness(self, width):
        if width not in self.h:
            self.h[width] = build_real(width)
        return self.h[width]

    def strategy(self):
        def for_width(width):
            word = st.fixed_dictionaries(dict(
                data=bits(8 * width), first=weighted([(0, 2), (1, 1)]), last=weighted([(0, 4), (1, 1)]),
                gap=weighted([(0, 6), (1, 1), (3, 1), (12, 1)])))
            return st.fixed_dictionaries(dict(
                width=st.just(width), lead=st.integers(0, 3),
                polls=st.lists(weighted([(0, 2), (2, 2), (6, 1), (15, 1), (40, 1)]), min_size=1, max_size=5),
                words=long_lists(word, min_size=1, max_size=max(3, 48 // width), average=max(2, 20 // width))))
        return st.sampled_from(WIDTHS).flatmap(for_width)

    def run(self, case):
        width = case["width"]
        words = [dict(w) for w in case["words"]]
        words[-1]["last"] = 1                       # so that everything is flushed to the host
        drv = _HostDriver(words, case["polls"], case["lead"])
        nbytes = width * len(words)
        drv.total = nbytes
        bound = 200 + (nbytes // MPS + len(words) + 6) * (max(case["polls"]) + MPS + 14) + sum(w["gap"] for w in words)
        trace = self.harness(width).run_driver(drv, max_cycles=bound)
        cfg = f"byte_width={width} mps={MPS}"
        if drv.i < len(words) or drv.idle_naks < 2:
            return fail(f"{cfg}: not drained within {bound} cycles (words accepted {drv.i}/{len(words)}, packets "
                        f"{len(drv.packets)})", signature="real-not-drained")
        exp = []
        for k, w in enumerate(words):
            for j in range(width):
                exp.append(((w["data"] >> (8 * j)) & 0xFF, int(bool(w["first"]) and j == 0),
                            int(bool(w["last"]) and j == width - 1), k, j))
        taken = 0
        stall_inside = False
        for t, ((valid, wi), o) in enumerate(zip(drv.log, trace)):
            if o.bvalid and not o.bready and taken % width != 0:
                stall_inside = True
            if o.bvalid and o.bready:
                if taken >= len(exp):
                    return fail(f"{cfg} cycle {t}: extra byte handed to the inner endpoint", signature="extra-byte")
                e = exp[taken]
                if (o.bpayload, o.bfirst, o.blast) != e[:3]:
                    sig = "byte-value-or-order" if o.bpayload != e[0] else ("first-flag" if o.bfirst != e[1] else "last-flag")
                    return fail(f"{cfg} cycle {t}: inner endpoint took (byte {o.bpayload:#04x}, first {o.bfirst}, last "
                                f"{o.blast}); expected {e[:3]} = byte {e[4]} of word {e[3]}", signature=sig)
                taken += 1
            if valid and o.ready and taken < wi * width:
                return fail(f"{cfg} cycle {t}: word {wi} accepted with only {taken} earlier bytes taken",
                            signature="word-accepted-too-early")
        if taken != len(exp):
            return fail(f"{cfg}: inner endpoint took {taken} bytes, {len(exp)} expected", signature="missing-bytes")
        host = [b for p in drv.packets for b in p]
        if host != [e[0] for e in exp]:
            return fail(f"{cfg}: host received {bytes(host).hex()} in packets of {[len(p) for p in drv.packets]}, "
                        f"expected {bytes(e[0] for e in exp).hex()}", signature="host-data-mismatch")
        if any(len(p) > MPS for p in drv.packets):
            return fail(f"{cfg}: packet longer than max_packet_size: {[len(p) for p in drv.packets]}",
                        signature="host-packet-too-long")
        labels = {f"width={width}", f"packets={min(len(drv.packets), 4)}"}
        if stall_inside:
            labels.add("inner-stall-inside-word")
        if any(len(p) == 0 for p in drv.packets):
            labels.add("zlp")
        return Result(ok=True, nontrivial=stall_inside and len(drv.packets) >= 3, labels=tuple(sorted(labels)))


SUBS.append(MultibyteRealSub())
