"""C03 — USB2 transmitted data packets are correctly framed with a valid CRC16."""
from amaranth import Elaboratable, Module, Signal
from hypothesis import strategies as st

from lunaverif.core import Sub, Result, fail, HarnessError
from lunaverif.simkit import CycleHarness
from lunaverif.gen import long_lists, weighted
from lunaverif.bfm import g1_rx as rx
from lunaverif.ref import usb2

PROPERTY = "C03"
ASSUMPTIONS = [
    "the payload producer obeys USBInStreamInterface: valid held from first to last, payload/first/last stable while "
    "valid & ~ready, next byte presented the cycle after an accepted one",
    "a zero-length packet is requested by a one-cycle valid&last&~first pulse (all in-tree callers pulse it for one "
    "cycle) and, like every request, only while the transmitter is idle (previous packet completely accepted by the PHY; "
    "in a device a handshake and a new IN token separate two data packets)",
    "data_pid is valid in the request cycle and held while the packet is sent (endpoints change toggles only on ACK)",
    "tx_ready is an arbitrary 0/1 pattern with stalls of at most 24 cycles",
    "cfg unit: CRC generator wired as usb2/device.py:363-364 (advances on tx_valid & tx_ready with the transmitted byte); "
    "cfg device: the real USBDevice wiring, bus idle (line_state J), no receive traffic",
]

DATA_PIDS = [usb2.PID_DATA0, usb2.PID_DATA1, usb2.PID_DATA2, usb2.PID_MDATA]


class _TxWiring(Elaboratable):
    """USBDataPacketGenerator + USBDataPacketCRC + (idle) handshake generator behind the device's transmit multiplexer,
    connected as in luna/gateware/usb/usb2/device.py:261-271 and :351-365."""

    def __init__(self):
        from luna.gateware.usb.usb2.packet import USBDataPacketGenerator, USBDataPacketCRC, USBHandshakeGenerator
        from luna.gateware.interface.utmi import UTMIInterfaceMultiplexer, UTMITransmitInterface
        self.gen = USBDataPacketGenerator()
        self.crc = USBDataPacketCRC()
        self.hs = USBHandshakeGenerator()
        self.mux = UTMIInterfaceMultiplexer()
        self.tx_ready = Signal()
        self.tx_valid = Signal()
        self.tx_data = Signal(8)

    def elaborate(self, platform):
        m = Module()
        m.submodules.gen = self.gen
        m.submodules.crc = self.crc
        m.submodules.hs = self.hs
        m.submodules.mux = self.mux
        self.crc.add_interface(self.gen.crc)
        self.mux.add_input(self.gen.tx)
        self.mux.add_input(self.hs.tx)
        out = self.mux.output
        m.d.comb += [
            self.tx_valid.eq(out.valid),
            self.tx_data.eq(out.data),
            out.ready.eq(self.tx_ready),
            self.crc.rx_valid.eq(0),
            self.crc.tx_valid.eq(out.valid & self.tx_ready),
            self.crc.tx_data.eq(out.data),
        ]
        return m


class _TxEndpoint(Elaboratable):
    """An endpoint with no logic: its EndpointInterface transmit stream and PID toggle are driven by the testbench,
    so the *real* USBDevice transmit path (endpoint mux -> USBDataPacketGenerator -> tx multiplexer -> UTMI, with the
    CRC wiring of device.py:363) is what gets exercised."""

    def __init__(self):
        from luna.gateware.usb.usb2.endpoint import EndpointInterface
        self.interface = EndpointInterface()

    def elaborate(self, platform):
        return Module()


CONFIGS = ["unit", "device"]


def _harness(cfg):
    if cfg == "unit":
        dut = _TxWiring()
        s = dut.gen.stream
        return CycleHarness(
            dut,
            dict(valid=s.valid, first=s.first, last=s.last, payload=s.payload, data_pid=dut.gen.data_pid,
                 tx_ready=dut.tx_ready, line_state=Signal(2)),
            dict(sr=s.ready, tv=dut.tx_valid, td=dut.tx_data),
            domain="usb")
    from luna.gateware.interface.utmi import UTMIInterface
    from luna.gateware.usb.usb2.device import USBDevice
    utmi = UTMIInterface()
    dut = USBDevice(bus=utmi)
    ep = _TxEndpoint()
    dut.add_endpoint(ep)
    s = ep.interface.tx
    return CycleHarness(
        dut,
        dict(valid=s.valid, first=s.first, last=s.last, payload=s.payload, data_pid=ep.interface.tx_pid_toggle,
             tx_ready=utmi.tx_ready, line_state=utmi.line_state),
        dict(sr=s.ready, tv=utmi.tx_valid, td=utmi.tx_data),
        domain="usb")


class _Driver:
    """Registered producer + PHY.  Decisions for cycle t use only DUT outputs of cycle t-1."""

    def __init__(self, pkts, ready, noise):
        self.pkts = pkts
        self.ready = ready
        self.noise = noise
        self.k = 0              # current packet
        self.pos = 0            # next payload byte to offer
        self.state = "wait"
        self.wait = pkts[0]["delay"] if pkts else 0
        self.sent = 0           # bytes of the current packet accepted by the PHY
        self.cur = dict(valid=0, first=0, last=0, payload=0, data_pid=0, tx_ready=0, line_state=0)
        self.inputs = []        # per-cycle copy of what was driven
        self.offered = 0
        self.tailc = 6

    def step(self, t, prev):
        c = self.cur
        last_in = self.inputs[-1] if self.inputs else None
        if prev is not None:
            if prev.tv and last_in["tx_ready"]:
                self.sent += 1
            if self.state == "offer" and last_in["valid"] and prev.sr:
                self.pos += 1
                self.offered += 1
        upd = dict(tx_ready=self.ready[t % len(self.ready)], line_state=1)      # FS idle (J) on the bus
        if self.k >= len(self.pkts):
            upd.update(valid=0, first=0, last=0, payload=self.noise)
            self.tailc -= 1
            if self.tailc < 0:
                return None
        else:
            pk = self.pkts[self.k]
            n = len(pk["data"])
            if self.state == "wait":
                if self.wait > 0:
                    self.wait -= 1
                    upd.update(valid=0, first=0, last=0, payload=self.noise)
                elif n == 0:
                    upd.update(valid=1, first=0, last=1, payload=self.noise, data_pid=pk["pid"])
                    self.state = "zlp"
                else:
                    self.state = "offer"
                    self.pos = 0
                    upd.update(data_pid=pk["pid"])
            elif self.state == "zlp":
                upd.update(valid=0, first=0, last=0, payload=self.noise)
                self.state = "drain"
            if self.state == "offer":
                if self.pos < n:
                    upd.update(valid=1, first=int(self.pos == 0), last=int(self.pos == n - 1), payload=pk["data"][self.pos])
                else:
                    upd.update(valid=0, first=0, last=0, payload=self.noise)
                    self.state = "drain"
            if self.state == "drain" and self.sent >= n + 3:
                # packet completely accepted by the PHY: next request after its delay
                self.k += 1
                self.sent = 0
                self.state = "wait"
                if self.k < len(self.pkts):
                    self.wait = self.pkts[self.k]["delay"]
                    if self.wait == 0:
                        return self.step_again(t, upd)
        c.update(upd)
        self.inputs.append(dict(c))
        return upd

    def step_again(self, t, upd):
        """zero-delay request: issue the next packet's request in this very cycle."""
        pk = self.pkts[self.k]
        n = len(pk["data"])
        if n == 0:
            upd.update(valid=1, first=0, last=1, payload=self.noise, data_pid=pk["pid"])
            self.state = "zlp"
        else:
            self.state = "offer"
            self.pos = 0
            upd.update(valid=1, first=1, last=int(n == 1), payload=pk["data"][0], data_pid=pk["pid"])
        self.cur.update(upd)
        self.inputs.append(dict(self.cur))
        return upd


def ready_pattern():
    """tx_ready as runs: (zeros, ones) pairs -> always contains a 1; stalls up to 24 cycles."""
    run = st.tuples(weighted([(0, 4), (1, 4), (2, 2), (3, 1), (7, 1), (24, 1)]), weighted([(1, 6), (2, 2), (5, 1), (12, 1)]))
    return st.lists(run, min_size=1, max_size=12).map(lambda rs: [b for z, o in rs for b in [0] * z + [1] * o])


class TxFraming(Sub):
    name = "framing"
    budget = {"quick": 15000, "thorough": 200000}
    rule = ("1..6 packets (payload 0..70 bytes incl. ZLP requests as last-without-first, data_pid 0..3, request delay "
            "0..12 after the previous packet) fed by a registered USBInStream producer into USBDataPacketGenerator + "
            "USBDataPacketCRC wired as device.py (cfg unit) or into a real USBDevice(bare UTMI) through a logic-free endpoint (cfg device), against a cyclic tx_ready stall pattern; oracle: the maximal runs of "
            "tx_valid, sampled on tx_valid&tx_ready, equal PID(data_pid) | payload | reference CRC16 lo,hi packet by "
            "packet, and the number of stream bytes accepted equals the payload lengths; non-trivial = >=1 stall cycle "
            "(tx_valid & ~tx_ready) on the last payload byte or on either CRC byte")

    def setup(self):
        self.h = {}

    def harness(self, cfg):
        if cfg not in self.h:
            self.h[cfg] = _harness(cfg)
        return self.h[cfg]

    def strategy(self):
        pkt = st.fixed_dictionaries(dict(
            pid=st.integers(0, 3),
            data=st.one_of(rx.payloads(max_len=70, average=7), rx.payloads(max_len=70, average=7),
                           long_lists(rx.BYTE, min_size=60, max_size=70, average=64)),
            delay=weighted([(0, 3), (1, 2), (2, 1), (5, 1), (12, 1)]),
        ))
        return st.fixed_dictionaries(dict(
            cfg=weighted([("unit", 2), ("device", 1)]),
            pkts=long_lists(pkt, min_size=1, max_size=6, average=3),
            ready=ready_pattern(),
            noise=st.sampled_from([0, 0xFF, 0x3C]),
        ))

    def run(self, case):
        pkts = case["pkts"]
        drv = _Driver(pkts, case["ready"], case["noise"])
        total = sum(len(p["data"]) + 3 + p["delay"] + 4 for p in pkts)
        max_cycles = 40 + total * 26
        trace = self.harness(case["cfg"]).run_driver(drv, max_cycles)
        ins = drv.inputs
        expected = [list(usb2.data_packet(DATA_PIDS[p["pid"]], p["data"])) for p in pkts]
        # split the accepted byte stream into packets at tx_valid-low cycles
        got, cur, open_ = [], [], False
        stalls_tail = 0
        for t, o in enumerate(trace):
            if o.tv:
                open_ = True
                if ins[t]["tx_ready"]:
                    cur.append(o.td)
                else:
                    k = len(got)
                    if k < len(expected) and len(cur) >= len(expected[k]) - 3 and len(cur) >= 1:
                        stalls_tail += 1
            elif open_:
                got.append(cur)
                cur, open_ = [], False
        if open_:
            got.append(cur + ["...unfinished"])
        if got != expected:
            k = next((i for i in range(min(len(got), len(expected))) if got[i] != expected[i]), min(len(got), len(expected)))
            g = got[k] if k < len(got) else None
            x = expected[k] if k < len(expected) else None
            if g is None:
                sig, why = "packet-missing", "packet never transmitted"
            elif x is None:
                sig, why = "packet-extra", "unrequested packet transmitted"
            elif g[:1] != x[:1]:
                sig, why = "pid-wrong", "wrong PID byte"
            elif g[1:len(x) - 2] != x[1:-2] and len(g) == len(x):
                sig, why = "payload-wrong", "payload differs"
            elif len(g) != len(x):
                sig, why = "length-wrong", "packet length differs (byte lost, duplicated or packet split)"
            else:
                sig, why = "crc-wrong", "CRC16 bytes differ"
            gs = rx.hexs([b for b in g if isinstance(b, int)]) if g is not None else "-"
            return fail(f"packet {k} (data_pid {pkts[k]['pid'] if k < len(pkts) else '-'}): {why}: sent [{gs}] expected "
                        f"[{rx.hexs(x) if x is not None else '-'}]; tx_ready pattern {case['ready']}", signature=sig)
        want_offered = sum(len(p["data"]) for p in pkts)
        if drv.offered != want_offered:
            return fail(f"stream accepted {drv.offered} payload bytes, {want_offered} were offered", signature="accept-count")
        labels = {case["cfg"]}
        if any(len(p["data"]) == 0 for p in pkts):
            labels.add("zlp")
        if any(len(p["data"]) == 1 for p in pkts):
            labels.add("len1")
        if any(len(p["data"]) >= 64 for p in pkts):
            labels.add("len>=64")
        if any(p["delay"] == 0 for p in pkts[1:]):
            labels.add("back-to-back")
        if stalls_tail:
            labels.add("stall-on-last/crc")
        if len(pkts) > 1:
            labels.add("multi-packet")
        labels.add("all-ready" if all(case["ready"]) else "stalls")
        return Result(ok=True, nontrivial=stalls_tail > 0, labels=tuple(sorted(labels)))


SUBS = [TxFraming()]
