"""C46 — SuperSpeed IN endpoints deliver data and signal readiness correctly (SuperSpeedStreamInEndpoint)."""

from hypothesis import strategies as st

from lunaverif.core import Sub, Result, fail, HarnessError
from lunaverif.gen import long_lists, weighted, bits
from lunaverif.simkit import CycleHarness
from lunaverif.bfm.g5_ss_in_host import InEndpointBfm
from lunaverif.ref.g5_stream import packetize

PROPERTY = "C46"
ASSUMPTIONS = [
    "host is a legal USB 3 host for a non-bursting bulk IN endpoint: one outstanding IN request (ACK TP with "
    "NumP=1 and the next expected sequence number); a well received DP is acknowledged with seq+1 (NumP 1 or 0), "
    "a badly received one with the same seq, Rty=1, NumP=1 (at most twice per packet); after NRDY it either waits "
    "for the ERDY or resumes polling on its own after a generated delay (USB 3.2 8.10.1 allows a host to resume "
    "transactions to a flow-controlled endpoint without an ERDY); in a quarter of the cases (repoll_race) such a re-poll "
    "may also race with the endpoint's pending / in-flight ERDY -- the unanswered re-poll in that window is the "
    "recorded known finding; its TPs arrive >= 3 cycles after the event they react to",
    "input stream: valid held and payload stable until ready; only the word carrying `last` may be partial; a "
    "chunk without `last` is a multiple of four bytes",
    "handshakes_out.ready/done behave like TransactionPacketGenerator (request taken when strobed while ready, "
    "done after 1..9 cycles); tx.ready behaves like DataPacketTransmitter's skid buffer in front of the link "
    "transmitter (arbitrary pattern with bounded gaps, usually ready while idle)",
    "data-packet attributes (sequence number, length, endpoint number) are sampled in the first cycle tx.valid "
    "is non-zero, or in the tx_zlp cycle — the cycles in which DataPacketTransmitter latches them",
    "'holds data' = a complete packet (max-packet-size bytes, or a chunk end) had been accepted from the stream "
    ">= 2 cycles before the IN request arrived; with less margin either answer is accepted",
    "endpoint reset (ep_reset) is not exercised",
]

CONFIGS = [(16, 5), (64, 1), (1024, 2), (32, 9)]      # (max_packet_size, endpoint number)
_CFG_W = [(0, 6), (1, 3), (3, 2), (2, 1)]


def _data(seed, n):
    out = bytearray()
    x = (seed * 2654435761 + 0x9E3779B9) & 0xFFFFFFFF
    for _ in range(n):
        x = (x * 1664525 + 1013904223) & 0xFFFFFFFF
        out.append((x >> 24) & 0xFF)
    return bytes(out)


def _transfer():
    # n = k * mps + r  (r chosen around the packet/word boundaries); non-`last` chunks are whole words
    return st.fixed_dictionaries(dict(
        k=weighted([(0, 4), (1, 4), (2, 2), (3, 1)]),
        r=weighted([(0, 4), (1, 1), (2, 1), (3, 1), (4, 2), (5, 1), (7, 1), (8, 2), (-1, 2), (-3, 1), (-4, 2), (-8, 1)]),
        last=weighted([(1, 5), (0, 1)]),
        seed=bits(16)))


def _case():
    return st.fixed_dictionaries(dict(
        cfg=weighted(_CFG_W),
        transfers=st.lists(_transfer(), min_size=1, max_size=4),
        # long runs: extra full packets in the first transfer, so that the 5-bit sequence number wraps (31 -> 0)
        # once or twice within one case (only applied to the small max-packet sizes, see materialize)
        long=weighted([(0, 9), (28, 1), (31, 1), (34, 1), (66, 1)]),
        sdelay=weighted([(0, 3), (3, 1), (10, 1), (30, 2), (60, 1)]),
        sgaps=st.lists(weighted([(0, 6), (1, 2), (4, 1), (13, 1)]), min_size=1, max_size=6),
        tp_delay=weighted([(0, 2), (1, 2), (3, 1), (8, 1)]),
        txr=st.fixed_dictionaries(dict(
            idle=weighted([(1, 4), (0, 1)]),
            stall=weighted([(0, 3), (1, 1), (2, 1), (6, 2), (12, 1)]),
            pat=st.lists(weighted([(1, 4), (0, 1)]), min_size=0, max_size=7).map(lambda p: p + [1]))),
        hstart=weighted([(0, 2), (4, 2), (12, 1), (40, 2), (90, 1)]),
        hplan=st.lists(st.fixed_dictionaries(dict(
            verdict=weighted([("ack_next", 5), ("ack_stop", 2), ("retry", 2)]),
            delay=weighted([(2, 3), (3, 2), (5, 2), (9, 1), (25, 1), (70, 1)]))), min_size=1, max_size=8),
        # host behaviour during flow control, one entry per NRDY episode (cyclic): 0 = wait for the ERDY,
        # d > 0 = resume polling d cycles after the NRDY arrived (if the awaited packet is still incomplete then)
        repoll=st.lists(weighted([(0, 4), (1, 2), (2, 1), (4, 2), (9, 2), (20, 2), (45, 1)]), min_size=1, max_size=5),
        # re-polls may also fall into the window in which the endpoint's ERDY is pending / in flight (recorded known
        # finding `repoll-during-flow-control-unanswered-while-erdy-pending`, see known_findings.json)
        repoll_race=weighted([(0, 3), (1, 1)]),
        noise=st.lists(st.fixed_dictionaries(dict(
            gap=st.integers(0, 60), dep=st.integers(0, 14), seq=bits(5), nump=bits(1), rty=bits(1))), max_size=3),
    ))


def materialize(case):
    """-> (mps, endpoint number, transfers with concrete bytes, stream word gaps)"""
    mps, ep = CONFIGS[case["cfg"]]
    trs = []
    for i, tr in enumerate(case["transfers"]):
        n = tr["k"] * mps + tr["r"]
        if i == 0 and mps <= 64:
            n += case.get("long", 0) * mps
        if n <= 0:
            n = max(1, mps + tr["r"])
        if not tr["last"]:
            n = max(4, (n // 4) * 4)
        trs.append(dict(data=_data(tr["seed"], n), last=bool(tr["last"])))
    if not trs[-1]["last"]:
        # keep every accepted byte deliverable: a trailing chunk without `last` ends on a packet boundary
        open_bytes = 0
        for t in trs:
            open_bytes = 0 if t["last"] else (open_bytes + len(t["data"])) % mps
        if open_bytes:
            trs[-1]["data"] += _data(trs[-1]["data"][0] + 77, mps - open_bytes)
    return mps, ep, trs


class InEndpointSub(Sub):
    name = "in-endpoint"
    budget = {"quick": 4800, "thorough": 80000}
    shrink_budget = 100
    rule = ("closed-loop histories of SuperSpeedStreamInEndpoint(max_packet_size 16/32/64/1024) against a legal "
            "host BFM (IN requests, ACK-and-continue, ACK-and-stop, retry requests, NRDY/ERDY flow control in which the "
            "host either waits for the ERDY or resumes polling the still-empty endpoint on its own after 1..45 cycles "
            "-- repeatedly, each such IN request must again be answered by NRDY --, stray "
            "TPs for other endpoints), a stream producer (1..4 chunks of k*mps+r bytes with/without `last`, gaps; one "
            "case in four runs 28..66 extra full packets so that the 5-bit sequence number wraps), "
            "a TP-generator model and a back-pressuring packet transmitter; oracle over the event log: every IN "
            "request is answered by the next expected packet of the reference packetisation (same bytes, host's "
            "expected sequence number, matching length/endpoint fields) if that packet was complete, by NRDY if "
            "not; ERDY exactly once after an NRDY when the packet completes; retries repeat the packet; all "
            "packets incl. terminating short packet / ZLP are delivered exactly once; non-trivial = >= 3 data "
            "packets delivered AND an NRDY-then-ERDY episode AND (a retry or a ZLP)")

    def setup(self):
        self.h = {}

    def harness(self, cfg):
        if cfg not in self.h:
            from luna.gateware.usb.usb3.endpoints.stream import SuperSpeedStreamInEndpoint
            mps, ep = CONFIGS[cfg]
            dut = SuperSpeedStreamInEndpoint(endpoint_number=ep, max_packet_size=mps)
            s, i = dut.stream, dut.interface
            hi, ho = i.handshakes_in, i.handshakes_out
            ins = dict(svalid=s.valid, sfirst=s.first, slast=s.last, sdata=s.payload,
                       ack=hi.ack_received, hep=hi.endpoint_number, nump=hi.number_of_packets,
                       rty=hi.retry_required, hseq=hi.next_sequence,
                       gready=ho.ready, gdone=ho.done, tready=i.tx.ready)
            outs = dict(sready=s.ready, tvalid=i.tx.valid, tfirst=i.tx.first, tlast=i.tx.last, tdata=i.tx.payload,
                        zlp=i.tx_zlp, tlen=i.tx_length, tseq=i.tx_sequence_number, tep=i.tx_endpoint_number,
                        tdir=i.tx_direction, nrdy=ho.send_nrdy, erdy=ho.send_erdy, hs_ep=ho.endpoint_number)
            self.h[cfg] = CycleHarness(dut, ins, outs, domain="ss")
        return self.h[cfg]

    def strategy(self):
        return _case()

    def run(self, case):
        mps, ep, trs = materialize(case)
        expected, leftover = packetize([(t["data"], t["last"]) for t in trs], mps)
        assert not leftover
        nwords = sum((len(t["data"]) + 3) // 4 for t in trs)
        sgaps = [min(g, 1) for g in case["sgaps"]] if mps >= 1024 else case["sgaps"]     # keep 1 KiB cases affordable
        bfm = InEndpointBfm(dict(case, transfers=trs, sgaps=sgaps, done_words=[p["done_word"] for p in expected]),
                            ep, len(expected))
        txr = case["txr"]
        per_packet = (mps // 4) * len(txr["pat"]) + txr["stall"] + 2 * max(d["delay"] for d in case["hplan"]) + 80
        budget = 500 + case["sdelay"] + case["hstart"] + nwords * (max(sgaps) + 2) + \
            3 * len(expected) * per_packet
        trace = self.harness(case["cfg"]).run_driver(bfm, budget)
        res = judge(bfm, expected, mps, ep)
        if bfm.stop_reason is None and len(trace) >= budget and (res.ok or res.signature == "delivery-stalled"):
            raise HarnessError(f"cycle budget {budget} exhausted without the BFM reaching a verdict")
        return res


def judge(bfm, expected, mps, ep):
    acc = bfm.accept_cycle

    def complete_at(i):
        if i >= len(expected):
            return None
        w = expected[i]["done_word"]
        return acc[w] if w < len(acc) else None

    acked = 0
    flow = False
    outstanding = None
    outstanding_in_flow = False
    labels = set()
    n_retry = n_flow = n_zlp = n_erdy = 0
    last_dp = None
    for e in bfm.events:
        k = e["e"]
        if k == "host_ack":
            if e["ep"] != ep:
                labels.add("stray-tp-other-endpoint")
                continue
            outstanding = e if e["nump"] else None
            outstanding_in_flow = flow
            if not e["nump"]:
                labels.add("ack-and-stop")
            elif flow:
                labels.add("repoll-during-flow-control")
        elif k == "tp_req" and e["kind"] == "nrdy":
            if outstanding is None:
                return fail(f"cycle {e['t']}: NRDY requested although no IN request is outstanding",
                            signature="nrdy-without-in-request")
            c = complete_at(acked)
            if c is not None and c <= outstanding["t"] - 2:
                return fail(f"IN request in cycle {outstanding['t']} answered NRDY (cycle {e['t']}) although packet "
                            f"{acked} ({len(expected[acked]['data'])} bytes) was complete since cycle {c}",
                            signature="nrdy-while-holding-data")
            if e["hs_ep"] != ep:
                return fail(f"cycle {e['t']}: NRDY requested with endpoint number {e['hs_ep']} on handshakes_out, "
                            f"the endpoint is {ep}", signature="nrdy-erdy-endpoint-number")
            flow = True
            n_flow += 1
            outstanding = None
        elif k == "tp_req" and e["kind"] == "erdy":
            if not flow:
                return fail(f"cycle {e['t']}: ERDY requested although the endpoint is not in flow control "
                            f"(no NRDY since the last ERDY / data packet)", signature="erdy-without-nrdy")
            c = complete_at(acked)
            if c is None or c > e["t"]:
                return fail(f"cycle {e['t']}: ERDY requested but packet {acked} is not complete "
                            f"(complete at {c})", signature="erdy-before-data")
            if e["hs_ep"] != ep:
                return fail(f"cycle {e['t']}: ERDY requested with endpoint number {e['hs_ep']} on handshakes_out, "
                            f"the endpoint is {ep}", signature="nrdy-erdy-endpoint-number")
            flow = False
            n_erdy += 1
        elif k == "tp_lost":
            return fail(f"cycle {e['t']}: send_nrdy strobed while the TP generator was busy (request lost)",
                        signature="nrdy-while-generator-busy")
        elif k == "dp":
            what = "ZLP" if e["zlp"] else f"{len(e['data'])}-byte DP"
            if e.get("unsolicited") or outstanding is None:
                return fail(f"cycle {e['t0']}: {what} sent although no IN request is outstanding",
                            signature="dp-without-in-request")
            c = complete_at(acked)
            if acked >= len(expected) or c is None or c > e["t0"]:
                return fail(f"cycle {e['t0']}: {what} sent but the stream holds no complete packet "
                            f"(packets delivered {acked}/{len(expected)})", signature="dp-without-data")
            exp = expected[acked]
            if e["framing"]:
                sig = "dp-framing"
                if e.get("truncated"):
                    sig = "dp-last-word-dropped-under-backpressure" if e["data"] == exp["data"][:len(e["data"])] \
                        and len(exp["data"]) - len(e["data"]) <= 4 else "dp-truncated"
                return fail(f"{what} in cycles {e['t0']}..{e['t1']}: {e['framing']}", signature=sig)
            if e["data"] != exp["data"]:
                if last_dp is not None and e["data"] == last_dp and last_dp != exp["data"]:
                    sig = "dp-repeats-acknowledged-packet"
                elif acked + 1 < len(expected) and e["data"] == expected[acked + 1]["data"]:
                    sig = "dp-skips-packet"
                elif exp["zlp"]:
                    sig = "zlp-missing"
                elif e["zlp"]:
                    sig = "zlp-instead-of-data"
                else:
                    sig = "dp-data-mismatch"
                return fail(f"{what} in cycles {e['t0']}..{e['t1']} differs from expected packet {acked} "
                            f"({len(exp['data'])} bytes): got {e['data'][:24].hex()}... expected "
                            f"{exp['data'][:24].hex()}...", signature=sig)
            if e["seq"] != outstanding["seq"]:
                sig = "dp-sequence-number"
                if e["zlp"]:
                    sig = "zlp-sequence-number"
                elif len(e["data"]) <= 4:
                    sig = "one-word-dp-attributes"
                return fail(f"{what} in cycle {e['t0']} (packet {acked}) carries sequence number {e['seq']}, the "
                            f"host expects {outstanding['seq']}", signature=sig)
            if not e["zlp"] and e["length"] != len(exp["data"]):      # tx_zlp itself means length 0
                return fail(f"{what} in cycle {e['t0']} announces tx_length={e['length']}",
                            signature="one-word-dp-attributes" if 0 < len(e["data"]) <= 4 else "dp-length-field")
            if e["ep"] != ep:
                return fail(f"{what} in cycle {e['t0']} carries endpoint number {e['ep']}, the endpoint is {ep}",
                            signature="zlp-endpoint-number" if e["zlp"] else
                            ("one-word-dp-attributes" if len(e["data"]) <= 4 else "dp-endpoint-number"))
            flow = False
            outstanding = None
            if e["host"] == "ack":
                acked += 1
                last_dp = e["data"]
                if e["zlp"]:
                    n_zlp += 1
            else:
                n_retry += 1
        elif k == "host_timeout":
            c = complete_at(acked)
            sig = "in-request-unanswered"
            if outstanding is not None and not outstanding.get("fresh") and (c is None or c > outstanding["t"]):
                sig = "ack-with-in-request-unanswered-when-empty"
            elif outstanding is not None and (outstanding_in_flow or outstanding.get("repoll")):
                # the host resumed polling a flow-controlled endpoint (no ERDY seen yet) and got no answer
                sig = "repoll-during-flow-control-unanswered-when-empty" if (c is None or c > outstanding["t"]) \
                    else "repoll-during-flow-control-unanswered-while-erdy-pending"
            return fail(f"IN request of cycle {outstanding['t'] if outstanding else '?'} got neither a data packet "
                        f"nor NRDY within 40 cycles (packet {acked} complete at {c})", signature=sig)
    if acked < len(expected):
        c = complete_at(acked)
        if flow and c is not None:
            return fail(f"NRDY was sent and packet {acked} has been complete since cycle {c}, but no ERDY followed "
                        f"({acked}/{len(expected)} packets delivered)", signature="erdy-missing")
        return fail(f"only {acked}/{len(expected)} packets delivered when the run went quiet "
                    f"(stream words accepted {len(acc)}, stop={bfm.stop_reason})", signature="delivery-stalled")
    if n_erdy:
        labels.add("nrdy-then-erdy")
    if n_erdy > 1:
        labels.add("several-erdy-episodes")
    if n_retry:
        labels.add("retry")
    if n_zlp:
        labels.add("zlp")
    if any(0 < len(p["data"]) < mps for p in expected):
        labels.add("short-packet")
    if any(0 < len(p["data"]) <= 4 for p in expected):
        labels.add("one-word-packet")
    labels.add(f"mps={mps}")
    if acked > 32:
        labels.add("sequence-number-wrapped")
    nt = acked >= 3 and n_erdy > 0 and (n_retry > 0 or n_zlp > 0)
    return Result(ok=True, nontrivial=nt, labels=tuple(sorted(labels)))


SUBS = [InEndpointSub()]
