"""C27 — constant-stream generators (and the serializer) emit exactly the requested slice."""
from hypothesis import strategies as st

from lunaverif.core import Sub, Result, fail
from lunaverif.gen import weighted
from lunaverif.simkit import CycleHarness

PROPERTY = "C27"
ASSUMPTIONS = [
    "start is a one-cycle strobe given only while the generator is idle (not during a transmission or in the "
    "cycle 'done' is high)",
    "start_position and max_length are applied in the start cycle and held until 'done' (callers derive them from "
    "the latched SETUP packet); start_position is within the data, counted in stream words as the port is",
    "the serializer's data array is held constant from start to done",
    "big-endian generators: the bytes of a word are read from the highest valid byte lane down",
]

DONE_BOUND = 4          # 'done' must follow the last accepted word within this many cycles


def const_data(length, salt):
    """Deterministic, position-revealing constant (all bytes distinct mod 251 neighbours)."""
    return bytes(((i * 37 + salt * 101 + 13) % 251) + 1 for i in range(length))


# (length in bytes, data width, endianness, max_length_width)
GEN_CONFIGS = (
    [(n, 8, "little", 16) for n in (1, 2, 3, 5, 8, 18, 64, 70)] +
    [(n, 8, "little", None) for n in (1, 2, 9, 33)] +
    [(13, 8, "little", 3), (40, 8, "little", 5), (6, 8, "big", 16)] +
    [(n, 32, "little", 16) for n in (1, 2, 3, 4, 5, 7, 8, 9, 12, 18, 43, 70)] +
    [(n, 32, "little", None) for n in (3, 4, 10, 16)] +
    [(22, 32, "little", 4), (11, 32, "little", 3)] +
    [(n, 32, "big", 16) for n in (4, 7, 12, 21)] + [(9, 32, "big", None)]
)

# (data_length, data_width, max_length_width)
SER_CONFIGS = [(1, 8, 4), (2, 8, 2), (2, 8, None), (3, 8, 4), (5, 8, 3), (8, 8, 4), (8, 8, None), (6, 16, 8), (13, 8, 5)]


class _Driver:
    """Closed-loop driver shared by both subs.  One case = a few runs on one DUT.

    For every run: `pre` idle cycles with garbage on start_position/max_length, one start cycle applying
    (sp, ml[, data]), then the consumer's cyclic ready pattern until 'done' is seen (or, for ml == 0, for 6
    cycles), with `last_stall` extra not-ready cycles inserted when the word flagged last is first presented."""

    def __init__(self, runs, has_ml, extra_start=None, timeout=600):
        self.runs = runs
        self.has_ml = has_ml
        self.extra_start = extra_start or (lambda run: {})
        self.timeout = timeout
        self.log = []               # per cycle: dict(run=index|None, phase, start, ready)
        self.ri = 0
        self.phase = "pre"
        self.count = 0
        self.rp = 0                 # position in ready pattern
        self.stall_left = 0
        self.timed_out = False

    def _ready(self, run):
        pat = run["ready"]
        r = pat[self.rp % len(pat)]
        self.rp += 1
        return r

    def step(self, t, prev):
        if self.ri >= len(self.runs):
            return None
        run = self.runs[self.ri]
        if self.phase == "pre":
            if self.count < run["pre"]:
                self.count += 1
                upd = dict(start=0, sp=run["junk_sp"], ready=self._ready(run))
                if self.has_ml:
                    upd["ml"] = run["junk_ml"]
                self.log.append(dict(run=self.ri, phase="pre", start=0, ready=upd["ready"]))
                return upd
            self.phase = "start"
        if self.phase == "start":
            upd = dict(start=1, sp=run["sp"], ready=self._ready(run))
            if self.has_ml:
                upd["ml"] = run["ml"]
            upd.update(self.extra_start(run))
            self.log.append(dict(run=self.ri, phase="start", start=1, ready=upd["ready"]))
            self.phase = "stream"
            self.count = 0
            self.stall_left = run["last_stall"]
            return upd
        # streaming / waiting for done
        finished = prev.done or self.count >= self.timeout or (self.has_ml and run["ml"] == 0 and self.count >= 6)
        if self.count >= self.timeout:
            self.timed_out = True
        if finished:
            self.ri += 1
            self.phase = "pre"
            self.count = 0
            self.rp = 0
            return self.step(t, prev) if self.ri < len(self.runs) else None
        self.count += 1
        ready = self._ready(run)
        if prev.valid and prev.last and self.stall_left > 0:
            self.stall_left -= 1
            ready = 0
        self.log.append(dict(run=self.ri, phase="stream", start=0, ready=ready))
        return dict(start=0, ready=ready)


def _run_strategy(max_words, max_ml, has_ml, extra=None):
    """One run: start position (words), max length, consumer pattern."""
    ready = st.one_of(st.just([1]), st.lists(weighted([(1, 3), (0, 1)]), min_size=0, max_size=11).map(lambda l: l + [1]),
                      st.lists(weighted([(0, 3), (1, 1)]), min_size=2, max_size=5).map(lambda l: l + [1]))
    d = dict(
        pre=weighted([(0, 3), (1, 2), (2, 1), (5, 1)]),
        sp=st.integers(0, max_words - 1),
        ml=st.integers(0, max_ml) if has_ml else st.just(0),
        junk_sp=st.integers(0, max_words - 1),
        junk_ml=st.integers(0, max_ml) if has_ml else st.just(0),
        ready=ready,
        last_stall=weighted([(0, 2), (1, 1), (3, 1)]),
    )
    if extra:
        d.update(extra)
    return st.fixed_dictionaries(d)


def _show(chunk):
    return chunk.hex() if isinstance(chunk, bytes) else hex(chunk[0])


def judge(trace, log, runs, expect, bpw, big, has_ml, what):
    """expect(run) -> (list of expected byte chunks per word, expected output_length or None)."""
    labels = set()
    nontrivial = False
    by_run = {}
    for t, (lg, o) in enumerate(zip(log, trace)):
        by_run.setdefault(lg["run"], []).append((t, lg, o))
    full = (1 << bpw) - 1
    for ri, run in enumerate(runs):
        cyc = by_run.get(ri, [])
        chunks, out_len = expect(run)
        words = []
        done_at = []
        last_accept = None
        stalled_last = False
        prev = None
        for t, lg, o in cyc:
            if lg["phase"] != "stream":
                if o.valid or o.done:
                    return fail(f"{what}: run {ri} cycle {t}: valid={o.valid:#x} done={o.done} while idle "
                                f"(before/at the start strobe)", signature="active-while-idle"), None
                prev = None
                continue
            if o.done:
                done_at.append(t)
            if prev is not None and prev[0].valid and not prev[1]:
                # previous word was offered but not accepted: must be held
                if (o.valid, o.payload, o.first, o.last) != (prev[0].valid, prev[0].payload, prev[0].first, prev[0].last):
                    return fail(f"{what}: run {ri} cycle {t}: stalled word changed from "
                                f"{(prev[0].valid, hex(prev[0].payload), prev[0].first, prev[0].last)} to "
                                f"{(o.valid, hex(o.payload), o.first, o.last)}", signature="word-not-held"), None
            if o.valid:
                if out_len is not None and o.output_length != out_len:
                    return fail(f"{what}: run {ri} cycle {t}: output_length {o.output_length} expected {out_len} "
                                f"(max_length {run['ml']})", signature="output-length"), None
                if o.last and not lg["ready"]:
                    stalled_last = True
                if lg["ready"]:
                    words.append((t, o.valid, o.payload, o.first, o.last))
                    last_accept = t
            prev = (o, lg["ready"])
        # ---- compare words
        if len(words) != len(chunks):
            got = [(hex(w[2]), bin(w[1])) for w in words]
            sig = "emits-with-zero-max-length" if (has_ml and run["ml"] == 0) else "word-count"
            return fail(f"{what}: run {ri} (sp={run['sp']} ml={run['ml'] if has_ml else None}): expected "
                        f"{len(chunks)} words {[_show(c) for c in chunks]}, accepted {len(words)}: {got}",
                        signature=sig), None
        for i, ((t, valid, payload, first, last), chunk) in enumerate(zip(words, chunks)):
            n = len(chunk)
            if bpw == 1 or n == bpw:
                exp_valid = full if bpw > 1 else 1
            else:
                exp_valid = None
            lanes = [(payload >> (8 * k)) & 0xFF for k in range(bpw)] if bpw > 1 else None
            if bpw == 1:
                ok_data = valid == 1 and payload == chunk[0]
            elif isinstance(chunk, tuple):          # non-byte words (serializer with wide data)
                ok_data = valid == 1 and payload == chunk[0]
            else:
                vl = [k for k in range(bpw) if (valid >> k) & 1]
                if len(vl) != n:
                    return fail(f"{what}: run {ri} word {i} cycle {t}: valid mask {valid:#06b} covers {len(vl)} "
                                f"bytes, {n} expected (sp={run['sp']} ml={run['ml'] if has_ml else None})",
                                signature="valid-mask-count" + ("-big-endian" if big else "")), None
                if not big:
                    ok_data = valid == (1 << n) - 1 and bytes(lanes[:n]) == chunk
                else:
                    got = bytes(lanes[k] for k in sorted(vl, reverse=True))
                    ok_data = got == chunk and vl == list(range(vl[0], vl[0] + n))
            if not ok_data:
                sig = "word-data"
                if big and n != bpw:
                    sig = "big-endian-partial-word"
                return fail(f"{what}: run {ri} word {i} cycle {t}: payload {payload:#x} valid {valid:#b}, expected "
                            f"bytes {_show(chunk)} (sp={run['sp']} "
                            f"ml={run['ml'] if has_ml else None})", signature=sig), None
            if first != int(i == 0):
                return fail(f"{what}: run {ri} word {i} cycle {t}: first={first}", signature="first-flag"), None
            if last != int(i == len(chunks) - 1):
                return fail(f"{what}: run {ri} word {i}/{len(chunks)} cycle {t}: last={last} (sp={run['sp']} "
                            f"ml={run['ml'] if has_ml else None})", signature="last-flag"), None
        # ---- done
        if chunks:
            if len(done_at) != 1 or not (last_accept < done_at[0] <= last_accept + DONE_BOUND):
                return fail(f"{what}: run {ri}: last word accepted in cycle {last_accept}, done high in cycles "
                            f"{done_at} (expected exactly one pulse within {DONE_BOUND} cycles after)",
                            signature="done-pulse"), None
            for t, lg, o in cyc:
                if lg["phase"] == "stream" and t > last_accept and o.valid:
                    return fail(f"{what}: run {ri} cycle {t}: valid after the last word", signature="valid-after-last"), None
        # ---- classification
        total = expect.total(run)
        if run["sp"] > 0:
            labels.add("sp>0")
        if has_ml and run["ml"] == 0:
            labels.add("ml=0")
        truncated = has_ml and 0 < run["ml"] < total
        if truncated:
            labels.add("ml-truncates")
            if bpw > 1 and run["ml"] % bpw:
                labels.add("ml-partial-word")
        if bpw > 1 and chunks and len(chunks[-1]) != bpw and not truncated:
            labels.add("data-partial-word")
        if stalled_last:
            labels.add("stall-on-last")
        if ri > 0 and run["pre"] == 0:
            labels.add("immediate-restart")
        if len(chunks) == 1:
            labels.add("single-word")
        if (run["sp"] > 0 or truncated) and stalled_last:
            nontrivial = True
    return None, (nontrivial, labels)


class GeneratorSub(Sub):
    name = "constant-generator"
    budget = {"quick": 12000, "thorough": 170000}
    rule = ("ConstantStreamGenerator over 30 (length, 8/32-bit, little/big endian, max_length_width 16/narrow) "
            "configurations; a case = 1..3 start requests (start word, max_length 0..len+10, garbage on the ports while "
            "idle, consumer ready pattern, extra stall on the last word, immediate restarts); oracle: accepted words, "
            "per-byte valid mask, first/last, stall-stability, one done pulse, output_length, computed from the "
            "constant bytes; non-trivial = a run with (start>0 or max_length truncating) AND a stall on the last word")

    cfg_ids = [i for i, c in enumerate(GEN_CONFIGS) if c[3]]

    def setup(self):
        self.h = {}

    def harness(self, ci):
        if ci not in self.h:
            from luna.gateware.stream.generator import ConstantStreamGenerator
            from luna.gateware.usb.stream import SuperSpeedStreamInterface
            n, width, endian, mlw = GEN_CONFIGS[ci]
            kw = dict(max_length_width=mlw, data_endianness=endian)
            if width == 32:
                kw["stream_type"] = SuperSpeedStreamInterface
            dut = ConstantStreamGenerator(const_data(n, ci), **kw)
            s = dut.stream
            ins = dict(start=dut.start, sp=dut.start_position, ready=s.ready)
            outs = dict(valid=s.valid, payload=s.payload, first=s.first, last=s.last, done=dut.done)
            if mlw:
                ins["ml"] = dut.max_length
                outs["output_length"] = dut.output_length
            else:
                outs["output_length"] = dut.done       # placeholder, never compared
            self.h[ci] = CycleHarness(dut, ins, outs)
        return self.h[ci]

    def strategy(self):
        def for_cfg(ci):
            n, width, endian, mlw = GEN_CONFIGS[ci]
            bpw = width // 8
            words = -(-n // bpw)
            max_ml = min(n + 10, (1 << mlw) - 1) if mlw else 0
            return st.fixed_dictionaries(dict(cfg=st.just(ci),
                                              runs=st.lists(_run_strategy(words, max_ml, bool(mlw)), min_size=1, max_size=3)))
        return st.sampled_from(self.cfg_ids).flatmap(for_cfg)

    def run(self, case):
        ci = case["cfg"]
        n, width, endian, mlw = GEN_CONFIGS[ci]
        bpw = width // 8
        data = const_data(n, ci)
        runs = case["runs"]
        drv = _Driver(runs, bool(mlw))
        what = f"cfg {ci} (len={n} width={width} {endian} mlw={mlw})"
        if not mlw:
            try:
                h = self.harness(ci)
            except AttributeError as e:
                if "'int' object has no attribute 'eq'" not in str(e):
                    raise
                return fail(f"{what}: ConstantStreamGenerator(max_length_width=None) — the constructor's default — "
                            f"cannot be elaborated: {e!r} (bytes_sent/max_length are plain ints there but are "
                            f"assigned with .eq in the IDLE state)", signature="no-max-length-width-elaboration-crash")
        trace = self.harness(ci).run_driver(drv, max_cycles=3 * 700)

        def expect(run):
            e = data[bpw * run["sp"]:]
            if mlw:
                e = e[:run["ml"]]
            chunks = [e[i:i + bpw] for i in range(0, len(e), bpw)]
            return chunks, (min(run["ml"], n) if mlw else None)
        expect.total = lambda run: len(data[bpw * run["sp"]:])
        if drv.timed_out:
            return fail(f"{what}: no 'done' within {drv.timeout} cycles of a start with non-zero max_length",
                        signature="no-done")
        bad, info = judge(trace, drv.log, runs, expect, bpw, endian == "big", bool(mlw), what)
        if bad:
            return bad
        nt, labels = info
        labels |= {f"w{width}-{endian}", "mlw" if mlw else "no-mlw"}
        return Result(ok=True, nontrivial=nt, labels=tuple(sorted(labels)))


class GeneratorNoMaxLenSub(GeneratorSub):
    name = "constant-generator-no-maxlen"
    budget = {"quick": 1500, "thorough": 20000}
    rule = ("same generator and oracle as constant-generator on the 9 configurations built WITHOUT max_length_width (the "
            "constructor default): the whole data from the start position must be emitted; kept as a separate sub so "
            "that a failure to elaborate this configuration has its own signature; non-trivial = start>0 AND a stall on "
            "the last word")
    cfg_ids = [i for i, c in enumerate(GEN_CONFIGS) if not c[3]]


class SerializerSub(Sub):
    name = "serializer"
    budget = {"quick": 4000, "thorough": 50000}
    rule = ("StreamSerializer over 9 (data_length 1..13, data width 8/16, max_length_width none/2..8) configurations; "
            "a case = 1..3 start requests each with fresh runtime data, start position, max_length, ready pattern and "
            "last-word stall; same oracle as the generator (no output_length port); non-trivial as for the generator")

    def setup(self):
        self.h = {}

    def harness(self, ci):
        if ci not in self.h:
            from luna.gateware.stream.generator import StreamSerializer
            n, width, mlw = SER_CONFIGS[ci]
            dut = StreamSerializer(data_length=n, data_width=width, max_length_width=mlw)
            s = dut.stream
            ins = dict(start=dut.start, sp=dut.start_position, ready=s.ready)
            for i in range(n):
                ins[f"d{i}"] = dut.data[i]
            if mlw:
                ins["ml"] = dut.max_length
            outs = dict(valid=s.valid, payload=s.payload, first=s.first, last=s.last, done=dut.done,
                        output_length=dut.done)
            self.h[ci] = CycleHarness(dut, ins, outs)
        return self.h[ci]

    def strategy(self):
        def for_cfg(ci):
            n, width, mlw = SER_CONFIGS[ci]
            max_ml = min(n + 3, (1 << mlw) - 1) if mlw else 0
            extra = dict(data=st.lists(st.integers(0, (1 << width) - 1), min_size=n, max_size=n))
            return st.fixed_dictionaries(dict(cfg=st.just(ci),
                                              runs=st.lists(_run_strategy(n, max_ml, bool(mlw), extra), min_size=1, max_size=3)))
        return st.integers(0, len(SER_CONFIGS) - 1).flatmap(for_cfg)

    def run(self, case):
        ci = case["cfg"]
        n, width, mlw = SER_CONFIGS[ci]
        runs = case["runs"]
        drv = _Driver(runs, bool(mlw), extra_start=lambda run: {f"d{i}": v for i, v in enumerate(run["data"])})
        trace = self.harness(ci).run_driver(drv, max_cycles=3 * 700)

        def expect(run):
            e = run["data"][run["sp"]:]
            if mlw:
                e = e[:run["ml"]]
            if width == 8:
                return [bytes([v]) for v in e], None
            return [(v,) for v in e], None
        expect.total = lambda run: n - run["sp"]
        what = f"serializer cfg {ci} (len={n} width={width} mlw={mlw})"
        if drv.timed_out:
            return fail(f"{what}: no 'done' within {drv.timeout} cycles", signature="no-done")
        bad, info = judge(trace, drv.log, runs, expect, 1, False, bool(mlw), what)
        if bad:
            return bad
        nt, labels = info
        labels |= {f"len{n}", "mlw" if mlw else "no-mlw"}
        return Result(ok=True, nontrivial=nt, labels=tuple(sorted(labels)))


SUBS = [GeneratorSub(), GeneratorNoMaxLenSub(), SerializerSub()]
