"""C08 — address and configuration change only when their request completes (full USBDevice, host BFM)."""
from hypothesis import strategies as st

from lunaverif.core import Sub, Result, fail
from lunaverif.gen import long_lists, weighted
from lunaverif.bfm import g9_usb2host as H
from lunaverif.bfm import g9_hostgen as G
from lunaverif.ref import g9_device_model as M

PROPERTY = "C08"
ASSUMPTIONS = [
    "full-speed device on a bare UTMI bus; transactions of the host with OTHER devices on the same bus are generated "
    "as a device behind a hub sees them (IN token for a foreign address, idle bus while that device answers "
    "upstream, the host's ACK; OUT/SETUP token + data for a foreign address)",
    "other-device ACKs are generated everywhere, also after an un-acknowledged status-stage ZLP of this device's "
    "SET_ADDRESS / SET_CONFIGURATION (a known finding with its own signature, see KNOWN_SHAPE); the judged history "
    "ends at the first such event (later divergence is attributed to it)",
    "the host does not ACK another device's data while an un-acknowledged data packet of another IN endpoint of "
    "this device (or of an endpoint-0 data stage) may be outstanding: a handshake carries no address and tokens "
    "for other addresses are filtered out, so every IN endpoint takes that ACK (C11 / C17 own that and assume the "
    "same)",
    "a bus reset is SE0 on line_state for >= 305 cycles (the sequencer fires after 300); SE0 of <= 40 cycles must "
    "not reset; lengths in between are not generated",
    "nothing is assumed about data toggles across a bus reset (the first packet after one may carry either PID)",
    "SET_ADDRESS / SET_CONFIGURATION only in their valid form (device recipient, wLength 0, wValue < 0x10000 / < 256)",
    "host packets well formed; the host ACKs only good data; lost host ACKs are followed by a retry or a new SETUP",
]

IN_ONLY = G.foreign_table(outs=False, pings=False)
ADDR_VALUES = st.one_of(st.integers(0, 127), st.sampled_from([1, 0x15, 0x7F, 0x2A]), st.sampled_from([0x95, 0x180, 0xFF7F]))
CFG_VALUES = st.one_of(st.integers(0, 255), st.sampled_from([0, 1, 2]))


def set_request():
    return st.one_of(ADDR_VALUES.map(lambda a: [0, 5, a, 0, 0]), CFG_VALUES.map(lambda c: [0, 9, c, 0, 0]))


def xdev_table():
    """Transactions of the host with another device on the bus (address = ours XOR k)."""
    t = []
    for k in (1, 0x40, 0x2A, 0x7F):
        for ep in (0, 1, 3):
            t += [dict(k="xdev", dir="in", ep=ep, xor=k, ack=1, n=n) for n in (0, 7, 30)]
        t += [dict(k="xdev", dir="in", ep=1, xor=k, ack=0, n=0),
              dict(k="xdev", dir="out", ep=2, xor=k, n=3), dict(k="xdev", dir="out", ep=0, xor=k, n=0),
              dict(k="xdev", dir="setup", ep=0, xor=k, req=[0, 5, 0x31 ^ k, 0, 0]),
              dict(k="xdev", dir="setup", ep=0, xor=k, req=[0, 9, 1 + (k & 3), 0, 0])]
    return t


XDEV = xdev_table()


def mid_items():
    probes = [dict(k="probe", addr="dev", ack=1), dict(k="probe", addr="dev", ack=0), dict(k="probe", addr="pending", ack=1)]
    return st.one_of(st.sampled_from(IN_ONLY + probes * 3), st.sampled_from(XDEV))


def ctrl_set():
    return st.fixed_dictionaries(dict(
        k=st.just("ctrl"), req=set_request(),
        cut=weighted([(0, 5), (1, 2), (2, 2)]),
        noack=weighted([(0, 3), (1, 2)]),
        mid=long_lists(st.tuples(st.integers(0, 2), mid_items()).map(list), max_size=4, average=1.5),
        reset_at=weighted([(None, 12), (0, 1), (1, 1)]),
        # with a lost status ACK: an other-device transaction right after the un-ACKed status ZLP (before the retry)
        late=st.one_of(*[st.none()] * 8, st.sampled_from(XDEV)),
    ))


def ctrl_done():
    """A SET_* request that simply succeeds (what makes a later request of the same kind the 2nd, 3rd .. one)."""
    return set_request().map(lambda r: dict(k="ctrl", req=r, cut=0, noack=0, mid=[], reset_at=None))


def ctrl_observe():
    return st.sampled_from([
        dict(k="ctrl", req=[0x80, 8, 0, 0, 1], cut=0, noack=0, mid=[]),
        dict(k="ctrl", req=[0x80, 8, 0, 0, 1], cut=0, noack=1, mid=[]),
        dict(k="ctrl", req=[0x80, 6, 0x0100, 0, 18], cut=0, noack=0, mid=[]),
        dict(k="ctrl", req=[0x80, 6, 0x0100, 0, 8], cut=1, noack=0, mid=[]),
    ])


# True (development only) / case field "xdev_unrestricted": other-device ACKs are left wherever the strategy put them
# (the assumption about un-acknowledged data of other IN endpoints is not applied).
XDEV_UNRESTRICTED = False

# Known finding: the status-stage ZLP of a pending SET_ADDRESS / SET_CONFIGURATION has been transmitted and not ACKed,
# no token has been addressed to this device since, and the host ACKs ANOTHER DEVICE's data: LUNA takes that ACK (it
# accepts an ACK arbitrarily long after its data packet) and commits the request.
KNOWN_SHAPE = "other-device-ack-after-unacked-status-zlp-commits"


def request_facts(run):
    """Was a SET_ADDRESS / SET_CONFIGURATION pending (SETUP seen, status ZLP not yet acknowledged) when the host
    ACKed data of another endpoint of this device / data of another device; was an earlier transfer abandoned;
    index (in run.txns) of the first KNOWN_SHAPE event: an other-device ACK while the pending request's status ZLP
    was the last thing exchanged with this device and had not been ACKed."""
    pending = False
    open_transfer = False
    zlp_unacked = False
    f = dict(foreign_ack_while_pending=False, other_device_ack_while_pending=False, abandoned_before=False,
             other_device_ack=False, known_event=None)
    for n, t in enumerate(run.txns):
        if t.get("ctx", "").startswith("token for address"):
            if t.get("xack"):
                f["other_device_ack"] = True
                if pending and zlp_unacked:
                    if f["known_event"] is None:
                        f["known_event"] = n
                elif pending:
                    f["other_device_ack_while_pending"] = True
            continue
        if t["kind"] == "sof":
            continue
        # a token addressed to this device: whatever was un-acknowledged before is no longer the last exchange
        zlp_unacked = False
        if t["kind"] == "setup":
            if open_transfer:
                f["abandoned_before"] = True
            open_transfer = True
            pending = M.classify_request(tuple(t["req"]), {}, False)["kind"] == "nodata"
        elif t["ep"] == 0:
            if t is run.txns[-1] and run.violation is not None:
                break
            zlp = t["kind"] == "in" and t["resp"][0] == "data" and not t["resp"][2]
            if zlp and t["ack"] and pending:
                pending = open_transfer = False
            elif zlp and pending:
                zlp_unacked = True
            elif (t["kind"] == "out" and t["resp"] == M.ACK) or t["resp"] == M.STALL:
                open_transfer = False
        elif t["ack"] and pending:
            f["foreign_ack_while_pending"] = True
    return f


class AddressConfig(Sub):
    name = "commit"
    budget = {"quick": 1500, "thorough": 30000}
    shrink_budget = 250
    rule = ("host programs of SET_ADDRESS / SET_CONFIGURATION requests (any 7-bit address incl. wValue > 127, any "
            "configuration value) each complete, abandoned after SETUP or after an un-ACKed status ZLP, with a lost "
            "status ACK + retry, with IN transactions on endpoints 1/3/4 (ACKed by the host or not) and address probes "
            "between SETUP and status, bus resets (SE0 >= 305 cycles) between or inside transfers and short SE0 "
            "glitches; after every step a probe IN to the status endpoint at the model's address must be answered and "
            "one at another (pending / previous) address must time out; GET_CONFIGURATION reads back the "
            "configuration; oracle = independent device model committing exactly at the host's ACK of that "
            "request's status ZLP; non-trivial = a host ACK of another endpoint's data lies between the SETUP and "
            "the status stage of a SET_* request. Transactions of the host with other devices on the bus (IN token "
            "at address XOR k + the host's ACK of that device's data, OUT / SETUP + data incl. that device's own "
            "SET_ADDRESS / SET_CONFIGURATION) are mixed in between the transfers and between the stages of a "
            "transfer, also of the 2nd, 3rd .. request of the same kind; such an ACK counts as non-trivial like "
            "another endpoint's ACK. An other-device ACK that arrives while the pending request's status ZLP has "
            "been sent, not ACKed and no token addressed to this device since, is a known finding: the judged "
            "history ends there (a later divergence gets the signature other-device-ack-after-unacked-status-zlp-"
            "commits, any divergence before it keeps its own signature)")

    def setup(self):
        self.rig = H.rig("full")

    def strategy(self):
        top = st.one_of(
            ctrl_set(), ctrl_set(), ctrl_set(), ctrl_done(), ctrl_done(), ctrl_observe(),
            st.sampled_from(IN_ONLY), st.sampled_from(XDEV),
            st.sampled_from([dict(k="reset", n=320), dict(k="reset", n=320), dict(k="reset", n=700), dict(k="reset", n=3),
                             dict(k="reset", n=30)]),
        )
        return st.fixed_dictionaries(dict(items=long_lists(top, min_size=1, max_size=9, average=5),
                                          probe_ack=st.lists(st.integers(0, 1), min_size=1, max_size=6),
                                          **G.env_fields()))

    def build(self, case):
        b = G.Builder(self.rig.descriptors)
        pending = 0x55          # most recently requested address (committed or not)
        previous = 0x2B
        pa = case["probe_ack"]
        k = 0

        def fix(it):
            # resolve "pending" probe addresses inside transfers
            if it.get("k") == "probe" and it.get("addr") == "pending":
                return dict(it, addr=pending)
            return it

        for it in case["items"]:
            if it["k"] == "ctrl":
                if it["req"][1] == 5:
                    previous, pending = pending, it["req"][2] & 0x7F
                it = dict(it, mid=[[p, fix(f)] for p, f in it.get("mid", [])])
                if it.get("late") and it.get("noack"):
                    it["mid"] = [[1, it["late"]]] + it["mid"]
            if any(f.get("k") == "xdev" and f.get("ack") for f in [it] + [f for _, f in it.get("mid") or []]):
                # the host is about to ACK another device's data: no IN data of the probe endpoint is left un-ACKed
                # (see ASSUMPTIONS) -- settled BEFORE the transfer so that nothing separates its stages from that ACK
                b.item(dict(k="probe", addr="dev", ack=1))
            b.item(it)
            # after every step: the device answers at the model's address ...
            b.item(dict(k="probe", addr="dev", ack=pa[k % len(pa)]))
            k += 1
            # ... and nowhere else (the pending / previous address is the interesting wrong one)
            b.item(dict(k="probe", addr=pending if k % 2 else previous, ack=pa[k % len(pa)]))
        b.item(dict(k="ctrl", req=[0x80, 8, 0, 0, 1], cut=0, noack=0, mid=[]))
        if not (XDEV_UNRESTRICTED or case.get("xdev_unrestricted")):
            # input assumption (see ASSUMPTIONS): no host ACK for another device while a data packet of another IN
            # endpoint of this device / of an endpoint-0 data stage may be awaiting its ACK (the IN endpoints'
            # business: C11 / C17 make the same assumption).  A status-stage ZLP is NOT part of this: an other-device
            # ACK after an un-ACKed status ZLP is generated (KNOWN_SHAPE).
            unacked = set()
            for op in b.prog:
                if op.get("xdev"):
                    if unacked and op.get("xack"):
                        op["xack"] = 0
                elif op["op"] in ("in", "out", "setup", "ping"):
                    # (a probe at an explicit address may or may not hit this device: it can leave a packet
                    # un-acknowledged but is not relied upon to settle one)
                    dev = op.get("addr", "dev") == "dev"
                    if dev:
                        unacked.discard(0)
                    if op["op"] == "in":
                        if not op.get("ack", 1):
                            if not (op.get("ep") == 0 and op.get("stage") == "status"):
                                unacked.add(op["ep"])
                        elif dev:
                            unacked.discard(op["ep"])
        return b

    def run(self, case):
        b = self.build(case)
        run = H.execute("full", b.prog, **G.env_of(case))
        facts = request_facts(run)
        if run.violation is not None:
            v = run.violation
            sig = G.response_signature(v)
            if facts["known_event"] is not None:
                # everything up to the event was judged and held; from the event on model and device may differ
                # because of the known finding, so the rest of the history is attributed to it
                sig = KNOWN_SHAPE
            elif v["cls"] == "response" and facts["foreign_ack_while_pending"]:
                sig = "foreign-ack-completes-pending-request"
            elif v["cls"] == "response" and facts["other_device_ack_while_pending"]:
                sig = "other-device-ack-completes-pending-request"
            elif v["cls"] == "response" and facts["abandoned_before"] and v["txn"]["ep"] == 0 and v["txn"]["kind"] != "setup":
                sig = "stale-request-state-after-abandoned-transfer"
            return fail(v["msg"] + f"  [model address {run.model.addr:#x}, configuration {run.model.config}]", signature=sig)
        labels = set()
        for name, detail in run.model.events:
            labels.add(name + "-committed" if name != "bus_reset" else "bus-reset")
        for tr in b.transfers:
            if tr["name"] in ("set_address", "set_configuration"):
                if tr.get("reset_inside"):
                    labels.add("reset-inside-transfer")
                elif tr["abandoned"]:
                    labels.add("abandoned-" + tr["name"] + "-after-" + tr["stages"][-1])
                if tr["lost"] and not tr["abandoned"]:
                    labels.add("lost-status-ack-then-retry")
                if tr["req"][2] > 127 and tr["name"] == "set_address":
                    labels.add("wValue>127")
        silent = sum(1 for t in run.txns if t.get("ctx", "").startswith("token for address"))
        if silent:
            labels.add("probe-at-wrong-address")
        if facts["foreign_ack_while_pending"]:
            labels.add("foreign-ack-while-pending")
        if facts["other_device_ack"]:
            labels.add("other-device-ack")
        if facts["known_event"] is not None:
            labels.add("other-device-ack-after-unacked-status-zlp-without-visible-effect")
        if facts["other_device_ack_while_pending"]:
            labels.add("other-device-ack-while-pending")
            done = {"set_address": 0, "set_configuration": 0}
            for tr in b.transfers:
                if tr["name"] in done:
                    if done[tr["name"]] and any(o.get("xack") for o in b.prog[tr["first"]:tr["last"] + 1]):
                        labels.add("other-device-ack-inside-repeated-" + tr["name"])
                    if not tr["abandoned"]:
                        done[tr["name"]] += 1
        return Result(ok=True, nontrivial=facts["foreign_ack_while_pending"] or facts["other_device_ack_while_pending"],
                      labels=tuple(sorted(labels)))


SUBS = [AddressConfig()]
