"""C08 — address and configuration change only when their request completes (full USBDevice, host BFM)."""
from hypothesis import strategies as st

from lunaverif.core import Sub, Result, fail
from lunaverif.gen import long_lists, weighted
from lunaverif.bfm import g9_usb2host as H
from lunaverif.bfm import g9_hostgen as G
from lunaverif.ref import g9_device_model as M

PROPERTY = "C08"
ASSUMPTIONS = [
    "full-speed device on a bare UTMI bus; one device on the bus (host ACKs addressed to other devices are not "
    "generated)",
    "a bus reset is SE0 on line_state for >= 305 cycles (the sequencer fires after 300); SE0 of <= 40 cycles must "
    "not reset; lengths in between are not generated",
    "nothing is assumed about data toggles across a bus reset (the first packet after one may carry either PID)",
    "SET_ADDRESS / SET_CONFIGURATION only in their valid form (device recipient, wLength 0, wValue < 0x10000 / < 256)",
    "host packets well formed; the host ACKs only good data; lost host ACKs are followed by a retry or a new SETUP",
]

IN_ONLY = G.foreign_table(outs=False, pings=False)
ADDR_VALUES = st.one_of(st.integers(0, 127), st.sampled_from([1, 0x15, 0x7F, 0x2A]), st.sampled_from([0x95, 0x180, 0xFF7F]))
CFG_VALUES = st.one_of(st.integers(0, 255), st.sampled_from([0, 1, 2]))


def set_request():
    return st.one_of(ADDR_VALUES.map(lambda a: [0, 5, a, 0, 0]), CFG_VALUES.map(lambda c: [0, 9, c, 0, 0]))


def mid_items():
    probes = [dict(k="probe", addr="dev", ack=1), dict(k="probe", addr="dev", ack=0), dict(k="probe", addr="pending", ack=1)]
    return st.sampled_from(IN_ONLY + probes * 3)


def ctrl_set():
    return st.fixed_dictionaries(dict(
        k=st.just("ctrl"), req=set_request(),
        cut=weighted([(0, 5), (1, 2), (2, 2)]),
        noack=weighted([(0, 3), (1, 2)]),
        mid=long_lists(st.tuples(st.integers(0, 2), mid_items()).map(list), max_size=4, average=1.5),
        reset_at=weighted([(None, 12), (0, 1), (1, 1)]),
    ))


def ctrl_observe():
    return st.sampled_from([
        dict(k="ctrl", req=[0x80, 8, 0, 0, 1], cut=0, noack=0, mid=[]),
        dict(k="ctrl", req=[0x80, 8, 0, 0, 1], cut=0, noack=1, mid=[]),
        dict(k="ctrl", req=[0x80, 6, 0x0100, 0, 18], cut=0, noack=0, mid=[]),
        dict(k="ctrl", req=[0x80, 6, 0x0100, 0, 8], cut=1, noack=0, mid=[]),
    ])


class AddressConfig(Sub):
    name = "commit"
    budget = {"quick": 1500, "thorough": 30000}
    shrink_budget = 250
    rule = ("host programs of SET_ADDRESS / SET_CONFIGURATION requests (any 7-bit address incl. wValue > 127, any "
            "configuration value) each complete, abandoned after SETUP or after an un-ACKed status ZLP, with a lost "
            "status ACK + retry, with IN transactions on endpoints 1/3/4 (ACKed by the host or not) and address probes "
            "between SETUP and status, bus resets (SE0 >= 305 cycles) between or inside transfers and short SE0 "
            "glitches; after every step a probe IN to the status endpoint at the model's address must be answered and "
            "one at another (pending / previous) address must time out; GET_CONFIGURATION reads back the "
            "configuration; oracle = independent device model committing exactly at the host's ACK of that "
            "request's status ZLP; non-trivial = a host ACK of another endpoint's data lies between the SETUP and "
            "the status stage of a SET_* request")

    def setup(self):
        self.rig = H.rig("full")

    def strategy(self):
        top = st.one_of(
            ctrl_set(), ctrl_set(), ctrl_set(), ctrl_observe(),
            st.sampled_from(IN_ONLY),
            st.sampled_from([dict(k="reset", n=320), dict(k="reset", n=320), dict(k="reset", n=700), dict(k="reset", n=3),
                             dict(k="reset", n=30)]),
        )
        return st.fixed_dictionaries(dict(items=long_lists(top, min_size=1, max_size=9, average=5),
                                          probe_ack=st.lists(st.integers(0, 1), min_size=1, max_size=6),
                                          **G.env_fields()))

    def build(self, case):
        b = G.Builder(self.rig.descriptors)
        pending = 0x55          # most recently requested address (committed or not)
        previous = 0x2B
        pa = case["probe_ack"]
        k = 0

        def fix(it):
            # resolve "pending" probe addresses inside transfers
            if it.get("k") == "probe" and it.get("addr") == "pending":
                return dict(it, addr=pending)
            return it

        for it in case["items"]:
            if it["k"] == "ctrl":
                if it["req"][1] == 5:
                    previous, pending = pending, it["req"][2] & 0x7F
                it = dict(it, mid=[[p, fix(f)] for p, f in it.get("mid", [])])
            b.item(it)
            # after every step: the device answers at the model's address ...
            b.item(dict(k="probe", addr="dev", ack=pa[k % len(pa)]))
            k += 1
            # ... and nowhere else (the pending / previous address is the interesting wrong one)
            b.item(dict(k="probe", addr=pending if k % 2 else previous, ack=pa[k % len(pa)]))
        b.item(dict(k="ctrl", req=[0x80, 8, 0, 0, 1], cut=0, noack=0, mid=[]))
        return b

    def run(self, case):
        b = self.build(case)
        run = H.execute("full", b.prog, **G.env_of(case))
        facts = G.pending_request_facts(run, b.prog)
        if run.violation is not None:
            v = run.violation
            sig = G.response_signature(v)
            if v["cls"] == "response" and facts["foreign_ack_while_pending"]:
                sig = "foreign-ack-completes-pending-request"
            elif v["cls"] == "response" and facts["abandoned_before"] and v["txn"]["ep"] == 0 and v["txn"]["kind"] != "setup":
                sig = "stale-request-state-after-abandoned-transfer"
            return fail(v["msg"] + f"  [model address {run.model.addr:#x}, configuration {run.model.config}]", signature=sig)
        labels = set()
        for name, detail in run.model.events:
            labels.add(name + "-committed" if name != "bus_reset" else "bus-reset")
        for tr in b.transfers:
            if tr["name"] in ("set_address", "set_configuration"):
                if tr.get("reset_inside"):
                    labels.add("reset-inside-transfer")
                elif tr["abandoned"]:
                    labels.add("abandoned-" + tr["name"] + "-after-" + tr["stages"][-1])
                if tr["lost"] and not tr["abandoned"]:
                    labels.add("lost-status-ack-then-retry")
                if tr["req"][2] > 127 and tr["name"] == "set_address":
                    labels.add("wValue>127")
        silent = sum(1 for t in run.txns if t.get("ctx", "").startswith("token for address"))
        if silent:
            labels.add("probe-at-wrong-address")
        if facts["foreign_ack_while_pending"]:
            labels.add("foreign-ack-while-pending")
        return Result(ok=True, nontrivial=facts["foreign_ack_while_pending"], labels=tuple(sorted(labels)))


SUBS = [AddressConfig()]
