"""C25 — The gateware full-speed PHY encodes and decodes USB line signalling."""

from hypothesis import strategies as st

from lunaverif.core import Sub, Result, fail
from lunaverif.gen import weighted, long_lists
from lunaverif.simkit import CycleHarness
from lunaverif.ref import g6_line as line

PROPERTY = "C25"
ASSUMPTIONS = [
    "the 12 MHz 'usb' clock is the 48 MHz 'usb_io' clock divided by four inside the test bench (all four alignments "
    "of the divider against the PHY's internal bit-strobe counter are configurations); cycles are 48 MHz cycles",
    "UTMI-side inputs come from logic registered in the usb domain: they change after a usb clock edge on the basis "
    "of the outputs sampled at that edge; tx_valid is raised with the first byte, the next byte follows each sampled "
    "tx_ready, tx_valid drops after the last byte's tx_ready; tx_data is arbitrary (don't care) while tx_valid is low; "
    "pull controls change only between packets; op_mode changes only between packets in subs 'tx'/'rx'",
    "sub 'mode-switch': op_mode goes to non-driving at any usb cycle of a transmission, as USBDevice does when the "
    "application drops `connect` (USBResetSequencer enters DISCONNECT from its *_NON_RESET states regardless of the "
    "transmitter) and returns to normal no earlier than Tddis = 2.5 us = 30 usb cycles later; tx_valid is dropped "
    "0..40 usb cycles after the switch and before the return; measured on the unmodified tree: the pads are released "
    "in the same 48 MHz cycle the op_mode input changes (combinational), so no registration allowance is given",
    "the bit-stuffing run counter starts at the first data bit; packets whose first byte begins with five 1s (where "
    "counting the SYNC's final 1 as USB 2.0 7.1.9 does would give a different stuffing; no PID looks like that) "
    "are not generated",
    "line input: D+/D- switch in the same 48 MHz sample (no differential skew, no SE1), 4 samples per bit, drift "
    "modelled as one 3- or 5-sample bit at most every 100 bits (0.25 %), first slip anywhere; idle is J; >= 2 bit "
    "times of idle between packets; while the PHY drives, its own output is looped back to the line inputs",
    "packets that are not correctly encoded (sub 'rx', field 'mangle') keep SYNC, NRZI, bit timing and the SE0-SE0-J "
    "EOP and differ only in the bit stream: omitted stuffed bits, a cut after >= 1 bit, <= 3 dribble bits (USB 2.0 "
    "7.1.9.1 allows dribble behind hubs); they are followed by >= 2 bit times of idle like every packet",
    "nobody drives the line while the PHY transmits, and the PHY is not asked to transmit while a packet is arriving",
    "a single pull-down pin is expected to follow dp_pulldown/dm_pulldown when both requests agree (nothing is "
    "asserted when they differ)",
    "rx_error is judged at usb-domain clock edges inside the packet's rx_active interval (where a UTMI consumer "
    "samples it); rx_error pulses while rx_active is low are ignored",
]

# (has_pulldown, divider offset)
CONFIGS = [(pd, off) for pd in (False, True) for off in (0, 1, 2, 3)]

J = (1, 0)
SWITCH_ALLOWANCE = 0      # 48 MHz cycles between op_mode becoming non-driving and the pads having to be released
TDDIS_TICKS = 30          # 2.5 us at 12 MHz: shortest stay of USBResetSequencer's DISCONNECT state in NON_DRIVING


def make_bench(pulldown, offset):
    from amaranth import Elaboratable, Module, Signal, ClockDomain, ClockSignal
    from amaranth.hdl.rec import Record, DIR_FANIN, DIR_FANOUT
    from luna.gateware.interface.gateware_phy import GatewarePHY

    class Bench(Elaboratable):
        def __init__(self):
            pin = [('i', 1, DIR_FANIN), ('o', 1, DIR_FANOUT), ('oe', 1, DIR_FANOUT)]
            layout = [('d_p', pin), ('d_n', pin), ('pullup', [('o', 1, DIR_FANOUT)])]
            if pulldown:
                layout.append(('pulldown', [('o', 1, DIR_FANOUT)]))
            self.io = Record(layout)
            self.phy = GatewarePHY(io=self.io)
            self.div = Signal(2, init=offset)

        def elaborate(self, platform):
            m = Module()
            m.domains.usb = ClockDomain("usb", reset_less=True)
            m.d.usb_io += self.div.eq(self.div + 1)
            m.d.comb += ClockSignal("usb").eq(self.div[1])
            m.submodules.phy = self.phy
            return m

    b = Bench()
    p, io = b.phy, b.io
    ins = dict(dp_i=io.d_p.i, dn_i=io.d_n.i, tx_data=p.tx_data, tx_valid=p.tx_valid, op_mode=p.op_mode,
               term=p.term_select, dp_pd=p.dp_pulldown, dm_pd=p.dm_pulldown, xcvr=p.xcvr_select)
    outs = dict(dp_o=io.d_p.o, dn_o=io.d_n.o, dp_oe=io.d_p.oe, dn_oe=io.d_n.oe, pullup=io.pullup.o,
                tx_ready=p.tx_ready, rx_data=p.rx_data, rx_valid=p.rx_valid, rx_active=p.rx_active,
                rx_error=p.rx_error, div=b.div)
    if pulldown:
        outs["pulldown"] = io.pulldown.o
    return CycleHarness(b, ins, outs, domain="usb_io", period=2e-8)


def slips_for(nsym, spec):
    """spec = (direction -1/0/+1, first position 0..99, spacings list) -> {symbol index: +-1}"""
    d, first, gaps = spec
    if not d:
        return {}
    out = {}
    pos = first
    i = 0
    while pos < nsym - 3:                     # not inside the EOP
        out[pos] = d
        pos += 100 + (gaps[i % len(gaps)] if gaps else 0)
        i += 1
    return out


def rx_line_bits(ev):
    """Line bits between SYNC and EOP of a receive event (mangled packets: see line.mangled_bits)."""
    mg = ev.get("mangle")
    if not mg:
        return line.stuff(line.bytes_to_bits(ev["data"]), ev.get("violate"))[0]
    return line.mangled_bits(ev["data"], ev.get("violate"), mg.get("omit", ()), mg.get("trunc"), mg.get("dribble", ()))


def rx_symbols(ev):
    if not ev.get("mangle"):
        return line.encode_packet(ev["data"], ev.get("violate"))
    return line.encode_bits(rx_line_bits(ev))


class Driver:
    """Host + UTMI-side user logic.  step(t, prev): prev = outputs sampled at the 48 MHz edge ending cycle t-1."""

    def __init__(self, events, idle_data=0):
        self.events = events
        self.k = -1
        self.cur = dict(dp_i=1, dn_i=0, tx_data=idle_data, tx_valid=0, op_mode=0, term=0, dp_pd=0, dm_pd=0, xcvr=1)
        self.pending = None           # usb-domain input update applied one cycle after the usb edge
        self.queue = []               # host samples still to drive
        self.st = "next"
        self.log = []                 # per event: dict(kind, t0, t1, ...)
        self.ticks = []               # cycles t whose sample is the pre-usb-edge sample
        self.ctl = []                 # (cycle, term, dp_pd, dm_pd) control changes
        self.endwait = 0

    def step(self, t, prev):
        c = self.cur
        if self.pending is not None:
            c.update(self.pending)
            self.pending = None
        tick = prev is not None and prev.div == 1       # a usb edge has just happened; prev = what it sampled
        if tick:
            self.ticks.append(t - 1)
        # ---- line inputs
        if self.queue:
            c["dp_i"], c["dn_i"] = self.queue.pop(0)
        elif prev is not None and prev.dp_oe:
            c["dp_i"], c["dn_i"] = prev.dp_o, prev.dn_o
        else:
            c["dp_i"], c["dn_i"] = J
        # ---- event sequencing
        if self.st == "next":
            self.k += 1
            if self.k >= len(self.events):
                self.st = "end"
                self.endwait = 64
            else:
                ev = self.events[self.k]
                self.ev = ev
                if ev["kind"] == "rx":
                    sym = rx_symbols(ev)
                    samples = line.to_samples(sym, slips_for(len(sym), ev["slip"]))
                    self.queue = [J] * ev["gap"] + samples
                    self.log.append(dict(kind="rx", ev=ev, t0=t + ev["gap"], t1=t + len(self.queue)))
                    self.st = "rx"
                elif ev["kind"] == "ctl":
                    self.st = "ctl"
                else:
                    self.st = "txwait"
                    self.wait = ev["gap"]
        if self.st == "rx":
            if not self.queue:
                self.st = "next"
        elif self.st == "ctl":
            if tick:
                ev = self.ev
                self.pending = dict(term=ev["term"], dp_pd=ev["dp_pd"], dm_pd=ev["dm_pd"])
                self.ctl.append((t + 1, ev["term"], ev["dp_pd"], ev["dm_pd"]))
                self.st = "next"
        elif self.st == "txwait":
            if tick:
                if self.wait == 0:
                    ev = self.ev
                    self.idx = 0
                    self.nticks = 0
                    self.seen_oe = False
                    self.low = 0
                    self.pending = dict(tx_valid=1, tx_data=ev["data"][0], op_mode=ev["op_mode"])
                    self.log.append(dict(kind="tx", ev=ev, t0=t, t1=None, accepted=0, timeout=False, sw_t=None))
                    self.st = "tx"
                    self.age = 0
                    self.driven = 0
                else:
                    self.wait -= 1
        elif self.st == "sw":
            # the transmission was cut short by op_mode := non-driving; the producer keeps behaving (next byte after a
            # sampled tx_ready) until it drops tx_valid `drop` usb cycles later; op_mode returns to normal after `dwell`
            ev = self.ev
            rec = self.log[-1]
            sw = ev["sw"]
            if tick:
                self.swn += 1
                if c["tx_valid"] and self.pending is None:
                    if prev.tx_ready:
                        self.idx += 1
                        rec["accepted"] = self.idx
                        if self.idx >= len(ev["data"]):
                            self.pending = dict(tx_valid=0, tx_data=ev["junk"])
                        else:
                            self.pending = dict(tx_data=ev["data"][self.idx])
                    elif self.swn > sw["drop"]:
                        self.pending = dict(tx_valid=0, tx_data=ev["junk"])
                if self.swn == sw["dwell"]:
                    if c["tx_valid"] and not (self.pending and self.pending.get("tx_valid") == 0):
                        raise RuntimeError("mode switch: tx_valid still high at the end of the dwell")
                    self.pending = {**(self.pending or {}), "op_mode": 0}
                    rec["sw_t1"] = t + 1
                    self.low = 0
                    self.nticks = 0
                    self.st = "swdrain"
        elif self.st == "swdrain":
            if tick:
                self.low = self.low + 1 if not prev.dp_oe else 0
                self.nticks += 1
                if self.low >= 6 or self.nticks > 200:
                    self.log[-1]["t1"] = t
                    self.st = "next"
        elif self.st == "tx":
            ev = self.ev
            rec = self.log[-1]
            if prev.dp_oe:
                self.seen_oe = True
                self.driven += 1
            if tick and c["tx_valid"]:
                self.nticks += 1
                if prev.tx_ready:
                    self.idx += 1
                    rec["accepted"] = self.idx
                    if self.idx >= len(ev["data"]):
                        self.pending = dict(tx_valid=0, tx_data=ev["junk"])
                    else:
                        self.pending = dict(tx_data=ev["data"][self.idx])
                elif ev["op_mode"] != 0 and self.nticks >= 8 * len(ev["data"]) + 12:
                    self.pending = dict(tx_valid=0)
                elif self.nticks > 11 * len(ev["data"]) + 60:
                    rec["timeout"] = True
                    self.pending = dict(tx_valid=0)
            elif tick and not c["tx_valid"] and self.pending is None:
                # draining: wait for the driver to switch off, then a few more usb cycles
                self.low = self.low + 1 if not prev.dp_oe else 0
                self.nticks += 1
                if self.low >= 6 or self.nticks > 11 * len(ev["data"]) + 120:
                    self.pending = dict(op_mode=0)
                    rec["t1"] = t
                    self.st = "next"
            if tick and self.st == "tx":
                sw = ev.get("sw")
                if sw is not None and self.age == sw["at"]:
                    # op_mode is a usb-domain register of the reset sequencer: it changes after a usb edge like every
                    # other UTMI-side input, whatever the transmitter is doing
                    rec["sw_phase"] = ("before-drive" if not self.seen_oe else "eop" if not c["tx_valid"] or
                                       (self.pending and self.pending.get("tx_valid") == 0)
                                       else "sync" if self.driven < 32 else "data")
                    rec["sw_driving"] = bool(prev.dp_oe)
                    self.pending = {**(self.pending or {}), "op_mode": 1}
                    rec["sw_t"] = t + 1
                    self.swn = 0
                    self.st = "sw"
                self.age += 1
        elif self.st == "end":
            self.endwait -= 1
            if self.endwait <= 0:
                return None
        return dict(c)


def check(case_events, drv, trace, has_pd, cfgname):
    n = len(trace)
    ticks = [t for t in drv.ticks if t < n]
    # ---- pin-level invariants, every 48 MHz cycle
    ctl = [(0, 0, 0, 0)] + drv.ctl
    ci = 0
    inputs_mode = {}
    for rec in drv.log:
        if rec["kind"] == "tx" and rec["ev"]["op_mode"] == 1:
            inputs_mode[(rec["t0"], rec["t1"] if rec["t1"] is not None else n)] = rec
    for t, o in enumerate(trace):
        if o.dp_oe != o.dn_oe:
            return fail(f"{cfgname}: cycle {t}: d_p.oe={o.dp_oe} d_n.oe={o.dn_oe} differ", signature="oe-mismatch")
        while ci + 1 < len(ctl) and ctl[ci + 1][0] <= t:
            ci += 1
        _, term, dpp, dmp = ctl[ci]
        if o.pullup != term:
            sig = "pullup-not-term-select"
            if has_pd and o.pullup == (dpp | dmp):
                sig = "pullup-follows-pulldown-request"
            return fail(f"{cfgname}: cycle {t}: pullup.o={o.pullup} with term_select={term} (dp_pulldown={dpp} "
                        f"dm_pulldown={dmp})", signature=sig)
        if has_pd and dpp == dmp and o.pulldown != dpp:
            return fail(f"{cfgname}: cycle {t}: pulldown.o={o.pulldown} with dp_pulldown=dm_pulldown={dpp}",
                        signature="pulldown-not-driven")
    # ---- transmit events
    labels = set()
    nontrivial = False
    for rec in drv.log:
        if rec["kind"] != "tx":
            continue
        ev = rec["ev"]
        t0 = rec["t0"]
        t1 = rec["t1"] if rec["t1"] is not None else n
        what = f"{cfgname}: tx of {bytes(ev['data']).hex()} (op_mode={ev['op_mode']}, cycles {t0}..{t1})"
        on = [t for t in range(t0, t1) if trace[t].dp_oe]
        if rec.get("sw_t") is not None:
            # only the statement's clause is judged for a transmission cut short by a mode change: no drive in any
            # cycle in which the op_mode input is non-driving (the pads follow op_mode combinationally on the
            # unmodified tree: allowance SWITCH_ALLOWANCE = 0 cycles)
            a, b = rec["sw_t"] + SWITCH_ALLOWANCE, rec.get("sw_t1", n)
            bad = [t for t in range(a, min(b, n)) if trace[t].dp_oe or trace[t].dn_oe]
            if bad:
                return fail(f"{what}: op_mode switched to non-driving in cycle {rec['sw_t']} (during {rec['sw_phase']}, "
                            f"back to normal in cycle {b}) but D+/D- are driven in cycles {bad[0]}..{bad[-1]} "
                            f"({len(bad)} cycles)", signature="drives-after-switch-to-non-driving-mode")
            labels.add("switch-during-" + rec["sw_phase"])
            if rec["sw_driving"]:
                nontrivial = True
            continue
        if ev["op_mode"] == 1:
            if on:
                return fail(f"{what}: D+/D- driven in cycles {on[0]}..{on[-1]} in the UTMI non-driving mode",
                            signature="drives-in-non-driving-mode")
            labels.add("tx-nondriving")
            continue
        if rec["timeout"] or rec["accepted"] != len(ev["data"]):
            return fail(f"{what}: only {rec['accepted']} of {len(ev['data'])} bytes accepted (tx_ready) before the "
                        f"time-out", signature="tx-bytes-not-accepted")
        if not on:
            return fail(f"{what}: nothing was driven on D+/D-", signature="tx-nothing-driven")
        if on[-1] - on[0] + 1 != len(on):
            return fail(f"{what}: output enable dropped and came back inside the packet (cycles {on[0]}..{on[-1]}, "
                        f"{len(on)} driven)", signature="tx-oe-gap")
        want = line.encode_packet(ev["data"])
        try:
            got = line.symbols_strict([(trace[t].dp_o, trace[t].dn_o) for t in on])
        except ValueError as e:
            return fail(f"{what}: {e}", signature="tx-irregular-bit-timing")
        if got != want:
            k = next((i for i in range(min(len(got), len(want))) if got[i] != want[i]), min(len(got), len(want)))
            sig = "tx-wrong-line-symbols"
            if got[:8] != line.SYNC:
                sig = "tx-bad-sync"
            elif not got.endswith(line.EOP) or got.count("0") != 2:
                sig = "tx-bad-eop"
            elif 8 <= k <= 10 and len(got) != len(want):
                # bit timing of the whole packet is off from one of the first three data bits on
                sig = "tx-corrupt-from-first-data-bits"
            elif len(got) != len(want):
                sig = "tx-wrong-bit-count"
            return fail(f"{what}: line carried {got}, expected {want} (first difference at symbol {k})", signature=sig)
        ns = line.count_stuffed(ev["data"])
        labels.add("tx")
        if ns:
            labels.add("tx-stuffed")
            nontrivial = True
        if ns and line.stuff(line.bytes_to_bits(ev["data"]))[0][-7:-1] == [1] * 6:
            labels.add("tx-stuff-before-eop")
    if any(rec.get("sw_t") is not None for rec in drv.log):
        # a cut-short transmission is looped back as a truncated packet; nothing is asserted about what the receiver
        # makes of it (the sub that generates mode switches has no receive events)
        return Result(ok=True, nontrivial=nontrivial, labels=tuple(sorted(labels)))
    # ---- receive events: sequence of rx_active intervals at usb edges
    rx = [rec for rec in drv.log if rec["kind"] == "rx"]
    intervals = []
    cur = None
    stray = None
    for t in ticks:
        o = trace[t]
        if o.rx_active:
            if cur is None:
                cur = dict(t0=t, t1=t, data=[], err=False)
            cur["t1"] = t
            if o.rx_valid:
                cur["data"].append(o.rx_data)
        else:
            if cur is not None:
                intervals.append(cur)
                cur = None
            if o.rx_valid and stray is None:
                stray = t
    if cur is not None:
        intervals.append(cur)
    err_ticks = [t for t in ticks if trace[t].rx_error]
    if stray is not None:
        return fail(f"{cfgname}: rx_valid without rx_active at usb edge in cycle {stray}", signature="rx-valid-outside-active")
    mangled = any(rec["ev"].get("mangle") for rec in rx)
    if mangled:
        # Histories containing a packet that is not correctly encoded (runt, dribble bits, omitted stuffing): the
        # statement promises receive-active framing only for correctly encoded packets (and an error report, judged
        # inside rx_active, for seven 1s in a row), so the intervals are attributed to the packets by time instead of
        # by count: an interval belongs to the line packet whose SYNC (32 samples) ended last before it began; the
        # window closes 16 cycles after the next transmit request (the PHY's own packet must not be received).
        txs = [r["t0"] for r in drv.log if r["kind"] == "tx"]
        wins = []
        for i, rec in enumerate(rx):
            lo = rec["t0"] + 32
            hi = rx[i + 1]["t0"] + 32 if i + 1 < len(rx) else n
            later = [t + 16 for t in txs if t >= rec["t1"]]
            if later:
                hi = min(hi, min(later))
            wins.append((lo, hi))
        owned = [[iv for iv in intervals if lo <= iv["t0"] < hi] for lo, hi in wins]
        lost = [iv for iv in intervals if not any(lo <= iv["t0"] < hi for lo, hi in wins)]
        if lost:
            return fail(f"{cfgname}: rx_active interval {lost[0]['t0']}..{lost[0]['t1']} does not follow the SYNC of any "
                        f"line packet (line packets start at cycles {[r['t0'] for r in rx]}; transmit requests at "
                        f"{txs})", signature="rx-active-without-line-packet")
        keep_rx, keep_iv = [], []
        for rec, ivs in zip(rx, owned):
            ev = rec["ev"]
            if ev.get("mangle"):
                bits = rx_line_bits(ev)
                labels.add("rx-mangled")
                if line.residue_bits(bits):
                    labels.add("rx-mangled-odd-bit-count")
                if line.has_seven_ones(bits):
                    what = (f"{cfgname}: rx packet {bytes(ev['data']).hex()} mangled {ev['mangle']} (line cycles "
                            f"{rec['t0']}..{rec['t1']}): line bits {''.join(map(str, bits))} contain seven 1s in a row")
                    if not ivs:
                        return fail(f"{what} but no rx_active interval followed its SYNC",
                                    signature="stuff-violation-not-reported")
                    lo, hi = ivs[0]["t0"], ivs[-1]["t1"]
                    if not any(iv["t0"] <= t <= iv["t1"] for iv in ivs for t in err_ticks):
                        pulses = [t for t in range(lo, min(n, hi + 1)) if trace[t].rx_error]
                        sig = "stuff-error-pulse-missed-by-usb-clock" if pulses else "stuff-violation-not-reported"
                        return fail(f"{what} but rx_error was never high at a usb clock edge while rx_active "
                                    f"({[(iv['t0'], iv['t1']) for iv in ivs]}; 48 MHz cycles with rx_error high: "
                                    f"{pulses[:4]})", signature=sig)
                    labels.add("rx-mangled-violation")
                continue                      # nothing else is promised for a packet that is not correctly encoded
            if len(ivs) != 1:
                return fail(f"{cfgname}: rx packet {bytes(ev['data']).hex()} (line cycles {rec['t0']}..{rec['t1']}) "
                            f"got {len(ivs)} rx_active intervals {[(iv['t0'], iv['t1']) for iv in ivs]} (all intervals: "
                            f"{[(iv['t0'], iv['t1']) for iv in intervals]})", signature="rx-active-interval-count")
            keep_rx.append(rec)
            keep_iv.append(ivs[0])
        all_rx = rx
        rx, intervals = keep_rx, keep_iv
    # a packet transmitted by the PHY itself must not be received
    if len(intervals) != len(rx):
        return fail(f"{cfgname}: {len(rx)} packets were put on the line (first samples at cycles "
                    f"{[r['t0'] for r in rx]}), rx_active showed {len(intervals)} intervals "
                    f"{[(i['t0'], i['t1']) for i in intervals]}", signature="rx-active-interval-count")
    for i, (rec, iv) in enumerate(zip(rx, intervals)):
        ev = rec["ev"]
        nxt = rx[i + 1]["t0"] if i + 1 < len(rx) else n
        if mangled:
            j = all_rx.index(rec)
            nxt = all_rx[j + 1]["t0"] if j + 1 < len(all_rx) else n
            if j and all_rx[j - 1]["ev"].get("mangle"):
                labels.add("rx-after-mangled")
                if line.residue_bits(rx_line_bits(all_rx[j - 1]["ev"])):
                    labels.add("rx-after-odd-bit-count")
                    nontrivial = True
        what = (f"{cfgname}: rx packet {bytes(ev['data']).hex()} (line cycles {rec['t0']}..{rec['t1']}, slip "
                f"{ev['slip'][0]:+d} first@{ev['slip'][1]})")
        if iv["t0"] < rec["t0"] or iv["t1"] >= nxt + 64:
            return fail(f"{what}: rx_active interval {iv['t0']}..{iv['t1']} does not belong to this packet",
                        signature="rx-active-misplaced")
        errs = [t for t in err_ticks if iv["t0"] <= t <= iv["t1"]]      # RXError is meaningful only with RXActive
        if ev.get("violate") is not None:
            if not errs:
                pulses = [t for t in range(iv["t0"], min(n, iv["t1"] + 1)) if trace[t].rx_error]
                sig = "stuff-error-pulse-missed-by-usb-clock" if pulses else "stuff-violation-not-reported"
                return fail(f"{what}: stuffed bit #{ev['violate']} sent as 1 (seven 1s in a row) but rx_error was never "
                            f"high at a usb clock edge while rx_active (48 MHz cycles with rx_error high: {pulses[:4]}; "
                            f"usb edges sample cycles {iv['t0']}, {iv['t0'] + 4}, ...)", signature=sig)
            labels.add("rx-violation")
            continue
        if iv["data"] != list(ev["data"]):
            sig = "rx-wrong-bytes"
            if len(iv["data"]) < len(ev["data"]) and iv["data"] == list(ev["data"])[:len(iv["data"])]:
                sig = "rx-last-bytes-missing"
            return fail(f"{what}: delivered {bytes(iv['data']).hex()}", signature=sig)
        if errs:
            # Not asserted (the statement only requires violations to be reported): the RX bit-stuff remover is never
            # reset (its ResetInserter targets the 'sync' domain), so a packet ending in >= 5 ones can raise rx_error
            # during its EOP while rx_active is still high.  Counted so that the evidence shows how often.
            labels.add("unasserted:rx_error-on-good-packet")
        labels.add("rx")
        if ev["slip"][0] and slips_for(len(line.encode_packet(ev["data"])), ev["slip"]):
            labels.add("rx-drift")
            nontrivial = True
        if line.count_stuffed(ev["data"]):
            labels.add("rx-stuffed")
            nontrivial = True
    if any(e["kind"] == "ctl" for e in case_events):
        labels.add("pull-controls")
    return Result(ok=True, nontrivial=nontrivial, labels=tuple(sorted(labels)))


def pkt_bytes(maxlen, avg):
    ones = st.sampled_from([0xFF, 0x7F, 0xFE, 0xFC, 0x3F, 0xFD, 0xBF, 0xEF])
    anyb = st.integers(0, 255)
    body = long_lists(st.one_of(ones, ones, anyb), min_size=0, max_size=maxlen - 1, average=avg)
    first = st.one_of(st.sampled_from([0xD2, 0xC3, 0x4B, 0x69, 0xE1, 0x2D, 0xA5, 0x5A, 0x1E, 0x96]),
                      st.integers(0, 255).map(lambda x: x if (x & 0x1F) != 0x1F else x & 0xEF))
    return st.builds(lambda f, b: [f] + b, first, body)


JUNK = st.one_of(st.sampled_from([0xFF, 0x7F, 0xFE, 0x00, 0x3F]), st.integers(0, 255))


def ctl_event():
    return st.fixed_dictionaries(dict(kind=st.just("ctl"), term=st.integers(0, 1), dp_pd=st.integers(0, 1),
                                      dm_pd=st.integers(0, 1)))


class _Base(Sub):
    def setup(self):
        self.h = {}

    def harness(self, ci):
        if ci not in self.h:
            self.h[ci] = make_bench(*CONFIGS[ci])
        return self.h[ci]

    def run(self, case):
        ci = case["cfg"]
        has_pd, off = CONFIGS[ci]
        events = case["events"]
        drv = Driver(events, case.get("idle", 0))
        budget = 400
        for ev in events:
            if ev["kind"] == "rx":
                budget += ev["gap"] + 40 * len(ev["data"]) + 120
            elif ev["kind"] == "tx":
                budget += 4 * (ev["gap"] + 12 * len(ev["data"]) + 200)
            else:
                budget += 8
        trace = self.harness(ci).run_driver(drv, budget)
        if drv.st != "end" or drv.endwait > 0:
            rec = drv.log[-1] if drv.log else None
            return fail(f"event {drv.k} ({events[drv.k]['kind'] if drv.k < len(events) else '-'}) did not finish within "
                        f"{budget} cycles", signature="event-did-not-finish")
        return check(events, drv, trace, has_pd, f"pulldown_pin={has_pd} divider_offset={off}")


class TxSub(_Base):
    name = "tx"
    budget = {"quick": 2500, "thorough": 40000}
    rule = ("1..4 transmit packets (1..40 bytes biased to 0xFF/0x7F/0xFE/0xFC runs, op_mode 0 or 1, registered UTMI "
            "producer) interleaved with pull-control changes, on 8 configurations (with/without pull-down pin x 4 "
            "clock-divider alignments); oracle: the driven D+/D- samples are exactly 4 per symbol and equal "
            "SYNC + NRZI(stuffed bits) + SE0 SE0 J from the independent encoder, every byte accepted once, no drive in "
            "op_mode 1, pull outputs follow the requests every cycle; non-trivial = a normal-mode packet that needs "
            "at least one stuffed bit")

    def strategy(self):
        tx = st.fixed_dictionaries(dict(kind=st.just("tx"), data=pkt_bytes(40, 6), op_mode=weighted([(0, 5), (1, 1)]),
                                        gap=st.integers(0, 9), junk=JUNK))
        return st.fixed_dictionaries(dict(
            cfg=st.integers(0, len(CONFIGS) - 1), idle=JUNK,
            events=st.lists(st.one_of(tx, tx, tx, ctl_event()), min_size=1, max_size=5),
        ))


class RxSub(_Base):
    name = "rx"
    budget = {"quick": 2500, "thorough": 40000}
    rule = ("1..4 line packets (1..70 bytes, runs of 1s, inter-packet idle 8..60 samples = every sampling phase, drift "
            "as 3-/5-sample bits every >= 100 bits, optional stuffing violation = a stuffed 0 sent as 1) optionally "
            "interleaved with a transmit packet; oracle at usb clock edges: one rx_active interval per packet in order, "
            "rx_valid only inside it, delivered bytes equal the packet, rx_error seen inside the interval for a "
            "violation (rx_error on good packets is only counted, not asserted); one event in six is a packet that is NOT "
            "correctly encoded (1..24 bytes with all / one of the stuffed bits omitted, cut after any bit, 1..3 dribble "
            "bits ahead of the EOP, optionally a stuffed bit sent as 1, in any combination; most leave the receiver with a "
            "bit count that is not a whole number of bytes): nothing is judged about its bytes or framing, rx_error "
            "inside an rx_active interval is required iff its line bits contain seven 1s in a row, rx_active intervals "
            "are then attributed to packets by time (after the packet's SYNC, before the next packet's), and every "
            "correctly encoded packet before AND after it is judged in full (exactly one interval, exactly its bytes); "
            "non-trivial = a good packet with a stuffed bit or an effective drift slip, or a good packet that follows a "
            "packet with an odd bit count")

    def strategy(self):
        slip = st.tuples(weighted([(0, 2), (1, 2), (-1, 2)]), st.one_of(st.integers(8, 40), st.integers(0, 99)),
                         st.lists(st.integers(0, 40), max_size=3))
        rx = st.fixed_dictionaries(dict(kind=st.just("rx"), data=pkt_bytes(70, 14), gap=st.integers(8, 60), slip=slip,
                                        sel=weighted([(0, 6), (1, 1)]), vidx=st.integers(0, 7)))
        tx = st.fixed_dictionaries(dict(kind=st.just("tx"), data=pkt_bytes(8, 2), op_mode=st.just(0),
                                        gap=st.integers(2, 9), junk=JUNK))
        # a packet that is NOT correctly encoded (what a marginal transmitter, a hub chain or line noise produces):
        # stuffed bits omitted (all of them = the sender does not stuff, or one), a runt cut after any bit, 1..3
        # dribble bits ahead of the EOP, optionally with a stuffed bit sent as 1 -- in any combination
        bad = st.fixed_dictionaries(dict(
            kind=st.just("rx"), data=pkt_bytes(24, 5), gap=st.integers(8, 60), slip=slip,
            sel=weighted([(0, 6), (1, 1)]), vidx=st.integers(0, 7),
            mangle=st.fixed_dictionaries(dict(
                osel=weighted([(0, 3), (1, 2), (2, 2)]), oidx=st.integers(0, 7),
                tsel=weighted([(0, 3), (1, 1)]), tpos=st.integers(0, 10 ** 6),
                dribble=weighted([(0, 3), (1, 3), (2, 1), (3, 1)]).flatmap(
                    lambda k: st.lists(st.integers(0, 1), min_size=k, max_size=k))))))
        return st.fixed_dictionaries(dict(
            cfg=st.integers(0, len(CONFIGS) - 1), idle=JUNK,
            events=st.lists(st.one_of(rx, rx, rx, rx, tx, bad), min_size=1, max_size=4),
        )).map(_resolve_violation)


def _resolve_violation(case):
    for ev in case["events"]:
        if ev["kind"] == "rx":
            ns = line.count_stuffed(ev["data"])
            if ev.pop("sel", 0) and ns:
                ev["violate"] = ev["vidx"] % ns
            ev.pop("vidx", None)
            mg = ev.get("mangle")
            if mg is not None and "osel" in mg:
                osel, oidx, tsel, tpos = mg.pop("osel"), mg.pop("oidx"), mg.pop("tsel"), mg.pop("tpos")
                omit = list(range(ns)) if osel == 1 else [oidx % ns] if osel == 2 and ns else []
                if ev.get("violate") in omit:
                    omit.remove(ev["violate"])
                out = dict(omit=omit, trunc=None, dribble=mg["dribble"])
                if tsel:
                    nb = len(line.mangled_bits(ev["data"], ev.get("violate"), omit))
                    out["trunc"] = 1 + tpos % max(1, nb - 1)            # 1 .. nb-1 bits kept (1 for a one-bit stream)
                if not omit and out["trunc"] is None and not out["dribble"]:
                    out["dribble"] = [1]                                 # always mangled in at least one way
                ev["mangle"] = out
    return case


class ModeSwitchSub(_Base):
    name = "mode-switch"
    budget = {"quick": 600, "thorough": 24000}
    rule = ("1..3 normal-mode transmit packets (1..24 bytes) of which at least one has op_mode switched to non-driving "
            "at a generated usb cycle 0..8*len+24 after tx_valid rose (before the drive starts, in SYNC, data, EOP, "
            "after the end = no switch); the producer drops tx_valid 0..40 usb cycles later (or when its bytes are "
            "taken), op_mode returns to normal after 30..80 usb cycles; interleaved with pull-control changes and "
            "ordinary packets; oracle for a switched packet: D+/D- output enables low in every 48 MHz cycle in which "
            "the op_mode input is non-driving (nothing else is judged for it), ordinary packets and pin invariants by "
            "the 'tx' rules; non-trivial = the pads were driven in the cycle before the switch")

    def strategy(self):
        def sw_tx(data):
            return st.fixed_dictionaries(dict(
                kind=st.just("tx"), data=st.just(data), op_mode=st.just(0), gap=st.integers(0, 9), junk=JUNK,
                sw=st.fixed_dictionaries(dict(
                    at=st.one_of(st.integers(0, 12), st.integers(0, 8 * len(data) + 24),
                                 st.integers(8 * len(data) + 4, 8 * len(data) + 16)),
                    drop=weighted([(0, 3), (1, 1), (2, 1)]).flatmap(
                        lambda k: st.just(0) if k == 0 else st.integers(1, 40 if k == 2 else 4)),
                    dwell=st.integers(TDDIS_TICKS, 80)))))
        switched = pkt_bytes(24, 4).flatmap(sw_tx).map(_fix_dwell)
        tx = st.fixed_dictionaries(dict(kind=st.just("tx"), data=pkt_bytes(12, 3), op_mode=weighted([(0, 5), (1, 1)]),
                                        gap=st.integers(0, 9), junk=JUNK))
        return st.fixed_dictionaries(dict(
            cfg=st.integers(0, len(CONFIGS) - 1), idle=JUNK,
            pre=st.lists(st.one_of(tx, ctl_event()), max_size=1), sw=switched,
            post=st.lists(st.one_of(switched, tx, ctl_event()), max_size=2),
        )).map(lambda c: dict(cfg=c["cfg"], idle=c["idle"], events=c["pre"] + [c["sw"]] + c["post"]))


def _fix_dwell(ev):
    ev["sw"]["dwell"] = max(ev["sw"]["dwell"], ev["sw"]["drop"] + 2)
    return ev


SUBS = [TxSub(), RxSub(), ModeSwitchSub()]
