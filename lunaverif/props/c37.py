"""C37 — received header packets are accepted, acknowledged and buffered exactly."""
from hypothesis import strategies as st

from lunaverif.core import Sub, Result, fail
from lunaverif.gen import long_lists, weighted, bits
from lunaverif.ref import g4_usb3 as R
from lunaverif.bfm import g4_hprx as B

PROPERTY = "C37"
ASSUMPTIONS = [
    "the link partner is legal (lunaverif/bfm/g4_hprx.py): it sends headers only against credits the DUT advertised, "
    "answers an LBAD with LRTY followed by all unacknowledged headers, and sends at most one header with a wrong "
    "sequence number, as the last header of the history (the DUT then requests recovery, i.e. leaves U0)",
    "retry_received fires one cycle after the partner's LRTY command word (PacketTransmitter's detector latency); "
    "keepalive_required / retry_required / reject_power_state strobes may occur at any time in U0",
    "corruption = single-bit flips in the CRC-16 protected words, the CRC-16 or the link control word",
    "enable is high from cycle 0 and stays high (link stays in U0); buffer_count = 4",
]

NON_DATA_TYPES = [R.TYPE_LMP, R.TYPE_TP, R.TYPE_ITP, R.TYPE_DATA]


def hdr_op(wrongseq=st.just(0)):
    gaps = st.lists(st.tuples(st.integers(0, 4), st.integers(1, 2)).map(list), max_size=2)
    return st.tuples(st.just("hdr"), wrongseq, bits(16), bits(32), bits(32), bits(32),
                     st.sampled_from(NON_DATA_TYPES), gaps).map(list)


def traffic_strategy(max_ops=24, avg_ops=12, allow_wrongseq=True):
    op = st.one_of(
        hdr_op(), hdr_op(), hdr_op(), hdr_op(),
        hdr_op(weighted([(0, 40), (1, 1), (2, 1), (7, 1), (4, 1)])) if allow_wrongseq else hdr_op(),
        st.tuples(st.just("idle"), weighted([(1, 3), (3, 2), (8, 2), (20, 1)])).map(list),
        st.tuples(st.just("inv"), st.integers(1, 3), bits(32)).map(list),
    )
    return dict(
        ops=long_lists(op, min_size=3, max_size=max_ops, average=avg_ops),
        noise=st.lists(st.tuples(weighted([(0, 6), (1, 2), (2, 2)]), bits(8)).map(list), max_size=30),
        lbad_delay=st.lists(st.integers(0, 6), min_size=1, max_size=4),
        qready=st.one_of(st.just([1]), st.lists(weighted([(1, 1), (0, 5)]), min_size=2, max_size=16),
                         st.lists(weighted([(1, 3), (0, 1)]), min_size=1, max_size=16),
                         st.integers(8, 60).map(lambda n: [0] * n + [1]),
                         st.integers(20, 90).map(lambda n: [0] * n + [1, 1, 1, 1])),
        sready=st.one_of(st.just([1]), st.lists(weighted([(1, 3), (0, 2)]), min_size=1, max_size=16),
                         st.integers(2, 12).map(lambda n: [0] * n + [1])),
        strobes=st.lists(st.tuples(st.integers(0, 40), st.integers(0, 2)).map(list), max_size=4),
    )


def check_stream_held(log, trace, t0=0, t1=None):
    t1 = len(trace) if t1 is None else t1
    for t in range(t0 + 1, t1):
        p, o = trace[t - 1], trace[t]
        if p.valid and not log[t - 1]["sready"]:
            if not o.valid or (o.data, o.ctrl) != (p.data, p.ctrl):
                return fail(f"cycle {t}: link-command source changed ({p.data:#x},{p.ctrl:#x}) -> valid={o.valid} "
                            f"({o.data:#x},{o.ctrl:#x}) while stalled", signature="source-not-held-while-stalled")
    return None


def replay_model(headers, log, t0, t1, model):
    """Feed header arrivals (effective at end+2) and retry strobes (effective at t+1) in [t0,t1) to the model.
    Annotates each header with 'verdict'."""
    events = []
    for a, b in zip(headers, headers[1:]):
        b["b2b"] = b["start"] == a["end"] + 1       # starts in the cycle right after the previous header's last word
    for h in headers:
        if t0 <= h["end"] < t1:
            events.append((h["end"] + 2, 1, h))
    for t in range(t0, t1):
        if log[t]["retry_rx"]:
            events.append((t + 1, 0, None))
    events.sort(key=lambda e: (e[0], e[1]))
    for when, kind, h in events:
        if kind == 0:
            model.retry()
        else:
            h["verdict"] = model.header(h)


def hdr_fields(h):
    return (h["dw0"], h["dw1"], h["dw2"], h["seq"], h["reserved"], h["hub_depth"], h["delayed"], h["deferred"])


def _sig(h, default):
    """A valid header that starts right behind the previous one and is then not handled: one known failing shape."""
    return "back-to-back-header-missed" if h is not None and h.get("b2b") else default


def check_recovery(trace, seq_errors, t0, t1):
    """recovery_required is the observable effect of a header being *considered* and rejected for its sequence
    number: it must fire for exactly the intact wrong-sequence headers seen while not ignoring (the cycle after
    their last word) and never for an ignored header."""
    got = [t for t in range(t0, t1) if trace[t].recov]
    want = [h["end"] + 1 for h in seq_errors if t0 <= h["end"] + 1 < t1]
    if got != want:
        extra = [t for t in got if t not in want]
        if extra:
            return fail(f"recovery_required asserted in cycle {extra[0]} although no intact wrong-sequence header was "
                        f"being considered there (expected cycles {want}): an ignored/corrupted header was not ignored",
                        signature="recovery-for-ignored-header")
        miss = [t for t in want if t not in got]
        return fail(f"intact header with an unexpected sequence number (checked in cycle {miss[0]}) did not raise "
                    f"recovery_required", signature="wrong-sequence-not-reported")
    return None


def judge_u0(log, trace, headers, accepted, lbad_triggers, cmds, t0, t1, *, buffers=4, first_lcrd=0, skip_lgood=1,
             complete=True):
    """Checks over cycles [t0,t1) during which the link stays in U0.
    accepted / lbad_triggers: model results for headers arriving in the window; cmds: DUT commands started in the
    window (after the advertisement has been stripped: skip_lgood LGOODs are not acknowledgements)."""
    # ---- acknowledgements
    lgoods = [c for c in cmds if c["cmd"] == R.LGOOD][skip_lgood:]
    for k in range(max(len(lgoods), len(accepted))):
        if k >= len(accepted):
            c = lgoods[k]
            return fail(f"LGOOD({c['sub']}) sent in cycles {c['start']}..{c['end']} does not acknowledge any accepted "
                        f"header (accepted so far: {[h['seq'] for h in accepted]})", signature="spurious-lgood")
        if k >= len(lgoods):
            if not complete:
                break
            h = accepted[k]
            return fail(f"valid header seq {h['seq']} (cycles {h['start']}..{h['end']}) was never acknowledged by an "
                        f"LGOOD", signature=_sig(h, "missing-lgood"))
        c, h = lgoods[k], accepted[k]
        if c["sub"] != h["seq"]:
            return fail(f"acknowledgement {k}: LGOOD({c['sub']}) in cycle {c['start']} but the {k}-th accepted header "
                        f"has sequence number {h['seq']} (arrived cycle {h['end']})",
                        signature=_sig(h, "lgood-wrong-number"))
        if c["start"] <= h["end"]:
            return fail(f"LGOOD({c['sub']}) started in cycle {c['start']}, before header seq {h['seq']} had arrived "
                        f"(cycle {h['end']})", signature="lgood-before-header")
    # ---- delivery to the protocol layer: exactly once, in order, same content
    xfers = [(t, (o.q0, o.q1, o.q2, o.qseq, o.qrsv, o.qhub, o.qdl, o.qdf))
             for t, o in enumerate(trace[t0:t1], t0) if o.qvalid and log[t]["qready"]]
    for k in range(max(len(xfers), len(accepted))):
        if k >= len(accepted):
            t, f = xfers[k]
            dup = any(f == hdr_fields(h) for h in accepted)
            return fail(f"queue delivered a header in cycle {t} that is not the next accepted one: {f} "
                        f"({len(accepted)} headers were accepted)",
                        signature="queue-duplicate-delivery" if dup else "queue-spurious-delivery")
        if k >= len(xfers):
            if not complete:
                break
            h = accepted[k]
            return fail(f"accepted header seq {h['seq']} (arrived cycle {h['end']}) was never offered on the queue",
                        signature=_sig(h, "queue-missing-delivery"))
        (t, f), h = xfers[k], accepted[k]
        if f != hdr_fields(h):
            return fail(f"queue delivery {k} in cycle {t}: {f} expected {hdr_fields(h)}",
                        signature=_sig(h, "queue-wrong-header"))
        if t <= h["end"]:
            return fail(f"queue delivered header seq {h['seq']} in cycle {t}, before it had arrived (cycle {h['end']})",
                        signature="queue-before-header")
    # ---- LBAD: one per corrupted header seen while not ignoring
    lbads = [c for c in cmds if c["cmd"] == R.LBAD]
    for k in range(max(len(lbads), len(lbad_triggers))):
        if k >= len(lbad_triggers):
            c = lbads[k]
            return fail(f"LBAD sent in cycles {c['start']}..{c['end']} without a corrupted header to report "
                        f"({len(lbad_triggers)} corrupted headers arrived while not ignoring)", signature="spurious-lbad")
        if k >= len(lbads):
            if not complete:
                break
            h = lbad_triggers[k]
            return fail(f"corrupted header (cycles {h['start']}..{h['end']}) was never answered by an LBAD",
                        signature=_sig(h, "missing-lbad"))
        if lbads[k]["start"] <= lbad_triggers[k]["end"]:
            return fail(f"LBAD started cycle {lbads[k]['start']} before the corrupted header arrived "
                        f"(cycle {lbad_triggers[k]['end']})", signature="lbad-before-header")
    # ---- credits: letters in order; never more than `buffers` advertised-or-buffered
    lcrds = [c for c in cmds if c["cmd"] == R.LCRD]
    for k, c in enumerate(lcrds):
        if c["sub"] != (first_lcrd + k) % 4:
            return fail(f"credit {k} is LCRD({c['sub']}) in cycle {c['start']}, expected letter "
                        f"{'ABCD'[(first_lcrd + k) % 4]}", signature="lcrd-order")
        if k >= buffers:
            need = k - buffers        # index of the queue transfer that must have happened before
            if need >= len(xfers) or xfers[need][0] >= c["start"]:
                done = sum(1 for t, _ in xfers if t < c["start"])
                return fail(f"LCRD number {k + 1} started in cycle {c['start']} when only {done} headers had been "
                            f"consumed from the queue: advertised + buffered headers exceed {buffers}",
                            signature="credit-for-occupied-buffer")
    return None


class HeaderRxSub(Sub):
    name = "hprx"
    budget = {"quick": 6000, "thorough": 100000}
    shrink_budget = 500
    rule = ("legal link-partner BFM in closed loop with HeaderPacketReceiver(buffer_count=4): 1..24 partner actions "
            "(headers with random content and not-valid gaps, idle, not-valid words), wire noise per transmission "
            "(CRC-16/CRC-5 bit flips, also on retransmissions), LBAD->LRTY reaction delay, at most one wrong-sequence "
            "header, queue.ready and source.ready patterns (incl. long stalls), keepalive/LRTY/LXU request strobes. "
            "Oracle: reference decode of the driven stream + statement's acceptance rules; LGOOD numbers == accepted "
            "headers, queue deliveries == accepted headers exactly once in order with equal content, one LBAD per "
            "corrupted header seen while not ignoring, LCRD letters A-B-C-D and k-th credit (k>4) only after k-4 "
            "queue transfers. Non-trivial: >=3 accepted headers and (an LBAD/LRTY/retransmission cycle or all four "
            "buffers occupied at some time).")

    def setup(self):
        self.h = B.make_harness(4)

    def strategy(self):
        return st.fixed_dictionaries(traffic_strategy())

    def run(self, case):
        drv = B.Partner(case)
        max_cycles = 400 + 30 * len(case["ops"]) + 20 * len(case.get("noise", []))
        # every header costs four source words (LGOOD + LCRD): a sparse source.ready pattern stretches the run
        # accordingly -- the drain bound is a liveness budget of the harness and must never undercut a slow but legal sink
        sp = list(case.get("sready") or [1])
        if 0 < sum(sp) < len(sp):
            max_cycles += (6 * len(case["ops"]) + 20) * -(-len(sp) // sum(sp))
        trace = self.h.run_driver(drv, max_cycles)
        log = drv.log[:len(trace)]
        n = len(trace)
        res = check_stream_held(log, trace)
        if res is not None:
            return res
        (cmds, state), err = B.source_commands(log, trace)
        if err is not None:
            return fail(err[1], signature="source-malformed")
        headers = B.sink_headers(log)
        model = B.AcceptModel()
        replay_model(headers, log, 0, n, model)
        finished = drv.phase_done and state == "idle"
        # the first LGOOD is the power-on advertisement, not an acknowledgement
        if cmds and cmds[0]["cmd"] != R.LGOOD:
            return fail(f"first link command after enable is {R.LC_NAMES.get(cmds[0]['cmd'], cmds[0]['cmd'])}"
                        f"({cmds[0]['sub']}), not the LGOOD advertisement", signature="no-initial-advertisement")
        res = judge_u0(log, trace, headers, model.accepted, model.lbad_triggers, cmds, 0, n, complete=finished)
        if res is not None:
            return res
        res = check_recovery(trace, model.seq_errors, 0, n)
        if res is not None:
            return res
        if not finished:
            return fail(f"history did not drain within {max_cycles} cycles (partner phase {drv.phase}, "
                        f"unacked {[s for s, _ in drv.unacked]})", signature="no-progress")
        # classification
        labels = set()
        acc = len(model.accepted)
        full = False
        xfer_t = [t for t, o in enumerate(trace) if o.qvalid and log[t]["qready"]]
        for k, h in enumerate(model.accepted):
            consumed = sum(1 for t in xfer_t if t <= h["end"] + 2)
            if k + 1 - consumed >= 4:
                full = True
        if full:
            labels.add("buffers-full")
        if model.lbad_triggers:
            labels.add("lbad-retry")
        if len(model.lbad_triggers) > 1:
            labels.add("repeated-lbad")
        if any(h.get("verdict") == "ignored" for h in headers):
            labels.add("ignored-until-retry")
        if model.seq_errors:
            labels.add("wrong-seq")
        if any(c["cmd"] in (R.LUP, R.LRTY, R.LXU) for c in cmds):
            labels.add("other-commands")
        labels.add(f"accepted={min(acc, 12) // 3 * 3}+")
        return Result(ok=True, nontrivial=acc >= 3 and (full or bool(model.lbad_triggers)),
                      labels=tuple(sorted(labels)))


SUBS = [HeaderRxSub()]
