"""C30 — every CRC implementation equals its standard (bit-serial) definition.

Function level: the private step functions are wrapped in a purely combinational Elaboratable
``out = f(state, data)`` and compared with ``lunaverif.ref.crc.crc_bits`` (the one bit-serial LFSR
definition).  Module level: random walks through the elaborated CRC modules, comparing the public
``crc`` outputs (reflection + inversion included) with the reference CRC of the bytes fed so far, and
a token-level exhaustive pass through ``USBTokenDetector`` ("accepted exactly when the check field is
correct").
"""
import struct

from hypothesis import strategies as st

from lunaverif.core import Sub, Result, fail
from lunaverif.gen import long_lists, weighted
from lunaverif.simkit import CycleHarness
from lunaverif.ref import crc as R

PROPERTY = "C30"
ASSUMPTIONS = [
    "data bits enter every CRC LSB-first per byte, bytes in wire order (byte 0 of a 32-bit word = bits 0..7)",
    "USBDataPacketCRC: 'start' wins over a same-cycle rx_valid (the PID byte is on the bus when the receiver "
    "asserts start); rx_valid and tx_valid are never asserted together (half-duplex bus)",
    "USB3 CRC modules: at most one of clear / advance_* is asserted per cycle (as in receiver.py, data.py, "
    "transmitter.py)",
    "usb3-header-accept: a header packet is HPSTART followed by four data words (ctrl 0), possibly separated by cycles "
    "with sink.valid low; packets may follow each other with no word in between; expected_sequence equals the packet's "
    "sequence number while it is judged (sequence errors are C37's subject)",
]

POLY5, POLY16_USB2, POLY16_USB3, POLY32 = 0x05, 0x8005, 0x100B, 0x04C11DB7
M16, M32 = 0xFFFF, 0xFFFFFFFF


def lsb_bits(v, n):
    return [(v >> i) & 1 for i in range(n)]


def rev(v, n):
    return int(format(v, f"0{n}b")[::-1], 2)


def _silence(obj):
    obj._MustUse__silence = True
    return obj


# step function name -> (state width, data width, polynomial)
STEPS = {
    "usb2-crc16": (16, 8, POLY16_USB2),
    "usb3-hdr-crc16": (16, 32, POLY16_USB3),
    "usb3-crc32-full": (32, 32, POLY32),
    "usb3-crc32-3B": (32, 24, POLY32),
    "usb3-crc32-2B": (32, 16, POLY32),
    "usb3-crc32-1B": (32, 8, POLY32),
}


def ref_step(name, state, data):
    sw, dw, poly = STEPS[name]
    return R.crc_bits(lsb_bits(data & ((1 << dw) - 1), dw), poly, sw, init=state & ((1 << sw) - 1))


def _step_wrapper():
    from amaranth import Elaboratable, Module, Signal
    from luna.gateware.usb.usb2.packet import USBDataPacketCRC
    from luna.gateware.usb.usb3.link.crc import HeaderPacketCRC, DataPacketPayloadCRC

    class StepWrapper(Elaboratable):
        def __init__(self):
            self.state = Signal(32)
            self.data = Signal(32)
            self.outs = {n: Signal(STEPS[n][0], name="o_" + n.replace("-", "_")) for n in STEPS}

        def elaborate(self, platform):
            m = Module()
            heartbeat = Signal()
            m.d.sync += heartbeat.eq(~heartbeat)
            c16 = _silence(USBDataPacketCRC())
            h16 = _silence(HeaderPacketCRC())
            c32 = _silence(DataPacketPayloadCRC())
            s, d, o = self.state, self.data, self.outs
            m.d.comb += [
                o["usb2-crc16"].eq(c16._generate_next_crc(s[0:16], d[0:8])),
                o["usb3-hdr-crc16"].eq(h16._generate_next_crc(s[0:16], d)),
                o["usb3-crc32-full"].eq(c32._generate_next_full_crc(s, d)),
                o["usb3-crc32-3B"].eq(c32._generate_next_3B_crc(s, d[0:24])),
                o["usb3-crc32-2B"].eq(c32._generate_next_2B_crc(s, d[0:16])),
                o["usb3-crc32-1B"].eq(c32._generate_next_1B_crc(s, d[0:8])),
            ]
            return m

    w = StepWrapper()
    return CycleHarness(w, ins=dict(state=w.state, data=w.data), outs={_field(n): sig for n, sig in w.outs.items()})


# ------------------------------------------------------------------------------------------------ CRC5
class Crc5Exhaustive(Sub):
    name = "crc5-exhaustive"
    budget = {"quick": 0, "thorough": 0}
    exhaustive = True
    rule = ("all 2^11 protected values through USBTokenDetector._generate_crc_for_token and compute_usb_crc5 "
            "(comb wrapper), compared with the bit-serial x^5+x^2+1 CRC (init 0x1F, inverted, sent MSB first); "
            "every case (a block of 32 values) is non-trivial")

    def setup(self):
        from amaranth import Elaboratable, Module, Signal
        from luna.gateware.usb.usb2.packet import USBTokenDetector
        from luna.gateware.usb.usb3.link.crc import compute_usb_crc5

        class W(Elaboratable):
            def __init__(self):
                self.x = Signal(11)
                self.usb2 = Signal(5)
                self.usb3 = Signal(5)

            def elaborate(self, platform):
                m = Module()
                hb = Signal()
                m.d.sync += hb.eq(~hb)
                m.d.comb += [self.usb2.eq(USBTokenDetector._generate_crc_for_token(self.x)),
                             self.usb3.eq(compute_usb_crc5(self.x))]
                return m

        w = W()
        self.h = CycleHarness(w, ins=dict(x=w.x), outs=dict(usb2=w.usb2, usb3=w.usb3))

    def enumerate(self, tier):
        return [dict(block=b) for b in range(64)]

    def strategy(self):
        return st.fixed_dictionaries(dict(block=st.integers(0, 63)))

    def run(self, case):
        xs = [case["block"] * 32 + i for i in range(32)]
        trace = self.h.run_script([dict(x=x) for x in xs])
        for x, o in zip(xs, trace):
            exp = rev(R.crc_bits(lsb_bits(x, 11), POLY5, 5) ^ 0x1F, 5)
            if o.usb2 != exp:
                return fail(f"USB2 token CRC5 of {x:#05x}: expected {exp:#04x} got {o.usb2:#04x}",
                            signature="usb2-crc5-mismatch")
            if o.usb3 != exp:
                return fail(f"USB3 link CRC5 of {x:#05x}: expected {exp:#04x} got {o.usb3:#04x}",
                            signature="usb3-crc5-mismatch")
        return Result(ok=True, nontrivial=True, labels=("block",))


def _crc5_field(v):
    """check field (as the 5 bits above the 11 token bits) of the bit-serial USB2 token CRC5"""
    return rev(R.crc_bits(lsb_bits(v, 11), POLY5, 5) ^ 0x1F, 5)


def _token_harness():
    from luna.gateware.interface.utmi import UTMIInterface
    from luna.gateware.usb.usb2.packet import USBTokenDetector
    utmi = UTMIInterface()
    dut = USBTokenDetector(utmi=utmi, filter_by_address=False, domain_clock=60e6)
    i = dut.interface
    return CycleHarness(dut, ins=dict(rx_active=utmi.rx_active, rx_valid=utmi.rx_valid, rx_data=utmi.rx_data),
                        outs=dict(new_token=i.new_token, new_frame=i.new_frame, pid=i.pid, address=i.address,
                                  endpoint=i.endpoint, frame=i.frame), domain="usb")


def _judge_tokens(h, toks):
    """toks: list of (pid, 11-bit value, 5-bit check field[, lead, idle]) sent one after the other to ONE detector
    instance without any reset in between.  Each must be reported (new_token / new_frame for SOF, with its own
    fields) iff its check field is the bit-serial CRC5 of its value.  -> fail(...) or None."""
    script = []
    spans = []
    for k, tk in enumerate(toks):
        pid, v, c = tk[:3]
        lead, idle = (tk[3], tk[4]) if len(tk) > 3 else (1, 3)
        w = v | (c << 11)
        start = len(script)
        script += [dict(rx_active=1, rx_valid=0, rx_data=0)] * lead
        for b in (pid | ((~pid & 0xF) << 4), w & 0xFF, w >> 8):
            script.append(dict(rx_active=1, rx_valid=1, rx_data=b))
        script += [dict(rx_active=0, rx_valid=0, rx_data=0)] * idle
        spans.append((start, len(script), pid, v, c, k))
    trace = h.run_script(script, tail=2)
    prev = None
    for start, end, pid, v, c, k in spans:
        # the strobe is registered: it appears in the 2nd cycle after rx_active fell
        win = trace[start + 1:end + 1]
        tok = [o for o in win if o.new_token]
        frm = [o for o in win if o.new_frame]
        good = _crc5_field(v)
        ctx = "" if prev is None else f" (token {k} of the sequence; previous accepted token value {prev:#05x})"
        if c == good:
            if pid == 0x5:
                if len(frm) != 1 or tok or frm[0].frame != v:
                    return fail(f"SOF value {v:#05x} with correct CRC5 {c:#04x}: new_frame x{len(frm)} "
                                f"new_token x{len(tok)} frame={[o.frame for o in frm]}{ctx}",
                                signature="good-crc5-token-not-reported")
            else:
                if len(tok) != 1 or frm or tok[0].pid != pid or tok[0].address != (v & 0x7F) or \
                        tok[0].endpoint != (v >> 7):
                    return fail(f"token pid {pid:#x} value {v:#05x} with correct CRC5 {c:#04x}: new_token "
                                f"x{len(tok)} new_frame x{len(frm)} fields={[(o.pid, o.address, o.endpoint) for o in tok]}{ctx}",
                                signature="good-crc5-token-not-reported")
            prev = v
        elif tok or frm:
            return fail(f"token pid {pid:#x} value {v:#05x} with WRONG CRC5 {c:#04x} (correct {good:#04x}) "
                        f"was reported{ctx}", signature="bad-crc5-token-accepted")
    return None


class TokenAccept(Sub):
    name = "token-accept"
    budget = {"quick": 0, "thorough": 0}
    exhaustive = True
    rule = ("USBTokenDetector(filter_by_address=False): for every 11-bit token value all 32 check fields are sent as "
            "3-byte tokens (PID cycles through OUT/IN/SETUP/PING/SOF) to one detector without reset; a strobe "
            "(new_token/new_frame) with the right fields must appear iff the field equals the bit-serial CRC5; second "
            "pass over all 2^11 x 32 words in which the most recently accepted token before every word is a neighbour "
            "whose bits [10:8] are the complement of the word's (low byte scrambled; sent first, the correct check field "
            "last), so that any state kept from the last accepted token is exposed; the neighbour is judged too; every "
            "case is non-trivial (>= 1 good + 31 bad)")

    PIDS = (0x1, 0x9, 0xD, 0x4, 0x5)

    def setup(self):
        self.h = _token_harness()

    @staticmethod
    def neighbour(v):
        return (((v >> 8) ^ 7) << 8) | ((v * 0x5B + 0x2D) & 0xFF)

    def enumerate(self, tier):
        return [dict(v=v) for v in range(2048)] + [dict(v=v, u=self.neighbour(v)) for v in range(2048)]

    def strategy(self):
        return st.fixed_dictionaries(dict(v=st.integers(0, 2047)))

    def run(self, case):
        v = case["v"]
        u = case.get("u")
        if u is None:
            toks = [(self.PIDS[(v + c) % 5], v, c) for c in range(32)]
        else:
            # neighbour first, then the 31 wrong check fields, the correct one last: the most recently accepted token
            # is u for every one of the 32 words
            good = _crc5_field(v)
            order = [c for c in range(32) if c != good] + [good]
            toks = [(self.PIDS[(u + 2) % 5], u, _crc5_field(u))] + [(self.PIDS[(v + c) % 5], v, c) for c in order]
        bad = _judge_tokens(self.h, toks)
        return bad or Result(ok=True, nontrivial=True, labels=("value" if u is None else "value-after-neighbour",))


class TokenSequence(Sub):
    name = "token-sequence"
    budget = {"quick": 1200, "thorough": 30000}
    rule = ("random sequences of 2..60 (average 32) three-byte tokens (OUT/IN/SETUP/PING/SOF; values uniform, or differing from the "
            "previous value only in bits [10:8] / only in the low byte / by one bit) to one USBTokenDetector without "
            "reset, rx_active lead 1..2, 3..8 idle cycles between; check field correct (3 in 5), one bit off, or "
            "random; every token must be reported with its own fields iff its check field is the bit-serial CRC5. "
            "non-trivial = two consecutive accepted tokens whose bits [10:8] differ and >= 1 rejected token")

    def setup(self):
        self.h = _token_harness()

    def strategy(self):
        tok = st.tuples(
            st.sampled_from(TokenAccept.PIDS),
            st.one_of(st.tuples(st.just("abs"), st.integers(0, 2047)),
                      st.tuples(st.just("high"), st.integers(1, 7)),            # xor into bits [10:8] of the previous value
                      st.tuples(st.just("low"), st.integers(1, 255)),           # xor into the low byte
                      st.tuples(st.just("bit"), st.integers(0, 10))),
            weighted([("good", 3), ("flip", 1), ("rand", 1)]), st.integers(0, 31),
            st.integers(1, 2), st.integers(3, 8))
        return st.fixed_dictionaries(dict(toks=long_lists(tok, min_size=2, max_size=60, average=32)))

    def run(self, case):
        toks = []
        v = 0
        for pid, (how, arg), ck, carg, lead, idle in case["toks"]:
            v = arg if how == "abs" else v ^ (arg << 8) if how == "high" else v ^ arg if how == "low" else v ^ (1 << arg)
            good = _crc5_field(v)
            c = good if ck == "good" else good ^ (1 << (carg % 5)) if ck == "flip" else carg
            toks.append((pid, v, c, lead, idle))
        bad = _judge_tokens(self.h, toks)
        if bad:
            return bad
        acc = [t[1] >> 8 for t in toks if t[2] == _crc5_field(t[1])]
        varied = any(a != b for a, b in zip(acc, acc[1:]))
        shrinking = any(a & ~b for a, b in zip(acc, acc[1:]))
        return Result(ok=True, nontrivial=varied and len(acc) < len(toks),
                      labels=tuple(["high-bits-vary"] * varied + ["high-bits-cleared-between-accepted"] * shrinking))


# ------------------------------------------------------------------------------------------------ steps
def _check_pairs(h, pairs, names=tuple(STEPS)):
    trace = h.run_script([dict(state=s, data=d) for s, d in pairs])
    for (s, d), o in zip(pairs, trace):
        for n in names:
            got = getattr(o, _field(n))
            exp = ref_step(n, s, d)
            if got != exp:
                sw, dw, _ = STEPS[n]
                return fail(f"{n} step: state {s & ((1 << sw) - 1):#x} data {d & ((1 << dw) - 1):#x}: expected "
                            f"{exp:#x} got {got:#x} (differing bits {exp ^ got:#x})", signature=f"step-mismatch-{n}")
    return None


def _field(n):
    return n.replace("-", "_")


class StepBasis(Sub):
    name = "step-basis"
    budget = {"quick": 0, "thorough": 0}
    rule = ("affine basis of each parallel step function f(state,data): the zero vector, every unit vector of state "
            "and of data, all-ones, and every (state unit, data unit) pair on the diagonal; compared with the "
            "bit-serial LFSR; sufficient for XOR-only networks, the random samples cover non-affine mutants")

    def setup(self):
        self.h = _harness()

    def _vectors(self):
        vs = [(0, 0), (M32, M32), (M32, 0), (0, M32)]
        vs += [(1 << i, 0) for i in range(32)]
        vs += [(0, 1 << i) for i in range(32)]
        vs += [(1 << i, 1 << i) for i in range(32)]
        vs += [(M32 ^ (1 << i), M32 ^ (1 << (31 - i))) for i in range(32)]
        return vs

    def enumerate(self, tier):
        vs = self._vectors()
        return [dict(pairs=[list(p) for p in vs[i:i + 11]]) for i in range(0, len(vs), 11)]

    def strategy(self):
        return st.just(dict(pairs=[[0, 0]]))

    def run(self, case):
        bad = _check_pairs(self.h, [tuple(p) for p in case["pairs"]])
        return bad or Result(ok=True, nontrivial=True, labels=("basis",))


def _word():
    """32-bit values: uniform, sparse (1..3 bits set), dense (1..3 bits clear), byte patterns."""
    bit = st.integers(0, 31)
    sparse = st.lists(bit, min_size=1, max_size=3).map(lambda bs: sum({1 << b for b in bs}))
    return st.one_of(st.integers(0, M32), sparse, sparse.map(lambda v: v ^ M32),
                     st.sampled_from([0, M32, 0xFFFF, 0xFFFF0000, 0xFF, 0xFF000000, 0xAAAAAAAA, 0x55555555]))


class StepRandom(Sub):
    name = "step-random"
    budget = {"quick": 3200, "thorough": 80000}
    rule = ("64 (state,data) pairs per case built from 16 random triples a,b,c plus a^b^c (uniform, sparse, dense "
            "words), all six step functions (USB2 CRC16 byte step, USB3 header CRC16 word step, CRC32 full/3B/2B/1B) "
            "evaluated on each and compared with the bit-serial LFSR; non-trivial = the case contains a pair with "
            ">=2 state bits and >=2 data bits set (not a basis vector)")

    def setup(self):
        self.h = _harness()

    def strategy(self):
        pair = st.tuples(_word(), _word())
        return st.fixed_dictionaries(dict(triples=st.lists(st.tuples(pair, pair, pair), min_size=16, max_size=16)))

    def run(self, case):
        pairs = []
        for a, b, c in case["triples"]:
            a, b, c = tuple(a), tuple(b), tuple(c)
            pairs += [a, b, c, (a[0] ^ b[0] ^ c[0], a[1] ^ b[1] ^ c[1])]
        bad = _check_pairs(self.h, pairs)
        if bad:
            return bad
        nt = any(bin(s).count("1") >= 2 and bin(d).count("1") >= 2 for s, d in pairs)
        return Result(ok=True, nontrivial=nt, labels=("pairs",))


class Usb2Crc16Exhaustive(Sub):
    name = "usb2-crc16-step-exhaustive"
    budget = {"quick": 0, "thorough": 0}
    exhaustive = True
    LANES = 64
    rule = ("thorough tier only: USBDataPacketCRC._generate_next_crc over all 2^16 states x 2^8 data bytes (64 data lanes evaluated per "
            "simulated cycle) compared with the bit-serial x^16+x^15+x^2+1 LFSR; a case = 256 states x 256 bytes; "
            "every case is non-trivial")

    def setup(self):
        from amaranth import Elaboratable, Module, Signal
        from luna.gateware.usb.usb2.packet import USBDataPacketCRC
        lanes = self.LANES

        class W(Elaboratable):
            def __init__(self):
                self.state = Signal(16)
                self.base = Signal(8)
                self.out = Signal(16 * lanes)

            def elaborate(self, platform):
                m = Module()
                hb = Signal()
                m.d.sync += hb.eq(~hb)
                c = _silence(USBDataPacketCRC())
                for i in range(lanes):
                    d = Signal(8, name=f"lane{i}")
                    m.d.comb += d.eq(self.base + i)
                    m.d.comb += self.out[16 * i:16 * i + 16].eq(c._generate_next_crc(self.state, d))
                return m

        w = W()
        self.h = CycleHarness(w, ins=dict(state=w.state, base=w.base), outs=dict(out=w.out))
        # bit-serial contribution of the data byte alone (state 0) and of the state alone (data 0) are NOT used:
        # the reference below is the plain bit-serial LFSR per (state, byte).

    def enumerate(self, tier):
        return [dict(hi=k) for k in range(256)] if tier == "thorough" else None

    def strategy(self):
        return st.fixed_dictionaries(dict(hi=st.integers(0, 255)))

    def run(self, case):
        lanes = self.LANES
        script = []
        for lo in range(256):
            s = (case["hi"] << 8) | lo
            for base in range(0, 256, lanes):
                script.append(dict(state=s, base=base))
        trace = self.h.run_script(script)
        crc_bits = R.crc_bits
        dbits = [lsb_bits(d, 8) for d in range(256)]
        for vec, o in zip(script, trace):
            s, base, out = vec["state"], vec["base"], o.out
            for i in range(lanes):
                got = (out >> (16 * i)) & M16
                exp = crc_bits(dbits[base + i], POLY16_USB2, 16, init=s)
                if got != exp:
                    return fail(f"usb2-crc16 step: state {s:#06x} data {base + i:#04x}: expected {exp:#06x} got "
                                f"{got:#06x}", signature="step-mismatch-usb2-crc16")
        return Result(ok=True, nontrivial=True, labels=("block",))


class Usb2Crc16Stripe(Usb2Crc16Exhaustive):
    name = "usb2-crc16-step-stripe"
    exhaustive = False
    rule = ("quick-tier stripe of the exhaustive USB2 CRC16 step pass: the 32 state blocks hi = 5, 13, 21, ... (8192 "
            "states x all 256 data bytes = 2^21 of the 2^24 pairs); the full enumeration runs in the thorough tier; "
            "every case is non-trivial")

    def enumerate(self, tier):
        return [dict(hi=k) for k in range(5, 256, 8)] if tier == "quick" else None


_H = {}


def _harness():
    if "h" not in _H:
        _H["h"] = _step_wrapper()
    return _H["h"]


# ------------------------------------------------------------------------------------------------ walks
class WalkUsb2Crc16(Sub):
    name = "walk-usb2-crc16"
    budget = {"quick": 2000, "thorough": 40000}
    rule = ("USBDataPacketCRC module with one DataCRCInterface: walks of 1..64 ops (rx byte / tx byte / idle / start, "
            "start also together with an rx byte as the receiver does for the PID), interface.crc compared after "
            "every cycle with the bit-serial CRC16 (0x8005, init 0xFFFF, reflected, inverted) of the bytes since the "
            "last start; non-trivial = >=2 bytes accumulated after a mid-walk start")

    def setup(self):
        from amaranth import Signal
        from luna.gateware.usb.usb2.packet import USBDataPacketCRC

        class Iface:
            def __init__(self):
                self.start = Signal(name="crc_start")
                self.crc = Signal(16, name="crc_value")

        dut = USBDataPacketCRC()
        self.i0 = Iface()
        self.i1 = Iface()
        dut.add_interface(self.i0)
        dut.add_interface(self.i1)
        self.h = CycleHarness(dut, ins=dict(start0=self.i0.start, start1=self.i1.start, rx_valid=dut.rx_valid,
                                            rx_data=dut.rx_data, tx_valid=dut.tx_valid, tx_data=dut.tx_data),
                              outs=dict(crc0=self.i0.crc, crc1=self.i1.crc), domain="usb")

    def strategy(self):
        # op kinds: 0 rx byte, 1 tx byte, 2 idle, 3 start (iface 0), 4 start (iface 1), 5 start + rx byte
        op = st.tuples(weighted([(0, 8), (1, 5), (2, 3), (3, 1), (4, 1), (5, 2)]), st.integers(0, 255),
                       st.integers(0, 255))
        return st.fixed_dictionaries(dict(ops=long_lists(op, min_size=1, max_size=64, average=24)))

    def run(self, case):
        script = []
        for kind, b, other in case["ops"]:
            script.append(dict(start0=int(kind in (3, 5)), start1=int(kind == 4), rx_valid=int(kind in (0, 5)),
                               rx_data=b if kind in (0, 5) else other, tx_valid=int(kind == 1),
                               tx_data=b if kind == 1 else other))
        script.append(dict(start0=0, start1=0, rx_valid=0, tx_valid=0))
        trace = self.h.run_script(script)
        data = []
        restarted = False
        nt = False
        labels = set()
        for t, o in enumerate(trace):
            # o is sampled in cycle t: it reflects ops 0..t-1
            exp = R.usb2_crc16(bytes(data))
            if o.crc0 != exp or o.crc1 != exp:
                return fail(f"cycle {t}: after bytes {bytes(data).hex()} since last start expected crc {exp:#06x}, "
                            f"got {o.crc0:#06x}/{o.crc1:#06x}", signature="walk-mismatch-usb2-crc16")
            if t < len(case["ops"]):
                kind, b, _ = case["ops"][t]
                if kind in (3, 4, 5):
                    data = []
                    restarted = t > 0
                    labels.add("start+rx" if kind == 5 else "start")
                elif kind in (0, 1):
                    data.append(b)
                    labels.add("rx" if kind == 0 else "tx")
                    if restarted and len(data) >= 2:
                        nt = True
        return Result(ok=True, nontrivial=nt, labels=tuple(sorted(labels)))


class WalkUsb3Crc16(Sub):
    name = "walk-usb3-crc16"
    budget = {"quick": 1500, "thorough": 30000}
    rule = ("HeaderPacketCRC module: walks of 1..64 ops (advance word / idle with changing data_input / clear), crc "
            "compared after every cycle with the bit-serial CRC16 (0x100B, init 0xFFFF, reflected, inverted) over the "
            "little-endian bytes of the words since the last clear; walks of exactly 3 words (the header case) are "
            "forced in 1/4 of the cases; non-trivial = >=2 words accumulated")

    def setup(self):
        from luna.gateware.usb.usb3.link.crc import HeaderPacketCRC
        dut = HeaderPacketCRC()
        self.h = CycleHarness(dut, ins=dict(clear=dut.clear, data=dut.data_input, adv=dut.advance_crc),
                              outs=dict(crc=dut.crc), domain="ss")

    def strategy(self):
        op = st.tuples(weighted([(0, 10), (1, 3), (2, 1)]), _word())      # 0 advance, 1 idle, 2 clear
        free = long_lists(op, min_size=1, max_size=64, average=16)
        hdr = st.lists(st.tuples(st.just(0), _word()), min_size=3, max_size=3)
        return st.fixed_dictionaries(dict(ops=st.one_of(free, free, free, hdr)))

    def run(self, case):
        ops = [tuple(o) for o in case["ops"]]
        script = [dict(clear=int(k == 2), adv=int(k == 0), data=w) for k, w in ops]
        script.append(dict(clear=0, adv=0))
        trace = self.h.run_script(script)
        words = []
        nt = False
        labels = set()
        for t, o in enumerate(trace):
            exp = R.usb3_crc16(struct.pack(f"<{len(words)}I", *words))
            if o.crc != exp:
                return fail(f"cycle {t}: after words {[hex(w) for w in words]} expected crc16 {exp:#06x} got "
                            f"{o.crc:#06x}", signature="walk-mismatch-usb3-crc16")
            if t < len(ops):
                k, w = ops[t]
                if k == 2:
                    words = []
                    labels.add("clear")
                elif k == 0:
                    words.append(w)
                    if len(words) >= 2:
                        nt = True
                    if len(words) == 3:
                        labels.add("3-words")
                    if len(words) > 3:
                        labels.add(">3-words")
        return Result(ok=True, nontrivial=nt, labels=tuple(sorted(labels)))


class WalkUsb3Crc32(Sub):
    name = "walk-usb3-crc32"
    budget = {"quick": 2500, "thorough": 50000}
    rule = ("DataPacketPayloadCRC module: walks of 1..64 ops (advance word/3B/2B/1B with garbage in the unused upper "
            "bytes, idle, clear; 3/4 of the walks are caller-shaped: full words then one trailing partial word), crc and "
            "the three next_crc_{3,2,1}B look-ahead outputs compared every cycle with the bit-serial CRC32 (0x04C11DB7, "
            "init all ones, reflected, inverted) of the byte string so far (+ the candidate trailing bytes); "
            "non-trivial = a partial-word advance after >=1 full word")

    def setup(self):
        from luna.gateware.usb.usb3.link.crc import DataPacketPayloadCRC
        d = DataPacketPayloadCRC()
        self.h = CycleHarness(d, ins=dict(clear=d.clear, data=d.data_input, w=d.advance_word, b3=d.advance_3B,
                                          b2=d.advance_2B, b1=d.advance_1B),
                              outs=dict(crc=d.crc, n3=d.next_crc_3B, n2=d.next_crc_2B, n1=d.next_crc_1B), domain="ss")

    # op kind: 4 full word, 3/2/1 partial, 0 idle, 5 clear
    def strategy(self):
        free_op = st.tuples(weighted([(4, 10), (3, 2), (2, 2), (1, 2), (0, 3), (5, 1)]), _word())
        free = long_lists(free_op, min_size=1, max_size=64, average=16)

        @st.composite
        def caller(draw):
            n = draw(st.integers(0, 40))
            ops = [(4, draw(_word())) for _ in range(n)]
            tail = draw(st.sampled_from([0, 1, 2, 3]))
            if tail:
                ops.append((tail, draw(_word())))
            elif not ops:
                ops.append((4, draw(_word())))
            return ops

        return st.fixed_dictionaries(dict(ops=st.one_of(caller(), caller(), caller(), free)))

    def run(self, case):
        ops = [tuple(o) for o in case["ops"]]
        script = [dict(clear=int(k == 5), w=int(k == 4), b3=int(k == 3), b2=int(k == 2), b1=int(k == 1), data=v)
                  for k, v in ops]
        script.append(dict(clear=0, w=0, b3=0, b2=0, b1=0))
        trace = self.h.run_script(script)
        data = b""
        full_seen = False
        nt = False
        labels = set()
        for t, o in enumerate(trace):
            cur = script[t]["data"] if "data" in script[t] else script[t - 1]["data"]
            le = struct.pack("<I", cur)
            exp = dict(crc=R.usb3_crc32(data), n3=R.usb3_crc32(data + le[:3]), n2=R.usb3_crc32(data + le[:2]),
                       n1=R.usb3_crc32(data + le[:1]))
            got = dict(crc=o.crc, n3=o.n3, n2=o.n2, n1=o.n1)
            if exp != got:
                bad = [k for k in exp if exp[k] != got[k]]
                return fail(f"cycle {t}: after {len(data)} bytes {data.hex()} with data_input {cur:#010x}: "
                            + ", ".join(f"{k} expected {exp[k]:#010x} got {got[k]:#010x}" for k in bad),
                            signature="walk-mismatch-usb3-crc32-" + "+".join(bad))
            if t < len(ops):
                k, v = ops[t]
                if k == 5:
                    data = b""
                    full_seen = False
                    labels.add("clear")
                elif k == 4:
                    data += struct.pack("<I", v)
                    full_seen = True
                elif k in (1, 2, 3):
                    data += struct.pack("<I", v)[:k]
                    labels.add(f"partial-{k}B")
                    if full_seen:
                        nt = True
        if len(data) % 4 == 0 and data:
            labels.add("aligned-end")
        return Result(ok=True, nontrivial=nt, labels=tuple(sorted(labels)))


SUBS = [Crc5Exhaustive(), TokenAccept(), TokenSequence(), StepBasis(), StepRandom(), Usb2Crc16Exhaustive(), Usb2Crc16Stripe(),
        WalkUsb2Crc16(),
        WalkUsb3Crc16(), WalkUsb3Crc32()]


# ---------------------------------------------------------------------------------------------------------------
# "... so a packet is accepted exactly when its check field is correct": the USB2 data-packet receiver is the consumer
# of the CRC16; its acceptance (packet_complete vs crc_mismatch, under rx_valid gaps at any byte position) is C02's
# subject and is reused here with a smaller budget, so that a sequential fault around an untouched CRC equation
# (e.g. the running CRC captured in the wrong cycle) is also seen from C30.
from lunaverif.props.c02 import Receiver as _C02Receiver


class Usb2DataAccept(_C02Receiver):
    name = "usb2-data-accept"
    budget = {"quick": 2500, "thorough": 40000}


SUBS.append(Usb2DataAccept())


# ---------------------------------------------------------------------------------------------------------------
# The same clause for the USB3 header CRC16 and the link-control-word CRC5: RawHeaderPacketReceiver is the consumer
# of HeaderPacketCRC / compute_usb_crc5.  Trains of header packets (also back-to-back, also with sink.valid gaps)
# are judged packet by packet: new_packet iff both check fields are the bit-serial CRCs of the packet's OWN words.
HPSTART_WORD = (0xF7FBFBFB, 0xF)          # SHP SHP SHP EPF (K27.7 x3, K23.7), symbol 0 in bits 0..7


def _le(words):
    return struct.pack(f"<{len(words)}I", *words)


class Usb3HeaderAccept(Sub):
    name = "usb3-header-accept"
    budget = {"quick": 1000, "thorough": 30000}
    rule = ("RawHeaderPacketReceiver fed trains of 1..12 header packets (HPSTART + DW0..DW3) on its sink without reset: "
            "0..3 words between packets (0 = back-to-back, half of the followers; idle words valid or not), sink.valid "
            "gaps before any word of a packet, header words uniform / sparse / dense / equal to the previous packet's; "
            "CRC16 field: correct (3 in 6), one bit off, random, the previous packet's field, or the CRC16 of "
            "previous-DW0..2 + own-DW0..2 (what a CRC that was not re-initialised would expect); CRC5 field correct "
            "(5 in 7), one bit off or random; expected_sequence always equals the packet's sequence number. Oracle: "
            "between the DW3 of a packet and the DW3 of the next one new_packet strobes exactly once, with the packet's "
            "own DW0..2 and link-control fields on `packet`, iff both fields equal the bit-serial CRC16 (0x100B, init "
            "0xFFFF, reflected, inverted, over the 12 little-endian bytes) and CRC5 of that packet; otherwise never, "
            "and a packet with correct fields never raises bad_packet. non-trivial = a back-to-back follower AND >= 1 "
            "accepted AND >= 1 rejected packet")

    def setup(self):
        from luna.gateware.usb.usb3.link.receiver import RawHeaderPacketReceiver
        d = RawHeaderPacketReceiver()
        p = d.packet
        self.h = CycleHarness(d, ins=dict(valid=d.sink.valid, data=d.sink.data, ctrl=d.sink.ctrl,
                                          expseq=d.expected_sequence),
                              outs=dict(new=d.new_packet, bad=d.bad_packet, badseq=d.bad_sequence, dw0=p.dw0, dw1=p.dw1,
                                        dw2=p.dw2, seq=p.sequence_number, rsv=p.dw3_reserved, hub=p.hub_depth,
                                        dl=p.delayed, df=p.deferred), domain="ss")

    def strategy(self):
        word = st.one_of(_word(), st.none())          # None = same word as in the previous packet
        pkt = st.fixed_dictionaries(dict(
            dw=st.tuples(word, word, word).map(list),
            lcw=st.integers(0, 0x7FF),
            c16=st.tuples(weighted([("good", 3), ("flip", 1), ("rand", 1), ("prev", 1), ("concat", 1)]),
                          st.integers(0, 0xFFFF)).map(list),
            c5=st.tuples(weighted([("good", 5), ("flip", 1), ("rand", 1)]), st.integers(0, 31)).map(list),
            gap=weighted([(0, 5), (1, 2), (2, 1), (3, 1)]),
            gap_valid=st.integers(0, 7),               # bit i: idle word i of the gap is presented with valid=1
            stalls=st.lists(st.tuples(st.integers(1, 4), st.integers(1, 2)).map(list), max_size=2),
        ))
        return st.fixed_dictionaries(dict(pkts=long_lists(pkt, min_size=1, max_size=12, average=5),
                                          lead=st.integers(0, 3)))

    def run(self, case):
        script = [dict(valid=0, data=0, ctrl=0, expseq=0)] * case["lead"]
        pkts = []
        prev_dw = [0, 0, 0]
        prev_c16 = 0
        for k, pk in enumerate(case["pkts"]):
            dw = [prev_dw[i] if w is None else w for i, w in enumerate(pk["dw"])]
            good16 = R.usb3_crc16(_le(dw))
            how, arg = pk["c16"]
            c16 = {"good": good16, "flip": good16 ^ (1 << (arg % 16)), "rand": arg, "prev": prev_c16,
                   "concat": R.usb3_crc16(_le(prev_dw + dw))}[how]
            lcw = pk["lcw"]
            good5 = R.usb3_crc5(lcw)
            how5, arg5 = pk["c5"]
            c5 = {"good": good5, "flip": good5 ^ (1 << (arg5 % 5)), "rand": arg5}[how5]
            dw3 = c16 | (lcw << 16) | (c5 << 27)
            seq = lcw & 7
            gap = pk["gap"] if k else 0
            for i in range(gap):
                script.append(dict(valid=(pk["gap_valid"] >> i) & 1, data=0, ctrl=0, expseq=seq))
            stall = {}
            for pos, n in pk["stalls"]:
                stall[pos] = stall.get(pos, 0) + n
            words = [HPSTART_WORD] + [(w, 0) for w in dw + [dw3]]
            for i, (d, c) in enumerate(words):
                for j in range(stall.get(i, 0)):
                    script.append(dict(valid=0, data=(d ^ (0x9E3779B1 * (j + 1))) & M32, ctrl=0, expseq=seq))
                script.append(dict(valid=1, data=d, ctrl=c, expseq=seq))
            pkts.append(dict(k=k, dw=dw, dw3=dw3, lcw=lcw, seq=seq, end=len(script) - 1, gap=gap, b2b=bool(k) and gap == 0,
                             ok=(c16 == good16 and c5 == good5), c16=c16, good16=good16, c5=c5, good5=good5))
            prev_dw, prev_c16 = dw, c16
        # after the last packet: idle words (the receiver judges the packet in the cycle after DW3)
        script += [dict(valid=1, data=0, ctrl=0)] + [dict(valid=0, data=0, ctrl=0)] * 3
        # the sequence number is compared in the cycle after DW3 (possibly the first word of the next packet): the
        # expected number equals the packet's own from its HPSTART up to and including that cycle
        for p in pkts:
            script[p["end"] + 1] = dict(script[p["end"] + 1], expseq=p["seq"])
            if "expseq" not in script[p["end"] + 2]:
                script[p["end"] + 2] = dict(script[p["end"] + 2], expseq=p["seq"])
        trace = self.h.run_script(script, tail=3)

        for i, p in enumerate(pkts):
            lo = p["end"] + 1
            hi = pkts[i + 1]["end"] + 1 if i + 1 < len(pkts) else len(trace)
            news = [t for t in range(lo, hi) if trace[t].new]
            bads = [t for t in range(lo, hi) if trace[t].bad]
            where = (f"packet {p['k']} of {len(pkts)} (DW0..3 = {[hex(w) for w in p['dw'] + [p['dw3']]]}, DW3 in cycle "
                     f"{p['end']}, " + ("back-to-back after the previous packet" if p["b2b"] else
                                        f"{p['gap']} words after the previous packet" if p["k"] else "first packet") + ")")
            shape = "-back-to-back" if p["b2b"] else ""
            if p["ok"]:
                if len(news) != 1 or bads:
                    return fail(f"{where}: CRC16 {p['c16']:#06x} and CRC5 {p['c5']:#04x} are CORRECT but new_packet "
                                f"strobed in cycles {news} and bad_packet in {bads}",
                                signature="good-header-not-accepted" + shape)
                o = trace[news[0]]
                got = (o.dw0, o.dw1, o.dw2, o.seq | (o.rsv << 3) | (o.hub << 6) | (o.dl << 9) | (o.df << 10))
                exp = (*p["dw"], p["lcw"])
                if got != exp:
                    return fail(f"{where}: accepted, but packet output (dw0, dw1, dw2, link control bits) = "
                                f"{[hex(x) for x in got]}, expected {[hex(x) for x in exp]}",
                                signature="accepted-header-fields-wrong" + shape)
            elif news:
                which = ("CRC16 " + f"{p['c16']:#06x} (correct {p['good16']:#06x})" if p["c16"] != p["good16"] else "") + \
                        (" CRC5 " + f"{p['c5']:#04x} (correct {p['good5']:#04x})" if p["c5"] != p["good5"] else "")
                return fail(f"{where}: WRONG {which.strip()} but new_packet strobed in cycles {news}",
                            signature="bad-header-accepted" + shape)
        n_ok = sum(p["ok"] for p in pkts)
        b2b = any(p["b2b"] for p in pkts)
        labels = set()
        if b2b:
            labels.add("back-to-back")
        if any(p["b2b"] and p["ok"] for p in pkts):
            labels.add("good-back-to-back-follower")
        if any(p["b2b"] and not p["ok"] for p in pkts):
            labels.add("bad-back-to-back-follower")
        for pk in case["pkts"]:
            if pk["c16"][0] != "good":
                labels.add("crc16-" + pk["c16"][0])
            if pk["stalls"]:
                labels.add("valid-gap-inside-packet")
        return Result(ok=True, nontrivial=b2b and 0 < n_ok < len(pkts), labels=tuple(sorted(labels)))


SUBS.append(Usb3HeaderAccept())
