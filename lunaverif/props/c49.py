"""C49 — UART transmitters produce exact 8N1 frames."""
from hypothesis import strategies as st

from lunaverif.core import Sub, Result, fail
from lunaverif.gen import weighted
from lunaverif.simkit import CycleHarness

PROPERTY = "C49"
ASSUMPTIONS = [
    "the producer obeys valid-hold (valid and payload are held until a cycle with ready)",
    "'accepted only when it will be framed next' is decided as: in the cycle after an acceptance every previously "
    "accepted byte's frame has already started (no queueing), and frames appear in acceptance order",
    "the line is observed for 10*divisor*(pending bytes)+margin cycles after the last acceptance",
]

BYTE_CONFIGS = [(1, d) for d in range(1, 41)]
MULTI_CONFIGS = [(w, d) for w in (1, 2, 3, 4) for d in (1, 2, 3, 5, 8, 13)]


def build(width, divisor, multi):
    if multi:
        from luna.gateware.interface.uart import UARTMultibyteTransmitter
        dut = UARTMultibyteTransmitter(byte_width=width, divisor=divisor)
    else:
        from luna.gateware.interface.uart import UARTTransmitter
        dut = UARTTransmitter(divisor=divisor)
    s = dut.stream
    return CycleHarness(dut, ins=dict(valid=s.valid, payload=s.payload), outs=dict(tx=dut.tx, ready=s.ready, idle=dut.idle))


class _Producer:
    """items: list of (value, gap): the item becomes valid `gap` cycles after the previous acceptance (gap 0 = it is
    already waiting when the previous item is accepted)."""

    def __init__(self, items, frame_cycles, bytes_per_item, lead):
        self.items = items
        self.i = 0
        self.wait = lead
        self.valid = 0
        self.log = []           # valid, payload per cycle
        self.tail = None
        self.frame = frame_cycles * bytes_per_item

    def step(self, t, prev):
        if prev is not None and self.valid and prev.ready:
            self.i += 1
            self.valid = 0
            if self.i < len(self.items):
                self.wait = self.items[self.i][1]
        if self.i >= len(self.items):
            if self.tail is None:
                self.tail = 2 * self.frame + 12
            self.tail -= 1
            if self.tail < 0:
                return None
            self.log.append((0, 0))
            return dict(valid=0)
        if not self.valid:
            if self.wait > 0:
                self.wait -= 1
                self.log.append((0, 0))
                return dict(valid=0)
            self.valid = 1
        v = self.items[self.i][0]
        self.log.append((1, v))
        return dict(valid=1, payload=v)


def decode_line(tx, divisor):
    """-> (frames [(start_cycle, byte)], error or None).  Every cycle of every bit cell is checked."""
    frames = []
    t = 0
    n = len(tx)
    while t < n:
        if tx[t] == 1:
            t += 1
            continue
        s = t
        if s + 10 * divisor > n:
            return frames, ("truncated", s, f"frame starting in cycle {s} not finished within the observation window")
        bits = []
        for b in range(10):
            cell = tx[s + b * divisor: s + (b + 1) * divisor]
            if len(set(cell)) != 1:
                k = next(i for i, x in enumerate(cell) if x != cell[0])
                return frames, ("bit-length", s, f"frame starting in cycle {s}: bit cell {b} changes after {k} of "
                                f"{divisor} cycles (cycle {s + b * divisor + k})")
            bits.append(cell[0])
        if bits[9] != 1:
            return frames, ("stop-bit", s, f"frame starting in cycle {s}: stop bit is 0")
        frames.append((s, sum(bit << i for i, bit in enumerate(bits[1:9]))))
        t = s + 10 * divisor
    return frames, None


class UartSub(Sub):
    multi = False
    name = "uart-byte"
    configs = BYTE_CONFIGS
    budget = {"quick": 4500, "thorough": 45000}
    rule = ("UARTTransmitter(divisor 1..40): byte list with per-byte spacing (already waiting / arriving around the end "
            "of the previous frame / late) from a valid-hold producer; oracle: the tx waveform, checked cycle by cycle, "
            "parses into 10*divisor-cycle 8N1 frames (start 0, LSB first, stop 1, every cell exactly divisor cycles) whose "
            "bytes equal the accepted bytes in order, idle high otherwise, and at each acceptance no earlier byte is still "
            "waiting for its frame; non-trivial = >=1 back-to-back frame pair AND >=1 pair separated by idle time")

    def setup(self):
        self.h = {}

    def harness(self, ci):
        if ci not in self.h:
            w, d = self.configs[ci]
            self.h[ci] = build(w, d, self.multi)
        return self.h[ci]

    def strategy(self):
        def for_cfg(ci):
            w, d = self.configs[ci]
            frame = 10 * d * w
            near = [max(0, frame + k) for k in (-3, -2, -1, 0, 1, 2)]
            gap = st.one_of(st.just(0), st.sampled_from(near), st.sampled_from([1, 2, d, 9 * d, 10 * d - 1]),
                            st.integers(0, frame + 8), st.integers(frame + 1, frame + 30), st.just(2 * frame + 3))
            special = st.sampled_from([0x00, 0xFF, 0x55, 0xAA, 0x01, 0x80, 0x7F, 0xFE])
            byte = st.one_of(st.integers(0, 255), special)
            value = st.lists(byte, min_size=w, max_size=w).map(lambda bs: sum(b << (8 * i) for i, b in enumerate(bs)))
            max_items = max(2, min(7, 1200 // frame))
            return st.fixed_dictionaries(dict(cfg=st.just(ci), lead=st.integers(0, 4),
                                              items=st.lists(st.tuples(value, gap).map(list), min_size=1, max_size=max_items)))
        pool = [ci for ci, c in enumerate(self.configs) for _ in range(3 if c[1] <= 6 else 1)]
        return st.sampled_from(pool).flatmap(for_cfg)

    def run(self, case):
        ci = case["cfg"]
        w, d = self.configs[ci]
        items = case["items"]
        prod = _Producer(items, 10 * d, w, case["lead"])
        bound = case["lead"] + sum(g for _, g in items) + (len(items) + 3) * (10 * d * w + 4) + 40
        trace = self.harness(ci).run_driver(prod, max_cycles=bound)
        cfg = ("multibyte width=%d " % w if self.multi else "") + f"divisor={d}"
        log = prod.log
        if prod.i < len(items):
            return fail(f"{cfg}: item {prod.i} was not accepted within {bound} cycles", signature="never-ready")
        tx = [o.tx for o in trace]
        accepts = [(t, log[t][1]) for t in range(len(trace)) if log[t][0] and trace[t].ready]
        if len(accepts) != len(items) or [v for _, v in accepts] != [v for v, _ in items]:
            return fail(f"{cfg}: harness bookkeeping mismatch", signature="harness")
        frames, err = decode_line(tx, d)
        exp_bytes = []
        for _, v in accepts:
            exp_bytes += [(v >> (8 * i)) & 0xFF for i in range(w)]
        if err:
            kind, s, msg = err
            return fail(f"{cfg}: {msg}; accepted {[hex(v) for _, v in accepts]} at cycles {[t for t, _ in accepts]}",
                        signature="frame-" + kind)
        got = [b for _, b in frames]
        if got != exp_bytes:
            sig = "frame-bytes"
            if len(got) < len(exp_bytes):
                sig = "frame-missing"
            elif len(got) > len(exp_bytes):
                sig = "frame-extra"
            elif self.multi and sorted(got) == sorted(exp_bytes):
                sig = "frame-byte-order"
            return fail(f"{cfg}: line carried {[hex(b) for b in got]} (frame starts {[s for s, _ in frames]}), accepted "
                        f"bytes were {[hex(b) for b in exp_bytes]}", signature=sig)
        if accepts and frames and frames[0][0] <= accepts[0][0]:
            return fail(f"{cfg}: first frame starts in cycle {frames[0][0]}, before/with the first acceptance in cycle "
                        f"{accepts[0][0]}", signature="frame-before-accept")
        # no queueing: one cycle after the k-th acceptance, all bytes of items 0..k-1 have started
        for k, (a, _) in enumerate(accepts):
            started = sum(1 for s, _ in frames if s <= a + 1)
            if started < k * w:
                return fail(f"{cfg}: item {k} accepted in cycle {a} while only {started} of the {k * w} earlier bytes had "
                            f"started their frame (it will not be framed next)", signature="accepted-early")
        back_to_back = any(s2 == s1 + 10 * d for (s1, _), (s2, _) in zip(frames, frames[1:]))
        spaced = any(s2 > s1 + 10 * d for (s1, _), (s2, _) in zip(frames, frames[1:]))
        labels = {"div=1" if d == 1 else ("div<=6" if d <= 6 else "div>6")}
        if self.multi:
            labels.add(f"width={w}")
        if back_to_back:
            labels.add("back-to-back")
        if spaced:
            labels.add("spaced")
        if any(s2 == s1 + 10 * d + 1 for (s1, _), (s2, _) in zip(frames, frames[1:])):
            labels.add("one-idle-cycle-between")
        return Result(ok=True, nontrivial=back_to_back and spaced, labels=tuple(sorted(labels)))


class UartMultiSub(UartSub):
    multi = True
    name = "uart-multibyte"
    configs = MULTI_CONFIGS
    budget = {"quick": 2500, "thorough": 25000}
    rule = ("UARTMultibyteTransmitter(byte_width 1..4, divisor from 1,2,3,5,8,13): word list with per-word spacing; same "
            "line decoder; the frames must be the accepted words' bytes little-endian, in order, and a word is accepted "
            "only when every byte of the previous words has started its frame; non-trivial as for uart-byte")


SUBS = [UartSub(), UartMultiSub()]
