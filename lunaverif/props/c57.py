"""C57 — the ready-made USB serial (CDC-ACM) device carries bytes both ways and answers CDC requests."""
from hypothesis import strategies as st

from lunaverif.core import Sub, Result, fail
from lunaverif.gen import long_lists, weighted
from lunaverif.bfm import g9_usb2host as H
from lunaverif.bfm import g9_hostgen as G
from lunaverif.ref import g9_device_model as M

PROPERTY = "C57"
ASSUMPTIONS = [
    "luna.full_devices.USBSerialDevice on a bare UTMI bus (full speed), max packet 64; its tx/rx streams are driven "
    "by a producer that holds valid until accepted and a consumer with an arbitrary ready pattern",
    "expected descriptors are built independently with usb_protocol's emitters from the documented topology "
    "(IAD + communications interface with header/union/call-management descriptors and interrupt IN ep3, data "
    "interface with bulk IN/OUT ep4) and the constructor arguments",
    "host packets well formed with good CRCs; SET_LINE_CODING is sent in its valid form (host-to-device, 7 data "
    "bytes); the host never sends more than max-packet-size OUT data",
    "whether an OUT packet that may not fit the receive FIFO is ACKed or NAKed is C13's subject",
    "a host may issue CLEAR_FEATURE(ENDPOINT_HALT) for any endpoint address at any time between transfers; it takes "
    "effect when the host ACKs the status ZLP and resets the data toggle of the named address on both sides, of no "
    "other address (USB 2.0 9.4.5); only complete transfers are generated (abandoned ones are C14's subject)",
    "a host that did not acknowledge a bulk IN packet may service other endpoints of the device (complete control "
    "transfers, other INs/OUTs, SOFs) before it retries that IN; the retry must carry the same packet and data PID "
    "(USB 2.0 8.6.4)",
]

GD = lambda t, i, l, lang=0: dict(k="ctrl", req=[0x80, 6, (t << 8) | i, lang, l])
STEPS = {
    "dev8": [GD(1, 0, 8)], "dev18": [GD(1, 0, 18)], "dev64": [GD(1, 0, 64)],
    "cfg9": [GD(2, 0, 9)], "cfgfull": [GD(2, 0, 71)], "cfg255": [GD(2, 0, 255)],
    "str0": [GD(3, 0, 255)], "str1": [GD(3, 1, 255, 0x409)], "str2": [GD(3, 2, 255, 0x409)], "str3": [GD(3, 3, 255, 0x409)],
    "qualifier": [GD(6, 0, 10)], "str9": [GD(3, 9, 255, 0x409)],
    "setaddr": None, "setcfg": [dict(k="ctrl", req=[0, 9, 1, 0, 0])], "getcfg": [dict(k="ctrl", req=[0x80, 8, 0, 0, 1])],
    "getstatus": [dict(k="ctrl", req=[0x80, 0, 0, 0, 2])],
    "set_line_coding": [dict(k="ctrl", req=[0x21, 0x20, 0, 0, 7])],
    "set_line_coding_v": [dict(k="ctrl", req=[0x21, 0x20, 0x55, 1, 7])],
    "set_line_coding_lost_ack": [dict(k="ctrl", req=[0x21, 0x20, 0, 0, 7], noack=1)],
    "get_line_coding": [dict(k="ctrl", req=[0xA1, 0x21, 0, 0, 7])],
    "set_control_line_state": [dict(k="ctrl", req=[0x21, 0x22, 3, 0, 0])],
    "send_break": [dict(k="ctrl", req=[0x21, 0x23, 100, 0, 0])],
    "send_encapsulated": [dict(k="ctrl", req=[0x21, 0x00, 0, 0, 8])],
    "class_endpoint_recipient": [dict(k="ctrl", req=[0x22, 0x01, 0, 0x84, 0])],
    "vendor_in": [dict(k="ctrl", req=[0xC0, 0x20, 0, 0, 7])], "vendor_out": [dict(k="ctrl", req=[0x40, 0x20, 0, 0, 0])],
    "vendor_out_data": [dict(k="ctrl", req=[0x41, 0x01, 0, 0, 7])],
    "reserved": [dict(k="ctrl", req=[0x60, 0x20, 0, 0, 0])], "reserved_in": [dict(k="ctrl", req=[0xE0, 0x20, 0, 0, 7])],
    "notify": [dict(k="in", ep=3, ack=1)],
    "out1": [dict(k="out", ep=4, n=1, flip=0)], "out13": [dict(k="out", ep=4, n=13, flip=0)],
    "out64": [dict(k="out", ep=4, n=64, flip=0)], "out64x2": [dict(k="out", ep=4, n=64, flip=0), dict(k="out", ep=4, n=64, flip=0)],
    "out0": [dict(k="out", ep=4, n=0, flip=0)], "out_repeat": [dict(k="out", ep=4, n=9, flip=1)],
    "tx1": [dict(k="feed", ep=4, n=1, last=1), dict(k="drain")], "tx20": [dict(k="feed", ep=4, n=20, last=1), dict(k="drain")],
    "tx64": [dict(k="feed", ep=4, n=64, last=1), dict(k="drain")], "tx100": [dict(k="feed", ep=4, n=100, last=1), dict(k="drain")],
    "tx_nolast": [dict(k="feed", ep=4, n=64, last=0), dict(k="drain")],
    # two-packet transfers of many lengths: the byte that closes the second packet is accepted at a different time after
    # the first packet's IN token for each length and producer pace (ACK / packet-completion coincidences)
    **{f"tx{n}": [dict(k="feed", ep=4, n=n, last=1), dict(k="drain")] for n in (66, 70, 75, 80, 90, 110, 128, 130)},
    "tx_feed_only": [dict(k="feed", ep=4, n=30, last=1)], "in4": [dict(k="in", ep=4, ack=1)], "in4_noack": [dict(k="in", ep=4, ack=0)],
    "sof": [dict(k="sof")],
}
# CLEAR_FEATURE(ENDPOINT_HALT), the standard request a host stack issues on a bulk/interrupt endpoint at any time
# (usb_clear_halt after a cancelled or timed-out transfer, on port re-open): it names ONE endpoint address; the host
# resets its own toggle for that address only and keeps every other toggle (USB 2.0 9.4.5).  Addresses: both data
# endpoints (which share number 4), the notification endpoint, and addresses the device does not have -- the other
# direction of the notification endpoint's number, one-bit neighbours of 4 (5, 12, 0), endpoint 1.
CLEAR_HALT = {"in4": 0x84, "out4": 0x04, "in3": 0x83, "out3": 0x03, "in5": 0x85, "out5": 0x05, "in12": 0x8C,
              "out12": 0x0C, "in1": 0x81, "out0": 0x00, "in0": 0x80}
for _n, _a in CLEAR_HALT.items():
    STEPS["clear_halt_" + _n] = [dict(k="ctrl", req=[0x02, 1, 0, _a, 0])]
for _n in ("in4", "out4"):
    STEPS["clear_halt_" + _n + "_lost_ack"] = [dict(k="ctrl", req=[0x02, 1, 0, CLEAR_HALT[_n], 0], noack=1)]
# A transmit packet whose ACK is lost (the host received it damaged, or its ACK was lost: USB 2.0 8.6.4), with the
# host doing something ELSE before it retries the IN: a control transfer on endpoint 0 (with or without host ACKs in
# it), a poll of the notification endpoint, a bulk OUT, an SOF.  The retried IN must deliver the same packet with the
# same data PID, and the rest of the transfer must follow in order.  `pre` = number of packets fetched normally first.
LOST_ACK_INTERLEAVERS = ["set_line_coding", "set_line_coding_v", "set_line_coding_lost_ack", "getstatus", "getcfg",
                         "setcfg", "dev18", "cfgfull", "str2", "qualifier", "vendor_out", "send_break", "get_line_coding",
                         "clear_halt_out4", "clear_halt_in3", "clear_halt_in5", "notify", "out13", "sof"]
LOST_ACK_SHAPES = {"1": (1, 0), "20": (20, 0), "64": (64, 0), "100": (100, 0), "100b": (100, 1), "150": (150, 1)}
LOST_ACK_STEPS = []
for _s, (_n, _pre) in LOST_ACK_SHAPES.items():
    for _x in LOST_ACK_INTERLEAVERS:
        _name = f"txlost{_s}_then_{_x}"
        # the idle gives the producer time to hand the (first) packet over (sparse in_valid patterns), so that the
        # un-acknowledged IN really carries data; if it is NAKed instead the step degenerates to an ordinary transfer
        STEPS[_name] = ([dict(k="feed", ep=4, n=_n, last=1), dict(k="idle", n=4 * _n + 12)]
                        + [dict(k="in", ep=4, ack=1)] * _pre + [dict(k="in", ep=4, ack=0)]
                        + [dict(_i) for _i in STEPS[_x]] + [dict(k="drain")])
        LOST_ACK_STEPS.append(_name)
NAMES = sorted(STEPS)
ENUMERATION = ["dev8", "setaddr", "dev18", "qualifier", "cfg9", "cfgfull", "str0", "str2", "str1", "str3", "setcfg", "getcfg"]
STALLED = {"get_line_coding", "set_control_line_state", "send_break", "send_encapsulated", "class_endpoint_recipient",
           "vendor_in", "vendor_out", "vendor_out_data", "reserved", "reserved_in"}


CATEGORIES = [
    ["set_line_coding", "set_line_coding", "set_line_coding_v", "set_line_coding_lost_ack"],
    sorted(STALLED), sorted(STALLED),
    ["out0", "out1", "out13", "out13", "out64", "out64x2", "out_repeat"], ["out1", "out13", "out64", "out64x2"],
    ["tx1", "tx20", "tx64", "tx100", "tx_nolast", "tx_feed_only", "in4", "in4_noack"], ["tx1", "tx20", "tx64", "tx100"],
    [n for n in NAMES if n.startswith(("dev", "cfg", "str", "get", "setcfg", "setaddr", "qual"))] + ["notify", "sof"],
    # clear-halts: the two data endpoint addresses 3 : 2 : everything else 1 each (about half name 0x84 / 0x04)
    ["clear_halt_in4"] * 4 + ["clear_halt_out4"] * 3 + ["clear_halt_in4_lost_ack", "clear_halt_out4_lost_ack"]
    + ["clear_halt_" + n for n in sorted(CLEAR_HALT) if n not in ("in4", "out4")],
    LOST_ACK_STEPS,
    # a third tx category: the step mix grew by two categories (clear-halts, lost-ACK composites); this keeps the share
    # of plain tx-stream transfers -- whose ACK / packet-completion coincidences need many tries -- where it was
    ["tx66", "tx70", "tx75", "tx80", "tx90", "tx100", "tx110", "tx128", "tx130", "tx64"],
]


class Serial(Sub):
    name = "acm"
    budget = {"quick": 480, "thorough": 8000}
    shrink_budget = 150
    rule = ("host histories against USBSerialDevice: optionally the standard enumeration sequence (device descriptor 8 "
            "then 18 bytes, SET_ADDRESS, qualifier (absent), configuration 9 then full, strings, SET_CONFIGURATION), "
            "then 1..14 steps in any order from: any enumeration step, SET_LINE_CODING (with its 7-byte OUT data stage, "
            "also with a lost status ACK), the other CDC class requests with and without data stages, vendor and "
            "reserved-type requests, bulk OUT packets of 0/1/13/64 bytes (in sequence and repeated) under generated "
            "rx back-pressure, tx stream transfers of 1/20/64/66..130 bytes fetched with IN until the endpoint NAKs, IN "
            "polls of the notification endpoint, SOFs, and complete CLEAR_FEATURE(ENDPOINT_HALT) requests (also with a "
            "lost status ACK) naming the data-IN address 0x84, the data-OUT address 0x04 (same number, other "
            "direction), the notification endpoint and absent addresses (0x03, 4's one-bit neighbours 5/12/0, 1) at "
            "any point between the data transfers -- the host resets its toggle for the named address only and keeps "
            "all others; and tx transfers of 1..150 bytes whose (first or second) packet is NOT acknowledged by the "
            "host, which then does something else before retrying the IN -- a complete control transfer on endpoint 0 "
            "(SET_LINE_CODING, standard GETs/SETs, STALLed class/vendor requests, clear-halts), a notification poll, a "
            "bulk OUT or an SOF -- and then fetches the rest until the endpoint NAKs; oracle = independent device model specialised with "
            "independently built ACM descriptors: descriptor bytes, ZLP/ACK/STALL per stage, data PIDs, tx bytes in "
            "order exactly once, rx stream == acknowledged in-sequence OUT payloads; non-trivial = enumeration "
            "completed AND SET_LINE_CODING accepted AND some other class/vendor request STALLed AND bytes moved in "
            "both directions")

    def setup(self):
        self.rig = H.rig("serial")

    def strategy(self):
        return st.fixed_dictionaries(dict(
            enum=weighted([(1, 3), (0, 1)]), addr=st.integers(1, 127),
            steps=long_lists(st.one_of(*[st.sampled_from(c) for c in CATEGORIES]), min_size=1, max_size=14, average=7),
            **G.env_fields()))

    def run(self, case):
        b = G.Builder(self.rig.descriptors, acm=True, sig_ep=3)
        names = (ENUMERATION if case["enum"] else []) + list(case["steps"])
        for n in names:
            items = STEPS[n] if n != "setaddr" else [dict(k="ctrl", req=[0, 5, case["addr"], 0, 0])]
            for it in items:
                if it["k"] == "drain":
                    b.add(dict(op="drain", ep=4, max=12))
                else:
                    b.item(it)
        b.add(dict(op="drain", ep=4, max=12))
        run = H.execute("serial", b.prog, max_cycles=120000, **G.env_of(case))
        if run.violation is not None:
            v = run.violation
            return fail(v["msg"], signature=G.response_signature(v))
        err = H.stream_check(run)
        if err:
            return fail(err, signature="rx-stream-mismatch")
        tx = run.model.eps[(4, "in")]
        if tx.acked != len(tx.pkts) and not tx.cur:
            return fail(f"tx stream: {len(tx.pkts)} packets were accepted from the stream but only {tx.acked} reached "
                        f"the host although it polled until the endpoint NAKed", signature="tx-data-not-delivered")
        labels = set(n for n in names if n in STALLED or (n.startswith(("set_line", "out", "tx")) and "_then_" not in n))
        # un-acknowledged tx packets followed by traffic elsewhere before the retry (what actually happened on the bus)
        for k, t in enumerate(run.txns[:-1]):
            if t["kind"] == "in" and t["ep"] == 4 and t["resp"][0] == "data" and not t["ack"]:
                nxt = run.txns[k + 1]
                if nxt["kind"] == "sof" or nxt["ep"] != 4 or nxt["kind"] != "in":
                    rest = run.txns[k + 1:]
                    stop = next((j for j, u in enumerate(rest) if u["kind"] == "in" and u["ep"] == 4), len(rest))
                    acked = any(u.get("ack") for u in rest[:stop])
                    labels.add("tx-lost-ack-then-other-traffic" + ("-with-host-ACK" if acked else ""))
        # clear-halts that completed, by target and by the toggle state they met (the model's own bookkeeping)
        halts = [d for e, d in run.model.events if e == "clear_halt"]
        for k, (key, snap) in enumerate(halts):
            if key not in snap:
                labels.add("clear-halt-absent-endpoint")
                continue
            labels.add(f"clear-halt-ep{key[0]}{key[1]}-at-DATA{snap[key]}")
            if snap.get((key[0], "out" if key[1] == "in" else "in")) == 1:
                labels.add(f"clear-halt-ep{key[0]}{key[1]}-other-direction-at-DATA1")
        ev = [e[0] for e in run.model.events]
        enumerated = "address" in ev and "configuration" in ev and all(x in names for x in ("dev18", "cfgfull"))
        if enumerated:
            labels.add("enumerated")
        slc = any(n.startswith("set_line_coding") for n in names)
        stalled = any(n in STALLED for n in names)
        rx = len(run.model.eps[(4, "out")].consumed) > 0
        txd = tx.acked > 0
        if any(t["resp"] == M.NAK and t["ep"] == 4 and t["kind"] == "out" for t in run.txns):
            labels.add("rx-NAK")
        if 0 in case["ordy"]:
            labels.add("rx-back-pressure")
        return Result(ok=True, nontrivial=enumerated and slc and stalled and rx and txd, labels=tuple(sorted(labels)))


SUBS = [Serial()]
