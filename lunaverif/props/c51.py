"""C51 — SPI register interface reads and writes exactly the addressed register."""

from hypothesis import strategies as st

from lunaverif.core import Sub, Result, fail
from lunaverif.gen import long_lists, weighted
from lunaverif.simkit import CycleHarness

PROPERTY = "C51"
ASSUMPTIONS = [
    "SPI pins are synchronous to the DUT clock; SCK high and low phases last >= 3 DUT cycles each (the command "
    "interface needs 4 cycles between the last command bit and the first data bit: PROCESSING, LATCH_OUTPUT)",
    "SDI changes >= 1 cycle after a falling (sample) edge and >= 1 cycle before the next rising edge; the host samples "
    "SDO in the cycle of its falling edge",
    "CS is asserted >= 1 cycle before the first SCK edge, released >= 1 cycle after the last falling edge of a "
    "complete transaction and stays released >= 4 DUT cycles (a shorter CS pulse can be missed while the command "
    "interface sits in PROCESSING/LATCH_OUTPUT, which do not look at CS)",
    "read-side signals of SFR/read-only registers change only while CS is released ('current value' is then "
    "unambiguous)",
    "a transaction is complete when all address_size+1+register_size falling edges occurred with CS asserted; "
    "extra clocks after that are legal and must have no further effect; everything else is an abort",
    "memory registers narrower than register_size store the low bits of the written word and read back "
    "zero-extended",
]

# kind: mem(size,init) | ext | ro_const(value) | ro_sig | sfr | wo
CONFIGS = [
    dict(asz=15, rsz=32, default=0xDEADBEEF, autoneg=True,
         regs=[(2, "mem", 32, 0), (3, "mem", 8, 0x5A), (4, "ro_sig"), (5, "sfr"), (6, "wo"),
               (0x7FFF, "ro_const", 0x12345678), (0x4002, "mem", 32, 0xFFFF0000), (0x0102, "ext")]),
    dict(asz=3, rsz=8, default=0xA5, autoneg=False,
         regs=[(0, "mem", 8, 0x11), (1, "mem", 8, 0), (7, "sfr"), (5, "ro_sig")]),
    dict(asz=7, rsz=16, default=0, autoneg=True,
         regs=[(1, "mem", 16, 0), (0x41, "mem", 16, 0x00FF), (0x7F, "mem", 16, 0), (2, "ro_const", 0xBEEF), (3, "wo")]),
    dict(asz=4, rsz=13, default=0x1555, autoneg=True,
         regs=[(1, "mem", 13, 0), (9, "mem", 5, 3), (15, "ext"), (8, "sfr")]),
    dict(asz=10, rsz=24, default=0x00C0DE, autoneg=False,
         regs=[(0, "ro_const", 0xABCDEF), (0x155, "mem", 24, 0), (0x2AA, "mem", 24, 0x800001), (0x3FF, "sfr"),
               (0x154, "ro_sig")]),
    dict(asz=5, rsz=32, default=0xFFFFFFFF, autoneg=True, regs=[(31, "mem", 32, 0)]),
    dict(asz=15, rsz=8, default=0x7E, autoneg=True,
         regs=[(1, "mem", 8, 0), (0x4001, "mem", 8, 0), (0x2001, "mem", 8, 0), (0x0001 ^ 0x7FFF, "mem", 8, 0)]),
    dict(asz=3, rsz=32, default=0, autoneg=True,
         regs=[(1, "mem", 32, 0), (2, "mem", 32, 0), (3, "mem", 32, 0), (4, "mem", 32, 0), (5, "mem", 32, 0),
               (6, "mem", 32, 0), (7, "mem", 1, 1)]),
]


def build_dut(cfg):
    from amaranth import Signal
    from luna.gateware.interface.spi import SPIRegisterInterface
    dut = SPIRegisterInterface(address_size=cfg["asz"], register_size=cfg["rsz"],
                               default_read_value=cfg["default"], support_size_autonegotiation=cfg["autoneg"])
    ins = dict(sck=dut.spi.sck, sdi=dut.spi.sdi, cs=dut.spi.cs)
    outs = dict(sdo=dut.spi.sdo, idle=dut.idle, stalled=dut.stalled)
    rsz = cfg["rsz"]
    for reg in cfg["regs"]:
        a, kind = reg[0], reg[1]
        if kind == "mem":
            ws = Signal(name=f"ws_{a:x}")
            v = dut.add_register(a, size=reg[2], init=reg[3], write_strobe=ws)
            outs[f"v{a}"] = v
            outs[f"s{a}"] = ws
        elif kind == "ext":
            ws = Signal(name=f"ws_{a:x}")
            v = Signal(rsz, name=f"ext_{a:x}")
            dut.add_register(a, value_signal=v, write_strobe=ws)
            outs[f"v{a}"] = v
            outs[f"s{a}"] = ws
        elif kind == "ro_const":
            dut.add_read_only_register(a, read=reg[2])
        elif kind == "ro_sig":
            r = Signal(rsz, name=f"rd_{a:x}")
            dut.add_read_only_register(a, read=r)
            ins[f"r{a}"] = r
        elif kind == "sfr":
            r = Signal(rsz, name=f"rd_{a:x}")
            w = Signal(rsz, name=f"wr_{a:x}")
            ws = Signal(name=f"ws_{a:x}")
            dut.add_sfr(a, read=r, write_signal=w, write_strobe=ws, read_strobe=Signal(name=f"rs_{a:x}"))
            ins[f"r{a}"] = r
            outs[f"w{a}"] = w
            outs[f"s{a}"] = ws
        elif kind == "wo":
            w = Signal(rsz, name=f"wr_{a:x}")
            ws = Signal(name=f"ws_{a:x}")
            dut.add_sfr(a, write_signal=w, write_strobe=ws)
            outs[f"w{a}"] = w
            outs[f"s{a}"] = ws
    return dut, ins, outs


class RegModel:
    """Register file as the statement describes it (independent of the gateware)."""

    def __init__(self, cfg):
        self.cfg = cfg
        self.rmask = (1 << cfg["rsz"]) - 1
        self.kind = {}
        self.mem = {}
        self.size = {}
        self.rd = {}
        self.const = {}
        if cfg["autoneg"]:
            self.kind[0] = "ro_const"
            self.const[0] = self.rmask
        for reg in cfg["regs"]:
            a, k = reg[0], reg[1]
            self.kind[a] = k
            if k == "mem":
                self.size[a] = reg[2]
                self.mem[a] = reg[3] & ((1 << reg[2]) - 1)
            elif k == "ext":
                self.size[a] = cfg["rsz"]
                self.mem[a] = 0
            elif k == "ro_const":
                self.const[a] = reg[2] & self.rmask
            elif k in ("ro_sig", "sfr"):
                self.rd[a] = 0

    def read(self, a):
        k = self.kind.get(a)
        if k in ("mem", "ext"):
            return self.mem[a]
        if k == "ro_const":
            return self.const[a]
        if k in ("ro_sig", "sfr"):
            return self.rd[a]
        return self.cfg["default"] & self.rmask

    def write(self, a, v):
        """returns (strobe key or None, expected write_signal value or None)"""
        k = self.kind.get(a)
        if k in ("mem", "ext"):
            self.mem[a] = v & ((1 << self.size[a]) - 1)
            return f"s{a}", None
        if k in ("sfr", "wo"):
            return f"s{a}", v & self.rmask
        return None, None


def pick_address(cfg, sel, raw):
    """sel chooses an assigned register, a one-bit neighbour of one, or a raw address."""
    amask = (1 << cfg["asz"]) - 1
    assigned = [r[0] for r in cfg["regs"]] + ([0] if cfg["autoneg"] else [])
    kind, idx, bit = sel
    if kind == 0:
        return assigned[idx % len(assigned)]
    if kind == 1:
        return (assigned[idx % len(assigned)] ^ (1 << (bit % cfg["asz"]))) & amask
    return raw & amask


class RegSub(Sub):
    name = "registers"
    budget = {"quick": 8000, "thorough": 80000}
    rule = ("1..6 SPI transactions (read/write, assigned / one-bit-neighbour / arbitrary address, random value, CS "
            "abort after any number of clocks incl. mid-bit, extra clocks after completion -- 0/1/3, or (1 in 4) an over-long "
            "frame whose surplus is 0..7 pad bits + one or two further well-formed commands with words, mostly writes to "
            "assigned registers, exact / one clock short / one beyond / cut inside --, SCK jitter) on 8 register "
            "maps (memory incl. narrow, external-signal, constant, read-only signal, SFR, write-only, unassigned; "
            "address_size 3..15, register_size 8..32); oracle = register-file model: SDO at the host's sample edges "
            "equals the model's value of the addressed register for every complete transaction, every memory "
            "register equals the model in every cycle outside the target's update, write strobes counted per "
            "register per transaction; non-trivial = a memory register that was the target of an earlier write "
            "(completed or aborted) is read back by a completed read")

    def setup(self):
        self.h = {}

    def harness(self, ci):
        if ci not in self.h:
            dut, ins, outs = build_dut(CONFIGS[ci])
            self.h[ci] = CycleHarness(dut, ins, outs)
        return self.h[ci]

    def strategy(self):
        SEL = st.tuples(weighted([(0, 6), (1, 2), (2, 1)]), st.integers(0, 8), st.integers(0, 14))
        op = st.fixed_dictionaries(dict(
            w=st.integers(0, 1),
            a=weighted([(0, 4), (1, 3), (2, 2), (3, 1)]), sel=SEL,
            raw=st.integers(0, 0x7FFF),
            v=st.one_of(st.integers(0, 0xFFFFFFFF), st.sampled_from([0, 0xFFFFFFFF, 0x80000001, 0x55555555])),
            abort=st.one_of(st.none(), st.none(), st.none(),
                            st.tuples(st.one_of(st.integers(0, 47), st.sampled_from([-1, -2, -3, -4])), st.booleans())),
            extra=weighted([(0, 4), (1, 1), (3, 1)]),
            # over-long frame: surplus clocks shaped like 1..2 further commands (mostly writes to assigned registers)
            xl=st.one_of(st.none(), st.none(), st.none(), st.fixed_dictionaries(dict(
                pad=weighted([(0, 6), (1, 1), (2, 1), (7, 1)]),
                cmds=st.lists(st.tuples(weighted([(1, 5), (0, 1)]), SEL, st.integers(0, 0x7FFF),
                                        st.one_of(st.integers(0, 0xFFFFFFFF), st.sampled_from([0, 0xFFFFFFFF]))),
                              min_size=1, max_size=2),
                cut=weighted([(0, 5), (1, 1), (2, 1), (3, 1)]), cutn=st.integers(1, 47)))),
            rdv=st.integers(0, 0xFFFFFFFF),
            gap=st.integers(4, 8), lead=st.integers(1, 4), trail=weighted([(1, 2), (0, 3), (2, 1), (3, 1), (4, 1)]), sdid=st.integers(0, 2),
        ))
        return st.fixed_dictionaries(dict(
            cfg=st.integers(0, len(CONFIGS) - 1),
            pool=st.lists(SEL, min_size=3, max_size=3),
            half=st.lists(st.integers(3, 6), min_size=1, max_size=5),
            ops=long_lists(op, min_size=1, max_size=6, average=4),
        ))

    def run(self, case):
        ci = case["cfg"]
        cfg = CONFIGS[ci]
        asz, rsz = cfg["asz"], cfg["rsz"]
        total = asz + 1 + rsz
        h = self.harness(ci)
        halves = case["half"] or [3]
        hp = [0]

        def half():
            v = max(3, halves[hp[0] % len(halves)])
            hp[0] += 1
            return v

        rd_names = [n for n in h.in_names if n.startswith("r")]
        cur = dict(sck=0, sdi=0, cs=0)
        for n in rd_names:
            cur[n] = 0
        script = []

        def emit(n=1):
            for _ in range(n):
                script.append(dict(cur))

        model = RegModel(cfg)
        plan = []        # per txn: dict(start, falls, complete, w, addr, v, readval, before(mem snapshot), strobe, wsig)
        emit(2)
        for k, op in enumerate(case["ops"]):
            addr = pick_address(cfg, case["pool"][op["a"]] if op["a"] < 3 else op["sel"], op["raw"])
            v = op["v"] & ((1 << rsz) - 1)
            # read-side signal update while CS is released
            if rd_names:
                n = rd_names[k % len(rd_names)]
                cur[n] = op["rdv"] & ((1 << rsz) - 1)
                model.rd[int(n[1:])] = cur[n]
            cur["cs"] = 0
            cur["sck"] = 0
            emit(max(4, op["gap"]))
            cmd = (op["w"] << asz) | addr
            bits = [(cmd >> (asz - i)) & 1 for i in range(asz + 1)] + [(v >> (rsz - 1 - i)) & 1 for i in range(rsz)]
            abort = op["abort"]
            nfall = total
            mid = False
            if abort is not None:
                # negative codes: -1 one bit short, -2 right after the command, -3 one bit before the end of the command, -4 none
                nfall = {-1: total - 1, -2: asz + 1, -3: asz, -4: 0}.get(abort[0], abort[0] % total)
                mid = abort[1]
            extra = op["extra"] if abort is None else 0
            cur["cs"] = 1
            start = len(script)
            falls = []
            d = op["sdid"]
            emit(max(1, op["lead"]) - 1)
            surplus = [(op["rdv"] >> i) & 1 for i in range(extra)]
            xl = op.get("xl") if abort is None else None
            if xl is not None:
                # surplus = [pad bits] + one or two well-formed commands (+ their words), optionally one clock short
                # of / one clock beyond / cut inside the last word; at most 2 * total + 7 surplus clocks
                xb = [(op["rdv"] >> i) & 1 for i in range(xl["pad"])]
                for w2, sel2, raw2, v2 in xl["cmds"]:
                    a2 = pick_address(cfg, sel2, raw2)
                    c2 = (w2 << asz) | a2
                    xb += [(c2 >> (asz - i)) & 1 for i in range(asz + 1)] + [(v2 >> (rsz - 1 - i)) & 1 for i in range(rsz)]
                if xl["cut"] == 1:
                    xb = xb[:-1]
                elif xl["cut"] == 2:
                    xb = xb + [1]
                elif xl["cut"] == 3:
                    xb = xb[:len(xb) - xl["cutn"] % total]
                surplus = xb
            allbits = bits[:nfall] + surplus
            for bi, b in enumerate(allbits):
                ha, hb = half(), half()
                # low phase: sdi changes >= 1 cycle after the falling edge that sampled the previous bit
                dd = min(d, ha - 1) if bi == 0 else 1 + min(d, ha - 2)
                emit(dd)
                cur["sdi"] = b
                emit(ha - dd)
                cur["sck"] = 1
                emit(hb)
                cur["sck"] = 0
                falls.append(len(script))       # the cycle in which sck is first seen low again
            if abort is not None and mid:
                ha, hb = half(), half()
                emit(ha)
                cur["sck"] = 1
                emit(hb)
                cur["cs"] = 0
                emit(1)
                cur["sck"] = 0
            else:
                # an ABORTED transaction may release CS in the very cycle the last falling SCK edge is seen
                # (trail 0: both pins change together); a completed one keeps CS for >= 1 more cycle
                emit(op["trail"] if abort is not None else max(1, op["trail"]))
                cur["cs"] = 0
            complete = abort is None
            before = dict(model.mem)
            readval = model.read(addr)
            strobe = wsig = None
            if complete and op["w"]:
                strobe, wsig = model.write(addr, v)
            plan.append(dict(start=start, falls=falls, complete=complete, w=op["w"], addr=addr, v=v, readval=readval,
                             before=before, after=dict(model.mem), strobe=strobe, wsig=wsig, nfall=nfall))
        cur["cs"] = 0
        cur["sck"] = 0
        emit(8)
        trace = h.run_script(script)
        names = h.out_names
        strobe_names = [n for n in names if n.startswith("s") and n not in ("sdo", "stalled")]
        desc = f"cfg#{ci} (address_size={asz} register_size={rsz})"

        written = set()
        roundtrip = False
        for i, p in enumerate(plan):
            end = plan[i + 1]["start"] if i + 1 < len(plan) else len(trace)
            what = (f"{desc} txn {i} ({'write' if p['w'] else 'read'} addr=0x{p['addr']:x} value=0x{p['v']:x} "
                    f"{'complete' if p['complete'] else 'aborted after %d clocks' % p['nfall']})")
            # --- read-back
            if p["complete"]:
                got = 0
                for j in range(rsz):
                    got = (got << 1) | trace[p["falls"][asz + 1 + j]].sdo
                if got != p["readval"]:
                    k = model.kind.get(p["addr"], "unassigned")
                    return fail(f"{what}: host read 0x{got:x}, register file holds 0x{p['readval']:x} ({k})",
                                signature=f"wrong-readback-{k}")
            # --- strobes
            for sn in strobe_names:
                cyc = [t for t in range(p["start"], end) if getattr(trace[t], sn)]
                want = 1 if sn == p["strobe"] else 0
                if len(cyc) != want:
                    if want == 0:
                        sig = "write-strobe-on-abort" if not p["complete"] else (
                            "write-strobe-on-read" if not p["w"] else "write-strobe-wrong-register")
                    else:
                        sig = "write-strobe-missing" if not cyc else "write-strobe-repeated"
                    if p["complete"] and len(p["falls"]) > total and cyc and cyc[-1] > p["falls"][total] + 4:
                        sig = "surplus-clocks-had-effect"
                    return fail(f"{what}: write strobe of register {sn[1:]} high in cycles {cyc}, expected {want} "
                                f"cycle(s)", signature=sig)
                if want and p["wsig"] is not None:
                    gotw = getattr(trace[cyc[0]], "w" + sn[1:])
                    if gotw != p["wsig"]:
                        return fail(f"{what}: write_signal=0x{gotw:x} at the strobe, transmitted 0x{p['wsig']:x}",
                                    signature="wrong-write-value-sfr")
            # --- memory registers
            for a, old in p["before"].items():
                new = p["after"][a]
                for t in range(p["start"], end):
                    val = getattr(trace[t], f"v{a}")
                    if val != old and val != new:
                        sig = "aborted-changed-register" if not p["complete"] else (
                            "read-changed-register" if not p["w"] else
                            ("wrong-value-written" if a == p["addr"] else "other-register-changed"))
                        if p["complete"] and len(p["falls"]) > total and t > p["falls"][total] + 4:
                            sig = "surplus-clocks-had-effect"
                        return fail(f"{what}: register 0x{a:x} = 0x{val:x} in cycle {t} (before 0x{old:x}, model "
                                    f"after 0x{new:x})", signature=sig)
                if getattr(trace[end - 1], f"v{a}") != new:
                    return fail(f"{what}: register 0x{a:x} = 0x{getattr(trace[end - 1], f'v{a}'):x} at the end of "
                                f"the transaction, model 0x{new:x}", signature="write-not-applied")
            if p["w"] and p["addr"] in model.mem:
                written.add(p["addr"])
            if p["complete"] and not p["w"] and p["addr"] in written:
                roundtrip = True

        labels = {f"cfg{ci}"}
        for p in plan:
            k = model.kind.get(p["addr"], "unassigned")
            labels.add(("w-" if p["w"] else "r-") + k)
            if not p["complete"]:
                ph = "cmd" if p["nfall"] <= asz else "data"
                labels.add(f"abort-{ph}")
                if p["nfall"] == asz + 1:
                    labels.add("abort-at-command-end")
                if p["nfall"] == total - 1:
                    labels.add("abort-one-bit-short")
        if any(op["extra"] and op["abort"] is None for op in case["ops"]):
            labels.add("extra-clocks")
        for p in plan:
            if p["complete"] and len(p["falls"]) >= 2 * total:
                labels.add("surplus>=one-transaction")
            if p["complete"] and len(p["falls"]) >= 3 * total:
                labels.add("surplus>=two-transactions")
        if roundtrip:
            labels.add("write-readback")
        return Result(ok=True, nontrivial=roundtrip, labels=tuple(sorted(labels)))


SUBS = [RegSub()]
