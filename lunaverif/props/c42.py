"""C42 — LFPS patterns are detected exactly within their timing windows."""

import os
from fractions import Fraction
from math import ceil, floor

from hypothesis import strategies as st

from lunaverif.core import Sub, Result, fail
from lunaverif.gen import long_lists, weighted
from lunaverif.bfm.g3_lfps import EventHarness, intervals
from lunaverif.ref.g3_usb3 import LFPS_TIMING

PROPERTY = "C42"
ASSUMPTIONS = [
    "the envelope is driven synchronously to the ss clock, so a burst of B cycles lasts exactly B/f seconds; the "
    "2-FF synchroniser then only delays it",
    "durations inside the window (min <= B/f <= max) must be accepted; durations at least one full clock period "
    "outside must be rejected; in between (clock quantisation) nothing is asserted",
    "a periodic pattern is reported at the start of a burst when the two preceding bursts and the two preceding "
    "repeat periods (burst start to burst start) are inside their windows; the statement does not fix the number, "
    "two is what the detector documents",
    "a warm-reset burst is reported when it ends",
    "generator: burst length within 1 cycle and period within 2 cycles of typical (ceil rounding plus one idle "
    "cycle between periods), judged only while 'generate' is held high",
    "ping at 12.5 MHz (the lowest clock with a non-degenerate 40/160 ns burst window) costs 2-3 M cycles per repeat: "
    "the quick tier runs two full-window cases at the lower edge, the thorough tier more on both edges",
]

F = Fraction


def _synthetic(lfps):
    rep = lfps.LFPS(burst=lfps.LFPSTiming(t_min=5.3e-6, t_max=11.7e-6),
                    repeat=lfps.LFPSTiming(t_min=30.5e-6, t_max=61.2e-6))
    one = lfps.LFPS(burst=lfps.LFPSTiming(t_min=20.5e-6, t_max=47.4e-6))
    return rep, one


# name -> (pattern key, clock Hz, burst window s, repeat window s | None)
DET_CFGS = [
    ("polling", 125_000_000, LFPS_TIMING["polling"][0], LFPS_TIMING["polling"][1]),
    ("polling", 25_000_000, LFPS_TIMING["polling"][0], LFPS_TIMING["polling"][1]),
    ("polling", 33_000_000, LFPS_TIMING["polling"][0], LFPS_TIMING["polling"][1]),
    ("reset", 100_000, LFPS_TIMING["reset"][0], None),
    ("reset", 10_000, LFPS_TIMING["reset"][0], None),
    ("synthetic-repeat", 1_000_000, (F("5.3e-6"), None, F("11.7e-6")), (F("30.5e-6"), None, F("61.2e-6"))),
    ("synthetic-single", 1_000_000, (F("20.5e-6"), None, F("47.4e-6")), None),
    ("ping", 12_500_000, LFPS_TIMING["ping"][0], LFPS_TIMING["ping"][1]),
]
PING_CFG = 7
LATENCY = 2            # 2-FF synchroniser


def _pattern(lfps, key):
    if key == "polling":
        return lfps._PollingLFPS
    if key == "reset":
        return lfps._ResetLFPS
    if key == "ping":
        return lfps._PingLFPS
    rep, one = _synthetic(lfps)
    return rep if key == "synthetic-repeat" else one


def window(cfg_index):
    """-> ((b_lo, b_hi), (p_lo, p_hi) | None) in cycles, exact fractions."""
    _, f, (bmin, _, bmax), rep = DET_CFGS[cfg_index]
    b = (bmin * f, bmax * f)
    p = (rep[0] * f, rep[2] * f) if rep else None
    return b, p


def classify(x, win):
    lo, hi = win
    if lo <= x <= hi:
        return "good"
    if x <= lo - 1 or x >= hi + 1:
        return "bad"
    return "guard"


def pick(code, off, win, floor_at=1):
    """Duration choice relative to a window (in cycles)."""
    lo, hi = ceil(win[0]), floor(win[1])
    mid = (lo + hi) // 2
    span = max(hi - lo, 1)
    table = [mid, lo, hi, lo + 1, hi - 1, lo - 1, hi + 1, lo - 2, hi + 2, lo + off % span, mid + (off % 5) - 2,
             max(1, lo // 3), 2 * hi + 5, 1, hi + 3 + off % 7]
    return max(floor_at, table[code % len(table)])


_DUR_CODE = weighted([(0, 8), (1, 4), (2, 4), (3, 2), (4, 2), (9, 8), (10, 3), (5, 2), (6, 2), (7, 1), (8, 1), (11, 1),
                      (12, 1), (13, 1), (14, 1)])
_ENV = st.tuples(_DUR_CODE, _DUR_CODE, st.integers(0, 4095))


class DetectorSub(Sub):
    name = "detector"
    budget = {"quick": 2600, "thorough": 40000}
    rule = ("LFPSDetector on envelopes = (burst, repeat period) lists with durations on, next to and far from every "
            "window edge: polling at 125/25/33 MHz, warm reset at 100/10 kHz, synthetic repeating and single-burst "
            "patterns at 1 MHz, ping at 12.5 MHz with too-early repeats (negatives); outputs logged on change; oracle: "
            "a detect strobe is required at the start of burst j when bursts j-2,j-1 and periods j-2,j-1 are inside "
            "the windows, forbidden when any of them is >= 1 cycle outside or at any other time (single-burst: at the "
            "end of each burst); non-trivial = >=1 required detection, >=1 forbidden one caused by a duration within "
            "2 cycles of a window edge, >=4 bursts")
    shrink_budget = 300

    def setup(self):
        self.h = {}

    def harness(self, ci):
        if ci not in self.h:
            from luna.gateware.usb.usb3.physical import lfps
            key, f, _, _ = DET_CFGS[ci]
            dut = lfps.LFPSDetector(_pattern(lfps, key), f)
            self.h[ci] = EventHarness(dut, dict(sig=dut.signaling_received), dict(detect=dut.detect), period=1 / f)
        return self.h[ci]

    def strategy(self):
        return st.fixed_dictionaries(dict(
            cfg=weighted([(0, 4), (1, 2), (2, 3), (3, 1), (4, 2), (5, 3), (6, 2), (7, 2)]),
            env=long_lists(_ENV, min_size=1, max_size=14, average=6),
        ))

    def envelope(self, case):
        """-> [(rise cycle, burst length)], total cycles; built by construction from the codes."""
        ci = case["cfg"]
        bw, pw = window(ci)
        t = 10
        out = []
        for bc, pc, off in case["env"]:
            b = pick(bc, off, bw)
            if ci == PING_CFG:
                b = [1, 2, 1, 2, 3, 4, 2, 1, 6, 2, 1, 1, 9, 1, 3][bc % 15]
                period = b + 1 + [1, 5, 40, 700, 3000, 20000][pc % 6] + off % 11     # always far too early
            elif pw is None:
                period = b + [1, 2, 3, 10, 50, 200][pc % 6] + off % 3
            else:
                period = max(pick(pc, off >> 3, pw), b + 1)
            out.append((t, b))
            t += period
        return out, t + 30

    def run(self, case):
        ci = case["cfg"]
        return judge_detector(self.harness(ci), ci, *self.envelope(case))


def judge_detector(h, ci, env, total):
    key, f, _, _ = DET_CFGS[ci]
    bw, pw = window(ci)
    events = []
    t = 0
    for r, b in env:
        events.append((dict(sig=0), r - t))
        events.append((dict(sig=1), b))
        t = r + b
    events.append((dict(sig=0), total - t))
    log, end = h.run(events)
    strobes = intervals(log, "detect", end)
    for s, n in strobes:
        if n != 1:
            return fail(f"{key}@{f}: detect high for {n} cycles from cycle {s} (must be a strobe)",
                        signature="detect-not-a-strobe")
    got = [s for s, _ in strobes]
    required = {}
    forbidden = {}
    near_edge_forbidden = False

    def near(x, win):
        return min(abs(x - win[0]), abs(x - win[1])) <= 2

    if pw is None:
        for k, (r, b) in enumerate(env):
            c = classify(b, bw)
            at = r + b + LATENCY
            if c == "good":
                required[at] = f"burst {k} of {b} cycles"
            elif c == "bad":
                forbidden[at] = f"burst {k} of {b} cycles (window {float(bw[0]):.2f}..{float(bw[1]):.2f})"
                near_edge_forbidden |= near(b, bw)
    else:
        for j in range(len(env)):
            at = env[j][0] + LATENCY
            if j < 2:
                forbidden[at] = f"burst {j}: fewer than two complete repeats seen"
                continue
            parts = [("burst", j - 2, env[j - 2][1], bw), ("period", j - 2, env[j - 1][0] - env[j - 2][0], pw),
                     ("burst", j - 1, env[j - 1][1], bw), ("period", j - 1, env[j][0] - env[j - 1][0], pw)]
            cls = [classify(x, w) for _, _, x, w in parts]
            if all(c == "good" for c in cls):
                required[at] = f"bursts {j-2},{j-1} = {parts[0][2]},{parts[2][2]} cycles, periods {parts[1][2]},{parts[3][2]}"
            elif any(c == "bad" for c in cls):
                why = [f"{n} {k} = {x} cycles (window {float(w[0]):.2f}..{float(w[1]):.2f})"
                       for (n, k, x, w), c in zip(parts, cls) if c == "bad"]
                forbidden[at] = "; ".join(why)
                near_edge_forbidden |= any(near(x, w) for (n, k, x, w), c in zip(parts, cls) if c == "bad")
    allowed = set(required) | {a for a in
                               ([r + b + LATENCY for r, b in env] if pw is None else [r + LATENCY for r, _ in env])}
    # shape used only to name one root cause: a burst that starts in the very cycle the detector re-arms (one cycle
    # after a burst ended / was rejected, or one cycle after the repeat time-out) is the one that gets lost
    rearm = []
    for j in range(1, len(env)):
        gap = env[j][0] - (env[j - 1][0] + env[j - 1][1])
        per = env[j][0] - env[j - 1][0]
        if (gap == 1 and (pw is None or env[j - 1][1] < bw[0])) or (pw is not None and per == ceil(pw[1]) + 1):
            rearm.append(j)
    for at, why in required.items():
        if not any(abs(g - at) <= 1 for g in got):
            if rearm:
                return fail(f"{key}@{f}: no detect near cycle {at} although {why} are inside the windows; burst(s) "
                            f"{rearm} start exactly in the detector's re-arm cycle (envelope {env[:10]}); strobes at "
                            f"{got}", signature="burst-starting-on-rearm-cycle-ignored")
            return fail(f"{key}@{f}: no detect near cycle {at} although {why} are inside the windows "
                        f"(burst {float(bw[0]):.2f}..{float(bw[1]):.2f}"
                        + (f", repeat {float(pw[0]):.2f}..{float(pw[1]):.2f}" if pw else "") + f"); strobes at {got}",
                        signature="in-window-pattern-not-detected")
    for g in got:
        hit = [a for a in allowed if abs(g - a) <= 1]
        if not hit:
            return fail(f"{key}@{f}: detect strobe in cycle {g} does not coincide with a burst "
                        f"{'end' if pw is None else 'start'} (envelope {env[:8]})", signature="detect-at-unexpected-time")
        for a in hit:
            if a in forbidden:
                return fail(f"{key}@{f}: detect strobe in cycle {g} although {forbidden[a]}",
                            signature="out-of-window-pattern-detected")
    labels = {f"cfg={key}@{f}", f"required={min(len(required), 3)}", f"forbidden={min(len(forbidden), 4)}"}
    if near_edge_forbidden:
        labels.add("forbidden-near-edge")
    if any(b in (ceil(bw[0]), floor(bw[1])) for _, b in env):
        labels.add("burst-on-edge")
    if pw and any(env[i + 1][0] - env[i][0] in (ceil(pw[0]), floor(pw[1])) for i in range(len(env) - 1)):
        labels.add("period-on-edge")
    nt = bool(required) and near_edge_forbidden and len(env) >= 4
    return Result(ok=True, nontrivial=nt, labels=tuple(sorted(labels)))


# =================================================================================================
class PingRepeatSub(Sub):
    """Full ping repeat windows (2-3 M cycles per repeat): enumerated, not searched."""
    name = "ping-repeat"
    budget = {"quick": 0, "thorough": 0}
    rule = ("LFPSDetector(ping, 12.5 MHz) with real 160..240 ms repeat periods: three-burst envelopes whose two periods "
            "sit on / one cycle inside / two cycles outside the window edges, bursts of 1 or 2 cycles (3 = rejected); "
            "quick: lower edge accept + reject; thorough: pseudo-random edge choices derived from VERIF_SEED; same "
            "oracle as 'detector'; every case is non-trivial (a full-length repeat measured against the real window)")

    def setup(self):
        self.h = None

    def enumerate(self, tier):
        (plo, phi) = window(PING_CFG)[1]
        plo, phi = int(plo), int(phi)
        if tier == "quick":
            return [dict(b=[1, 2, 1], p=[plo, plo]), dict(b=[2, 1, 2], p=[plo - 2, plo])]
        seed = int(os.environ.get("VERIF_SEED", "1"))
        cases = [dict(b=[1, 2, 1], p=[plo, plo]), dict(b=[2, 1, 2], p=[plo - 2, plo]),
                 dict(b=[2, 2, 2], p=[phi, phi]), dict(b=[1, 1, 1], p=[phi + 2, phi]),
                 dict(b=[1, 3, 1], p=[plo, plo]), dict(b=[2, 2, 2, 2], p=[plo, plo - 2, plo])]
        x = seed * 0x9E3779B97F4A7C15 + 12345
        choices = [plo, plo + 1, plo - 2, plo - 1, phi, phi - 1, phi + 2, phi + 1, (plo + phi) // 2, plo + 777,
                   plo // 2, plo - 5000]
        for i in range(138):
            x = (x * 6364136223846793005 + 1442695040888963407) & 0xFFFFFFFFFFFFFFFF
            n = 3 + (x >> 60) % 2
            b = [[1, 2, 2, 1, 1, 2, 3, 4][(x >> (8 + 3 * k)) & 7] for k in range(n)]
            p = [choices[(x >> (24 + 5 * k)) % len(choices)] for k in range(n - 1)]
            cases.append(dict(b=b, p=p))
        return cases

    def run(self, case):
        if self.h is None:
            from luna.gateware.usb.usb3.physical import lfps
            key, f, _, _ = DET_CFGS[PING_CFG]
            dut = lfps.LFPSDetector(lfps._PingLFPS, f)
            self.h = EventHarness(dut, dict(sig=dut.signaling_received), dict(detect=dut.detect), period=1 / f)
        env = []
        t = 10
        for k, b in enumerate(case["b"]):
            env.append((t, b))
            if k < len(case["p"]):
                t += case["p"][k]
        res = judge_detector(self.h, PING_CFG, env, t + 40)
        if res.ok:
            res.nontrivial = True
        return res


# =================================================================================================
GEN_CFGS = [("polling", 125_000_000), ("polling", 25_000_000), ("polling", 33_000_000), ("synthetic", 1_000_000)]
_GEN_TYP = {"polling": (LFPS_TIMING["polling"][0][1], LFPS_TIMING["polling"][1][1]),
            "synthetic": (F("3.3e-6"), F("21.7e-6"))}

_GSEG = st.tuples(weighted([(1, 5), (0, 1)]), weighted([(0, 2), (1, 2), (2, 2), (3, 3), (4, 4), (5, 3), (6, 2)]),
                  st.integers(0, 255))


class GeneratorSub(Sub):
    name = "generator"
    budget = {"quick": 500, "thorough": 8000}
    rule = ("LFPSGenerator (polling at 125/25/33 MHz, a synthetic 3.3/21.7 us pattern at 1 MHz) under generate "
            "schedules (held for several periods, dropped mid-burst / mid-wait, short pulses, re-asserted early); oracle "
            "over the change log: send_signaling only inside drive_electrical_idle; while generate is held, the first "
            "burst starts within 2 cycles (if idle), every burst lasts typical +-1 cycles, successive bursts start "
            "typical-period +-2 cycles apart, none is missing and electrical idle is held; non-trivial = a stretch "
            "with >=3 bursts and a stretch that ends mid-period followed by a restart")
    shrink_budget = 300

    def setup(self):
        self.h = {}

    def harness(self, gi):
        if gi not in self.h:
            from luna.gateware.usb.usb3.physical import lfps
            key, f = GEN_CFGS[gi]
            if key == "polling":
                pat = lfps._PollingLFPS
            else:
                pat = lfps.LFPS(burst=lfps.LFPSTiming(t_typ=3.3e-6, t_min=2e-6, t_max=5e-6),
                                repeat=lfps.LFPSTiming(t_typ=21.7e-6, t_min=15e-6, t_max=30e-6))
            dut = lfps.LFPSGenerator(pat, f)
            self.h[gi] = EventHarness(dut, dict(gen=dut.generate),
                                      dict(sig=dut.send_signaling, ei=dut.drive_electrical_idle, done=dut.completed),
                                      period=1 / f)
        return self.h[gi]

    def strategy(self):
        return st.fixed_dictionaries(dict(
            cfg=st.integers(0, len(GEN_CFGS) - 1),
            segs=long_lists(_GSEG, min_size=1, max_size=14, average=7),
        ))

    def run(self, case):
        gi = case["cfg"]
        key, f = GEN_CFGS[gi]
        xb = _GEN_TYP[key][0] * f
        xp = _GEN_TYP[key][1] * f
        P = int(xp)
        B = int(xb)
        durs = [1, 3, B // 2 + 1, B + 5, P // 2, P + 7, 3 * P + 11]
        events = [(dict(gen=0), 5)]
        sched = []          # (level, start, end)
        t = 5
        level = 0
        for i, (flip, dc, off) in enumerate(case["segs"]):
            lv = (i + 1) % 2 if flip or i == 0 else (sched[-1][0] if sched else 1)    # mostly alternate, high first
            d = durs[dc] + off % (1 + durs[dc] // 4)
            if lv == 1:
                d = max(d, 1)
                if dc >= 4:
                    d = durs[dc] * (1 + off % 2) + off      # hold for one or several periods
            if sched and sched[-1][0] == lv:
                sched[-1] = (lv, sched[-1][1], sched[-1][2] + d)
            else:
                sched.append((lv, t, t + d))
            t += d
        for lv, s, e in sched:
            events.append((dict(gen=lv), e - s))
        events.append((dict(gen=0), P + B + 20))
        log, end = self.harness(gi).run(events)
        sig = intervals(log, "sig", end)
        ei = intervals(log, "ei", end)

        def ei_covers(a, b):
            return any(s <= a and b <= s + n for s, n in ei)

        for s, n in sig:
            if not ei_covers(s, s + n):
                return fail(f"{key}@{f}: send_signaling high in cycles {s}..{s+n-1} outside drive_electrical_idle {ei}",
                            signature="signaling-outside-electrical-idle")
        many = restart_after_cut = False
        prev_cut = False
        for lv, g0, g1 in sched:
            if not lv:
                continue
            idle_at_start = not any(s <= g0 - 1 < s + n for s, n in ei)
            starts = [(s, n) for s, n in sig if g0 <= s < g1]
            if not idle_at_start and not starts:
                before = [s for s, _ in sig if s < g0]
                if before and g1 - before[-1] > xp + 3:
                    return fail(f"{key}@{f}: generate re-raised at {g0} during the period started at {before[-1]}, held "
                                f"until {g1}, but no further burst was sent", signature="burst-missing")
            if idle_at_start:
                if g1 - g0 >= 3 and (not starts or starts[0][0] > g0 + 2):
                    return fail(f"{key}@{f}: generate raised in cycle {g0} while idle, first burst "
                                f"{'at ' + str(starts[0][0]) if starts else 'never'}", signature="burst-not-started")
                if g1 - g0 >= 2 and not ei_covers(g0 + 1, g1):
                    return fail(f"{key}@{f}: drive_electrical_idle not held over generate stretch {g0}..{g1}: {ei}",
                                signature="electrical-idle-dropped")
            for s, n in starts:
                if s + n <= g1 and abs(n - xb) > 1:
                    return fail(f"{key}@{f}: burst at cycle {s} lasts {n} cycles, typical is {float(xb):.2f}",
                                signature="burst-length-not-typical")
            for (s0, _), (s1, _) in zip(starts, starts[1:]):
                if abs((s1 - s0) - xp) > 2:
                    return fail(f"{key}@{f}: bursts start at {s0} and {s1}: period {s1 - s0}, typical "
                                f"{float(xp):.2f}", signature="period-not-typical")
            if starts:
                last = starts[-1][0]
                if g1 - last > xp + 3:
                    return fail(f"{key}@{f}: no burst after the one at {last} although generate stays high until {g1}",
                                signature="burst-missing")
            if len(starts) >= 3:
                many = True
            if prev_cut and starts:
                restart_after_cut = True
            prev_cut = bool(starts) and (g1 - starts[-1][0]) < xp - 2
        labels = {f"cfg={key}@{f}"}
        if many:
            labels.add("stretch>=3-bursts")
        if restart_after_cut:
            labels.add("restart-after-cut")
        return Result(ok=True, nontrivial=many and restart_after_cut, labels=tuple(sorted(labels)))


SUBS = [DetectorSub(), PingRepeatSub(), GeneratorSub()]
