"""C50 — The SPI device exchanges whole words for every word size."""

from hypothesis import strategies as st

from lunaverif.core import Sub, Result, fail
from lunaverif.gen import long_lists, weighted
from lunaverif.simkit import CycleHarness

PROPERTY = "C50"
ASSUMPTIONS = [
    "SCK/SDI/CS are synchronous to the DUT clock (the block has no input synchronisers); every SCK level lasts "
    ">= 1 DUT cycle, SDI is stable from >= 1 cycle before each sample edge until the cycle after it",
    "CS is asserted >= 1 cycle before the first SCK edge and released >= 1 cycle after the last; SCK idles at "
    "the configured polarity while CS is released",
    "word_out for word k+1 changes only strictly between the sample edge that ends word k-1 and the one that ends "
    "word k (this is what the in-repo caller, the ILA's SPI front-end, does); the first word is presented while CS "
    "is released",
    "for msb_first=False the transmit order asserted is LSB first (the documented meaning of the parameter); for "
    "msb_first=True it is MSB first as the statement says",
    "the host samples SDO in the cycle of its own sample edge",
]

WORD_SIZES = list(range(1, 25))


def build(case):
    """Build the per-cycle host script and the host-side event log (independent of the DUT)."""
    ws = case["ws"]
    cpol, cpha, msb, csh = case["cpol"], case["cpha"], case["msb"], case["csh"]
    halves = case["half"] or [2]
    hp = [0]

    def half():
        v = halves[hp[0] % len(halves)]
        hp[0] += 1
        return v

    mask = (1 << ws) - 1
    idle_sck = cpol
    cs_on, cs_off = (0, 1) if csh else (1, 0)
    script = []                      # list of dicts (full vectors)
    cur = dict(sck=idle_sck, sdi=0, cs=cs_off, wo=0)

    def emit(n=1):
        for _ in range(n):
            script.append(dict(cur))

    events = []                      # per txn: dict(samples=[(cycle, bit)], tx=[...], wochg)
    emit(2)
    for txn in case["txns"]:
        words = [w & mask for w in txn["rx"]]
        extra = txn["extra"] % ws if ws > 1 else 0
        nbits = len(words) * ws + extra
        tx = [w & mask for w in txn["tx"]]
        while len(tx) < len(words) + 1:
            tx.append(0)
        bits = []
        for w in words:
            for j in range(ws):
                bits.append((w >> (ws - 1 - j)) & 1 if msb else (w >> j) & 1)
        xb = txn["xbits"]
        for j in range(extra):
            bits.append((xb >> j) & 1)
        # --- CS released: present the first word
        cur["wo"] = tx[0]
        cur["sck"] = idle_sck
        emit(max(2, txn["gap"]))
        # --- CS asserted
        cur["cs"] = cs_on
        t0 = len(script)
        # pending input changes: cycle -> dict
        pend = {}
        samples = []
        # sdi for bit 0 in cpha=0 is presented with CS (plus delay)
        lead = max(1, txn["lead"])
        d = txn["sdid"]
        t = t0
        if cpha == 0 and nbits:
            pend.setdefault(t0 + min(d, lead - 1), {})["sdi"] = bits[0]
        t_lead = t0 + lead
        edge_times = []              # (cycle, new sck level)
        for i in range(nbits):
            ha = half()
            hb = half()
            t_trail = t_lead + ha
            edge_times.append((t_lead, 1 - idle_sck))
            edge_times.append((t_trail, idle_sck))
            if cpha == 0:
                samples.append((t_lead, bits[i]))
                if i + 1 < nbits:
                    pend.setdefault(t_trail + min(d, hb - 1), {})["sdi"] = bits[i + 1]
            else:
                samples.append((t_trail, bits[i]))
                pend.setdefault(t_lead + min(d, ha - 1), {})["sdi"] = bits[i]
            t_lead = t_trail + hb
        t_end = (edge_times[-1][0] if edge_times else t0) + max(1, txn["trail"])
        for c, lvl in edge_times:
            pend.setdefault(c, {})["sck"] = lvl
        # word_out changes: value for word k+1 presented at t_s(g)+1, g in [k*ws-1, (k+1)*ws-2]
        for k in range(len(words)):
            lo, hi = k * ws - 1, (k + 1) * ws - 2
            pos = txn["wopos"][k % len(txn["wopos"])] if txn["wopos"] else 0
            g = lo + pos % (hi - lo + 1)
            tc = (samples[g][0] if g >= 0 else t0) + 1
            if tc < t_end:
                pend.setdefault(tc, {})["wo"] = tx[k + 1]
        for c in range(t0, t_end):
            if c in pend:
                cur.update(pend[c])
            emit()
        cur["cs"] = cs_off
        cur["sck"] = idle_sck
        events.append(dict(samples=samples, words=words, tx=tx, nbits=nbits))
    emit(5)
    return script, events


class DeviceSub(Sub):
    name = "device"
    budget = {"quick": 10000, "thorough": 150000}
    rule = ("host BFM drives 1..3 CS assertions of 0..5 words (+ optional partial trailing word) with per-half-period "
            "SCK jitter over all word sizes 1..24 x cpol x cpha x bit order x CS polarity; oracle derives the "
            "expected words from the bits the host put on SDI at its own sample edges and checks one word_complete "
            "strobe per word (between that word's last sample edge and the next word's) carrying that word, and in "
            "cpha=1 modes that SDO at every host sample edge is the matching bit of the presented word; "
            "non-trivial = some CS assertion carries >= 2 complete words")

    def setup(self):
        self.h = {}

    def harness(self, ws, cpol, cpha, msb, csh):
        key = (ws, cpol, cpha, msb, csh)
        if key not in self.h:
            from luna.gateware.interface.spi import SPIDeviceInterface
            d = SPIDeviceInterface(word_size=ws, clock_polarity=cpol, clock_phase=cpha, msb_first=bool(msb),
                                   cs_idles_high=bool(csh))
            self.h[key] = CycleHarness(d, dict(sck=d.spi.sck, sdi=d.spi.sdi, cs=d.spi.cs, wo=d.word_out),
                                       dict(sdo=d.spi.sdo, wi=d.word_in, wc=d.word_complete))
        return self.h[key]

    def strategy(self):
        txn = st.fixed_dictionaries(dict(
            rx=st.lists(st.integers(0, (1 << 24) - 1), min_size=0, max_size=5),
            tx=st.lists(st.integers(0, (1 << 24) - 1), min_size=6, max_size=6),
            extra=weighted([(0, 3), (1, 1), (2, 1), (5, 1), (11, 1), (23, 1)]),
            xbits=st.integers(0, (1 << 24) - 1),
            wopos=st.lists(st.integers(0, 23), min_size=1, max_size=5),
            gap=st.integers(2, 5), lead=st.integers(1, 4), trail=st.integers(1, 4), sdid=st.integers(0, 3),
        ))
        return st.fixed_dictionaries(dict(
            ws=weighted([(w, 3 if w & (w - 1) else 2) for w in (8, 3, 5, 12, 2, 6, 7, 9, 10, 24, 1, 4, 11, 13, 14, 15,
                                                               16, 17, 18, 19, 20, 21, 22, 23)]),
            cpol=st.integers(0, 1), cpha=weighted([(1, 2), (0, 1)]), msb=weighted([(1, 2), (0, 1)]),
            csh=weighted([(0, 3), (1, 1)]),
            half=st.lists(st.integers(1, 4), min_size=1, max_size=7),
            txns=st.lists(txn, min_size=1, max_size=3),
        ))

    def run(self, case):
        ws, cpol, cpha, msb, csh = case["ws"], case["cpol"], case["cpha"], case["msb"], case["csh"]
        script, events = build(case)
        trace = self.harness(ws, cpol, cpha, msb, csh).run_script(script)
        cfg = f"word_size={ws} cpol={cpol} cpha={cpha} msb_first={msb} cs_idles_high={csh}"

        # ---- receive direction: expected (window_start, window_end, word)
        exp = []
        for ev in events:
            for k, w in enumerate(ev["words"]):
                exp.append((ev["samples"][(k + 1) * ws - 1][0], w))
        strobes = [t for t, o in enumerate(trace) if o.wc]
        multi = any(len(ev["words"]) >= 2 for ev in events)
        nonpow2 = bool(ws & (ws - 1))
        firsts = {ev["samples"][ws - 1][0] for ev in events if ev["words"]}
        DEFECT = "nonpow2-words-after-first-misframed"
        for n, (e, w) in enumerate(exp):
            nxt = exp[n + 1][0] if n + 1 < len(exp) else len(trace) - 1
            got = [t for t in strobes if e < t <= nxt]
            later = e not in firsts            # not the first word of its CS assertion
            if len(got) != 1:
                sig = "word-not-reported" if not got else "word-reported-twice"
                if later:
                    sig = DEFECT if nonpow2 else sig + "-after-first"
                return fail(f"{cfg}: word #{n} (0x{w:x}) completed by the host's sample edge in cycle {e} was "
                            f"reported {len(got)} times in cycles ({e},{nxt}] (strobes at {strobes})", signature=sig)
            if trace[got[0]].wi != w:
                sig = DEFECT if (later and nonpow2) else "wrong-word-in"
                return fail(f"{cfg}: word #{n}: word_in=0x{trace[got[0]].wi:x} at strobe cycle {got[0]}, host sent "
                            f"0x{w:x}", signature=sig)
        if len(strobes) != len(exp):
            sig = DEFECT if (nonpow2 and multi) else "spurious-word-complete"
            return fail(f"{cfg}: {len(strobes)} word_complete cycles for {len(exp)} complete words "
                        f"(strobes {strobes}, word ends {[e for e, _ in exp]})", signature=sig)

        # ---- transmit direction (modes where data changes on the leading edge)
        if cpha == 1:
            for ev in events:
                for g, (t, _) in enumerate(ev["samples"]):
                    k, j = divmod(g, ws)
                    w = ev["tx"][k]
                    want = (w >> (ws - 1 - j)) & 1 if msb else (w >> j) & 1
                    if trace[t].sdo != want:
                        sig = "wrong-sdo-first-word" if k == 0 else "wrong-sdo-later-word"
                        if k and nonpow2:
                            sig = DEFECT
                        return fail(f"{cfg}: SDO={trace[t].sdo} at host sample edge cycle {t} (word {k} bit {j} of "
                                    f"presented word 0x{w:x}), expected {want}", signature=sig)

        labels = [f"ws={ws}", f"mode={cpol}{cpha}", "msb" if msb else "lsb", "pow2" if ws & (ws - 1) == 0 else "nonpow2"]
        if multi:
            labels.append("multiword")
        if any(ev["nbits"] % ws for ev in events):
            labels.append("partial-tail")
        if len(events) > 1:
            labels.append("multi-cs")
        if csh:
            labels.append("cs-active-low")
        return Result(ok=True, nontrivial=multi, labels=tuple(labels))


SUBS = [DeviceSub()]
