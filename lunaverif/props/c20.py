"""C20 — everything the USB2 device transmits is a well-formed, solicited packet (full USBDevice, host BFM)."""
from hypothesis import strategies as st

from lunaverif.core import Sub, Result, fail
from lunaverif.gen import long_lists, weighted
from lunaverif.bfm import g9_usb2host as H
from lunaverif.bfm import g9_hostgen as G
from lunaverif.props.c07 import ctrl_items
from lunaverif.ref import g9_device_model as M

PROPERTY = "C20"
ASSUMPTIONS = [
    "full-speed device on a bare UTMI bus (no high-speed chirp ever happens on such a device, so the chirp "
    "exemption is never exercised); control + bulk IN/OUT (ep1, ep2, ep4 both directions) + signal endpoint ep3",
    "legal host: well-formed packets, control transfers run to completion, a handshake only after a good data "
    "packet, the next packet only after the device finished transmitting or the 18-bit-time response window "
    "passed; host ACKs are occasionally withheld (a host that received a corrupted packet does that)",
    "a response must *start* within 18 cycles (bit times) after the end of the soliciting packet; tx_ready is any "
    "pattern whose gaps are bounded (<= 63 cycles)",
    "rx_active stays high 0..6 cycles (bit times on this bus) after the last byte of a host packet, chosen per packet: a "
    "PHY may negate RXActive as soon as it sees SE0 (the in-tree GatewarePHY: 0..1 cycles, measured) or only when the "
    "EOP is complete (stuffed bit + dribble bit + 2 x SE0 + J + one register; ULPI 1.1 FS 'RX end delay' of 17-18 "
    "60-MHz clocks is the same 3.6 bit times). Longer tails are not generated",
    "SOF frame numbers are arbitrary 11-bit values (a host counts frames from any starting point, so every value "
    "occurs whatever the device's address is); SOFs solicit nothing",
    "'comes entirely from a single transmitter' is checked as: every data packet equals the packet the addressed "
    "endpoint must send according to the independent device model (the CRC alone cannot show mixing because it is "
    "computed over the bytes actually sent)",
]

WIRE = ("malformed-packet", "unsolicited-tx", "tx-during-rx", "tx-stuck")

tx_ready_patterns = st.one_of(
    G.ready_patterns, G.ready_patterns, G.ready_patterns,
    st.integers(1, 63).map(lambda k: [1] + [0] * k),
    st.lists(st.integers(0, 1), min_size=2, max_size=48),
)


class Solicited(Sub):
    name = "wire"
    budget = {"quick": 1500, "thorough": 30000}
    shrink_budget = 250
    rule = ("legal host programs of 1..12 items over the complete device: complete control transfers of every "
            "implemented request (multi-packet descriptors, absent descriptors, must-STALL requests), bulk IN/OUT on "
            "endpoints 1/2/4 (both directions of 4), the signal endpoint, PINGs, SOFs (also with chosen frame numbers: low seven bits = the device's "
            "current address or 1-7 bits away from it, any upper four bits, optionally directly after an IN transaction "
            "to endpoint 1/3/4), traffic to absent endpoint directions, interleaved between control stages; tx_ready patterns from always-ready to one ready cycle in "
            "64; rx_active held 0..6 cycles after each host packet's last byte; a monitor on the UTMI transmit side checks that every maximal tx_valid burst is a 1-byte handshake "
            "with a valid PID or a data packet with a correct CRC16, starts within the response window after a "
            "token/data packet addressed to the device, never overlaps rx_active, and equals the packet the "
            "independent device model expects from the addressed endpoint; non-trivial = the device sent control data, "
            "bulk or signal data and a handshake in one history whose tx_ready pattern has a wait state")

    def setup(self):
        self.rig = H.rig("full")

    def strategy(self):
        ctrl = ctrl_items(cut_weights=((0, 1),))
        wrong_side = st.sampled_from([dict(k="in", ep=2, ack=1), dict(k="out", ep=1, n=2, flip=0), dict(k="in", ep=7, ack=1),
                                      dict(k="out", ep=9, n=0, flip=0), dict(k="ping", ep=1)])
        # transactions addressed to ANOTHER device on the same bus (address = ours XOR k): tokens, data packets and
        # SETUPs the device must stay completely silent on, whatever it did last
        other_dev = st.builds(lambda kind, ep, n, k: dict(k="other", kind=kind, ep=ep, n=n, xor=k),
                              st.sampled_from(["out", "out", "setup", "in", "ping"]), st.sampled_from([0, 1, 2, 3, 4]),
                              st.integers(0, 8), st.one_of(st.integers(1, 127), st.sampled_from([1, 2, 64])))
        # SOFs with a chosen frame number: the 11 payload bits of an SOF occupy the positions of ADDR + ENDP in the
        # other tokens, so the interesting numbers are those whose low seven bits equal the device's CURRENT address
        # (xor = 0; resolved by the BFM at run time) or differ from it in a few bits, with every value of the upper
        # four bits (= every endpoint number).  after = an IN transaction placed directly in front of the SOF (its
        # token is then the last one the device accepted): None = whatever the history has there (e.g. the status stage of a control transfer), else IN to endpoint
        # 1/3/4 (acknowledged or not)
        sof_frame = st.builds(lambda hi, xor, after, ack: dict(k="sofn", hi=hi, xor=xor, after=after, ack=ack),
                              st.integers(0, 15), weighted([(0, 4), (1, 1), (64, 1), (0x7F, 1)]),
                              st.sampled_from([None, None, None, 1, 3, 3, 4]), st.integers(0, 1))
        top = st.one_of(ctrl, other_dev, other_dev, ctrl_items(cut_weights=((0, 1),)), G.foreign_items(), G.foreign_items(), G.foreign_items(),
                        st.sampled_from([dict(k="xin", ep=e, n=n, ack=1) for e in (1, 4) for n in (1, 8, 9)]), wrong_side,
                        sof_frame)
        fields = G.env_fields()
        fields["txr"] = tx_ready_patterns
        # cycles rx_active stays high after the last byte of each host packet (None = the BFM's historic 0..2)
        tails = st.lists(weighted([(0, 2), (1, 3), (2, 2), (3, 2), (4, 2), (5, 2), (H.MAX_TAIL, 3)]), min_size=1, max_size=6)
        fields["tails"] = st.one_of(tails, tails, tails, st.none())
        return st.fixed_dictionaries(dict(items=long_lists(top, min_size=1, max_size=12, average=7), **fields))

    def run(self, case):
        b = G.Builder(self.rig.descriptors)
        for it in case["items"]:
            if it["k"] == "other":
                addr = {"xor": it["xor"]}
                if it["kind"] == "out":
                    b.add(dict(op="out", ep=it["ep"], data=b._bytes(it["n"]), pid=it["n"] & 1, addr=addr, x=None))
                elif it["kind"] == "setup":
                    b.add(dict(op="setup", req=[0x80, 6, 0x0100, 0, 18], addr=addr, x=None))
                else:
                    b.add(dict(op=it["kind"], ep=it["ep"], ack=0, addr=addr, x=None))
                continue
            if it["k"] == "sofn":
                if it.get("after") is not None:
                    b.add(dict(op="in", ep=it["after"], ack=it.get("ack", 1), x=None))
                b.add(dict(op="sof", frame=dict(hi=it.get("hi", 0), xor=it.get("xor", 0)), x=None))
                continue
            b.item(it)
        run = H.execute("full", b.prog, tails=case.get("tails"), **G.env_of(case))
        diverged = False
        if run.violation is not None:
            v = run.violation
            if v["cls"] in WIRE:
                return fail(v["msg"], signature=v["cls"])
            # A divergence from the device model is a C20 matter only when it concerns *what was transmitted*:
            # a packet in answer to something that solicits none, or a data packet that is not the addressed
            # endpoint's packet (bytes of two transmitters mixed).  A missing or different handshake is judged by
            # C07/C08/C10/C14, not here.
            t = v["txn"]
            got, allowed = t["resp"], t["allowed"]
            if got[0] != "none" and allowed == [M.NONE]:
                return fail(v["msg"], signature="answered-a-packet-that-solicits-nothing")
            if got[0] == "data" and any(a[0] == "data" for a in allowed):
                return fail(v["msg"], signature="data-packet-is-not-the-addressed-endpoints-packet")
            diverged = True
        labels = {"model-diverged-on-a-non-C20-matter"} if diverged else set()
        ctrl_data = other_data = hs = False
        for t in run.txns:
            r = t["resp"]
            if r[0] == "data":
                if t["ep"] == 0:
                    ctrl_data = True
                    labels.add("ctrl-data" if r[2] else "ctrl-zlp")
                else:
                    other_data = True
                    labels.add(f"data-ep{t['ep']}")
            elif r[0] == "hs":
                hs = True
                labels.add("hs-" + {2: "ACK", 0xA: "NAK", 0xE: "STALL"}.get(r[1], "other"))
            elif t["kind"] != "sof" and t["ep"] not in (0, 3) and ("no " in t.get("ctx", "")):
                labels.add("absent-endpoint-side-silent")
        if any(it["k"] == "other" for it in case["items"]):
            labels.add("traffic-to-another-device-address")
        prev = None
        for t in run.txns:
            if t["kind"] == "sof" and t.get("frame") is not None and (t["frame"] & 0x7F) == t.get("dev_addr"):
                labels.add("sof-frame-number-aliases-device-address")
                if prev is not None and prev["kind"] == "in" and prev["resp"][0] != "none":
                    labels.add("sof-aliasing-address-after-answered-IN")
            prev = t
        if case.get("tails") and max(case["tails"]) >= 3:
            labels.add("rx_active-tail>=3")
        stall = 0 in case["txr"]
        if stall:
            labels.add("tx_ready-wait-states")
        if len(case["txr"]) > 16 and sum(case["txr"]) <= 2:
            labels.add("tx_ready-long-gaps")
        return Result(ok=True, nontrivial=ctrl_data and other_data and hs and stall and not diverged, labels=tuple(sorted(labels)))


SUBS = [Solicited()]
