"""C44 — idle handshake and U0 link timers meet their timing rules."""
from hypothesis import strategies as st

from lunaverif.core import Sub, Result, fail
from lunaverif.gen import long_lists, weighted, bits
from lunaverif.simkit import CycleHarness

PROPERTY = "C44"
ASSUMPTIONS = [
    "received words arrive as (valid,data,ctrl) per cycle; not-valid words carry arbitrary data, including all "
    "zeros (the CTC skip remover outputs zeros while its buffer refills)",
    "idle handshake: only the safety direction of the statement is judged (completion implies the conditions); "
    "the eight consecutive valid idle symbols are two valid idle words with nothing but not-valid words between "
    "them, the second one received at or after the start of the handshake; 16 symbols sent = 4 enabled cycles",
    "timers: 1 ms is a whole number of cycles at every generated clock frequency; 10 us / 10 ms are rounded UP to "
    "whole cycles where they are not (only lateness of the keepalive is bounded by the statement); disabling the timers (leaving U0) restarts both intervals; an early keepalive is "
    "not a violation (the statement only bounds lateness)",
]


# =============================================================================================== idle handshake
def _word(kind, data):
    """kind: 0 valid idle, 1 valid non-idle data, 2 valid with K symbols, 3 not-valid zeros, 4 not-valid random,
    5 not-valid zeros with ctrl noise -> (valid, data, ctrl)"""
    if kind == 0:
        return (1, 0, 0)
    if kind == 1:
        return (1, (data & 0xFFFFFFFF) or 1, 0)
    if kind == 2:
        return (1, data & 0xFFFFFFFF if data & 1 else 0, ((data >> 32) & 0xF) or 1)
    if kind == 3:
        return (0, 0, 0)
    if kind == 4:
        return (0, data & 0xFFFFFFFF, (data >> 32) & 0xF)
    return (0, 0, (data >> 32) & 0xF)


class IdleSub(Sub):
    name = "idle"
    budget = {"quick": 8000, "thorough": 100000}
    rule = ("per-cycle histories of received words (valid idle / valid data / valid K / not-valid zero / not-valid "
            "random) and enable windows of random length. Oracle: in every cycle with idle_handshake_complete the "
            "handshake has been enabled for >=4 preceding consecutive cycles and two valid idle words, separated only "
            "by not-valid words, have been received, the second one since the handshake started. Non-trivial: an "
            "enable window of >=5 cycles containing both a not-valid word and a valid idle word.")

    def setup(self):
        from luna.gateware.usb.usb3.link.idle import IdleHandshakeHandler
        d = IdleHandshakeHandler()
        self.h = CycleHarness(d, ins=dict(v=d.sink.valid, d=d.sink.data, c=d.sink.ctrl, en=d.enable),
                              outs=dict(done=d.idle_handshake_complete), domain="ss")

    def strategy(self):
        word = st.tuples(weighted([(0, 6), (3, 4), (1, 2), (4, 2), (2, 1), (5, 1)]), bits(36)).map(list)
        seg = st.tuples(st.integers(0, 1), weighted([(1, 2), (2, 2), (3, 2), (4, 2), (5, 3), (6, 3), (9, 2), (14, 1)])).map(list)
        return st.fixed_dictionaries(dict(
            words=long_lists(word, min_size=2, max_size=60, average=24),
            enable=st.lists(seg, min_size=1, max_size=8)))

    def run(self, case):
        words = [_word(k, d) for k, d in case["words"]]
        en = []
        for lvl, n in case["enable"]:
            en += [lvl] * n
        n = len(words)
        # the enable pattern is repeated cyclically and cut to the history length
        en = (en * (n // len(en) + 1))[:n]
        script = [dict(v=w[0], d=w[1], c=w[2], en=e) for w, e in zip(words, en)]
        # tail: keep last enable, feed valid non-idle words (no further idle is received)
        script += [dict(v=1, d=0xDEADBEEF, c=0, en=en[-1])] * 3
        words = words + [(1, 0xDEADBEEF, 0)] * 3
        en = en + [en[-1]] * 3
        trace = self.h.run_script(script)
        # reference: earliest cycle at which the receive condition can be known met, per enable window
        labels = set()
        nontrivial = False
        te = None                 # start of the current enable window
        pair_done_at = None       # cycle b of the first qualifying pair in this window
        last_valid_idle = None    # cycle of the most recent valid word if it was idle, else None
        completions = 0
        for t, (w, e, o) in enumerate(zip(words, en, trace)):
            if e and te is None:
                te = t
                pair_done_at = None
            if not e:
                te = None
                pair_done_at = None
            v, d, c = w
            is_idle = v and d == 0 and c == 0
            if v:
                if is_idle and last_valid_idle is not None and te is not None and pair_done_at is None:
                    pair_done_at = t
                last_valid_idle = t if is_idle else None
            if o.done:
                completions += 1
                if te is None:
                    return fail(f"cycle {t}: idle_handshake_complete while not enabled", signature="complete-while-disabled")
                if t - te < 4:
                    return fail(f"cycle {t}: idle_handshake_complete {t - te} cycles after enable (cycle {te}); fewer "
                                f"than 16 symbols can have been sent", signature="complete-before-16-symbols-sent")
                if pair_done_at is None or pair_done_at > t:
                    # classify
                    zero_pair = any(words[k][1] == 0 and words[k][2] == 0 and words[k - 1][1] == 0 and words[k - 1][2] == 0
                                    and (not words[k][0] or not words[k - 1][0]) for k in range(max(te, 1), t + 1))
                    reset_pair = te == 0 and words[0] == (1, 0, 0) and not any(
                        words[k][:1] == (1,) and words[k][1] == 0 and words[k][2] == 0 and words[k - 1] == (1, 0, 0)
                        for k in range(1, t + 1))
                    sig = ("not-valid-word-counted-as-idle" if zero_pair else
                           "power-on-state-counted-as-idle" if reset_pair else "complete-without-8-idle-symbols")
                    recent = [(k, words[k][0], hex(words[k][1]), words[k][2]) for k in range(max(0, t - 6), t + 1)]
                    return fail(f"cycle {t}: idle_handshake_complete (enabled since cycle {te}) but no two consecutive "
                                f"valid logical-idle words have been received since then; recent words "
                                f"(cycle,valid,data,ctrl): {recent}", signature=sig)
        # classification
        t = 0
        while t < len(en):
            if en[t]:
                s = t
                while t < len(en) and en[t]:
                    t += 1
                win = words[s:t]
                if t - s >= 5 and any(not w[0] for w in win) and any(w == (1, 0, 0) for w in win):
                    nontrivial = True
                if any(w == (0, 0, 0) for w in win):
                    labels.add("not-valid-zero-in-window")
            else:
                t += 1
        labels.add("completed" if completions else "never-completed")
        return Result(ok=True, nontrivial=nontrivial, labels=tuple(sorted(labels)))


# ======================================================================================================= timers
# (clock Hz, K = 10 us in cycles, R = 1 ms in cycles) - integer arithmetic: K = f/100000, R = f/1000
# The last five have a power-of-two 1 ms (256/512/1024 cycles: counters exactly fill their width) or a power-of-two
# 10 us (4/8 cycles).  Where 10 us is not a whole number of cycles K is rounded UP: the statement only bounds the
# keepalive's lateness, so the looser bound is the sound one; 1 ms is a whole number of cycles in every configuration.
CONFIGS = [(200_000, 2, 200), (500_000, 5, 500), (1_000_000, 10, 1000), (2_500_000, 25, 2500),
           (256_000, 3, 256), (512_000, 6, 512), (1_024_000, 11, 1024), (400_000, 4, 400), (800_000, 8, 800)]
TEN_MS_FACTOR = 1000       # 10 ms = 1000 x 10 us


def judge_timers(K, R, en, rx, tx, trace):
    """en/rx/tx: per-cycle 0/1 lists. trace: outs with .ka and .rec"""
    n = len(trace)
    # ---- recovery
    e = -1                      # last cycle with a receive event or with the timers disabled
    for t in range(n):
        o = trace[t]
        if o.rec:
            if t - e < R:
                return fail(f"transition_to_recovery in cycle {t}, only {t - e} cycles after the last received link "
                            f"command/packet or U0 entry (cycle {e}); 1 ms = {R} cycles", signature="recovery-early")
        if t - e == R + 1:
            # cycles e+1 .. e+R were silent and enabled: the request is due in cycle e+R or e+R+1
            if not (trace[t - 1].rec or o.rec):
                return fail(f"no transition_to_recovery in cycles {t - 1}..{t} although nothing was received since "
                            f"cycle {e} (1 ms = {R} cycles)", signature="recovery-late-or-missing")
        if rx[t] or not en[t]:
            e = t
    # ---- keepalive
    e = -1
    last_ka = None
    for t in range(n):
        o = trace[t]
        if o.ka:
            last_ka = t
        if t - e == K + 1:
            if not any(trace[k].ka for k in range(e + 1, t + 1)):
                return fail(f"no schedule_keepalive in cycles {e + 1}..{t} although no link command was sent since "
                            f"cycle {e} (10 us = {K} cycles)", signature="keepalive-late-or-missing")
        if t - e > K + 1 and last_ka is not None and t - last_ka > TEN_MS_FACTOR * K:
            return fail(f"cycle {t}: nothing sent since cycle {e} and the last schedule_keepalive was in cycle "
                        f"{last_ka}, more than 10 ms ({TEN_MS_FACTOR * K} cycles) ago", signature="keepalive-gap-over-10ms")
        if tx[t] or not en[t]:
            e = t
            last_ka = None
    return None


class TimerSub(Sub):
    name = "timers"
    budget = {"quick": 2500, "thorough": 40000}
    shrink_budget = 300
    rule = ("LinkMaintenanceTimers at 0.2/0.5/1/2.5 MHz (10 us = 2/5/10/25 cycles, 1 ms = 200..2500 cycles) and at "
            "0.256/0.512/1.024/0.4/0.8 MHz (1 ms = 256/512/1024 cycles resp. 10 us = 4/8 cycles: power-of-two counts): "
            "independent event lists for received link commands/packets (1-cycle strobes), transmitted link commands "
            "(1..8-cycle levels) and enable windows, with gaps drawn around the deadlines (K-2..K+2, R-2..R+2). "
            "Oracle: transition_to_recovery never earlier than R cycles after the last receive event/U0 entry and "
            "present in cycle R or R+1 of uninterrupted silence; a schedule_keepalive within K+1 cycles of transmit "
            "silence and at least every 10 ms thereafter. Non-trivial: some gap lies within +-2 cycles of K or R.")

    def setup(self):
        self.h = {}

    def harness(self, ci):
        if ci not in self.h:
            from luna.gateware.usb.usb3.link.timers import LinkMaintenanceTimers
            d = LinkMaintenanceTimers(ss_clock_frequency=CONFIGS[ci][0])
            self.h[ci] = CycleHarness(d, ins=dict(en=d.enable, lcr=d.link_command_received, pr=d.packet_received,
                                                  tx=d.link_command_transmitted),
                                      outs=dict(ka=d.schedule_keepalive, rec=d.transition_to_recovery), domain="ss")
        return self.h[ci]

    def strategy(self):
        # gap = [base, delta]: base 0 -> delta cycles; base 1 -> K+delta-2; base 2 -> R+delta-2; base 3 -> 13*delta
        gap = st.tuples(weighted([(0, 3), (1, 3), (2, 3), (3, 2)]), st.integers(0, 4)).map(list)
        rx_ev = st.tuples(gap, weighted([(1, 3), (2, 3), (3, 1)])).map(list)           # 1 lcr, 2 packet, 3 both
        tx_ev = st.tuples(gap, st.integers(1, 8)).map(list)
        en_ev = st.tuples(gap, st.integers(1, 3)).map(list)                            # enabled for gap, then off n cycles
        return st.fixed_dictionaries(dict(
            cfg=weighted([(0, 5), (1, 3), (2, 2), (3, 1), (4, 3), (5, 2), (6, 1), (7, 2), (8, 1)]),
            rx=st.lists(rx_ev, max_size=5), tx=st.lists(tx_ev, max_size=8), en=st.lists(en_ev, max_size=3),
            start_disabled=st.integers(0, 3), tail=gap))

    def enumerate(self, tier):
        # one long-silence case per configuration (10 ms keepalive bound, timer roll-over)
        for ci in range(len(CONFIGS) if tier == "thorough" else 2):
            yield dict(cfg=ci, rx=[], tx=[[[0, 3], 2]], en=[], start_disabled=1, tail=[9, 0])

    @staticmethod
    def _gap(g, K, R):
        base, delta = g
        if base == 0:
            return delta
        if base == 1:
            return max(0, K + delta - 2)
        if base == 2:
            return R + delta - 2
        if base == 9:
            return TEN_MS_FACTOR * K + 40
        return 13 * delta

    def run(self, case):
        f, K, R = CONFIGS[case["cfg"]]
        g = lambda x: self._gap(x, K, R)
        rx_cycles = {}
        t = case["start_disabled"]
        for gap, kind in case["rx"]:
            t += g(gap)
            rx_cycles[t] = kind
            t += 1
        rx_end = t
        tx_lv = {}
        t = case["start_disabled"]
        for gap, ln in case["tx"]:
            t += g(gap)
            for k in range(ln):
                tx_lv[t + k] = 1
            t += ln
        tx_end = t
        off = {}
        t = case["start_disabled"]
        for gap, ln in case["en"]:
            t += g(gap)
            for k in range(ln):
                off[t + k] = 1
            t += ln
        n = max(rx_end, tx_end, t) + g(case["tail"]) + 4
        n = min(n, 4 * R + TEN_MS_FACTOR * K + 100)
        en = [0 if (i < case["start_disabled"] or i in off) else 1 for i in range(n)]
        rx = [1 if i in rx_cycles else 0 for i in range(n)]
        tx = [tx_lv.get(i, 0) for i in range(n)]
        script = [dict(en=en[i], lcr=int(rx_cycles.get(i, 0) in (1, 3)), pr=int(rx_cycles.get(i, 0) in (2, 3)), tx=tx[i])
                  for i in range(n)]
        trace = self.harness(case["cfg"]).run_script(script)
        res = judge_timers(K, R, en, rx, tx, trace)
        if res is not None:
            res.msg = f"[{f} Hz] " + res.msg
            return res
        # classification: silent-interval lengths
        labels = {f"K={K}"}
        near = False

        def intervals(ev):
            out = []
            last = -1
            for i in range(n):
                if ev[i] or not en[i]:
                    if i - last - 1 > 0:
                        out.append(i - last - 1)
                    last = i
            out.append(n - last - 1)
            return out
        for L in intervals(rx):
            if abs(L - R) <= 2 or abs(L - (R - 1)) <= 2:
                near = True
                labels.add("rx-gap-near-1ms")
            if L > R + 2:
                labels.add("rx-gap-beyond-1ms")
        for L in intervals(tx):
            if abs(L - K) <= 2:
                near = True
                labels.add("tx-gap-near-10us")
            if L > 2 * K + 2:
                labels.add("tx-gap-beyond-rollover")
        if any(o.rec for o in trace):
            labels.add("recovery-requested")
        if off:
            labels.add("disable-window")
        return Result(ok=True, nontrivial=near, labels=tuple(sorted(labels)))


SUBS = [IdleSub(), TimerSub()]
