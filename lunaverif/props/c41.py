"""C41 — The LTSSM reaches U0 only through training and honours resets and timeouts (LTSSMController)."""

from hypothesis import strategies as st

from lunaverif.core import Sub, Result, fail
from lunaverif.gen import long_lists, weighted
from lunaverif.bfm.g5_ltssm import LtssmHarness, INPUTS, OUTPUTS

PROPERTY = "C41"
ASSUMPTIONS = [
    "ss_clock_frequency = 50 kHz, so 12 ms / 2 ms / 360 ms are 600 / 100 / 18000 cycles (timeout structure kept)",
    "all monitors use port history only; phases are recognised by the output signature (send_ts1_burst, "
    "send_ts2_burst, perform_idle_handshake, send_lfps_polling, quiet = electrical idle with terminations engaged "
    "and no detection/LFPS request)",
    "a timed phase may last timeout+1 cycles (the phase is left on the edge after the counter equals the timeout); "
    "a TS2-sending phase is only timed until a burst completes after TS2 was seen (afterwards the untimed "
    "'send one more burst' substate is indistinguishable at the ports)",
    "'reset' for the link-ready preconditions is the in_usb_reset input (warm / power-on reset) or start of "
    "simulation; LUNA_COMPLIANCE is not set in the environment",
    "scrambling: a remote request counts if no_scrambling_requested was high in a cycle after the start of the "
    "last TSEQ/TS1 phase; requests in the boundary cycles of that phase start make either value acceptable; the "
    "local request is request_no_scrambling, which must equal disable_scrambling as it was when the last "
    "TSEQ/TS1 phase started (checked when disable_scrambling was stable around that cycle)",
]

T12, T2, T360 = 600, 100, 18000          # from the statement (12 ms, 2 ms, 360 ms) at 50 kHz
MAX_CYCLES = 45000

PULSE_SIGNALS = [("ts_burst_complete", 6), ("ts1_detected", 3), ("ts2_detected", 4), ("idle_handshake_complete", 4),
                 ("link_partner_detected", 3), ("no_link_partner_detected", 2), ("lfps_polling_detected", 3),
                 ("in_usb_reset", 3), ("trigger_link_recovery", 2), ("hot_reset_requested", 1),
                 ("loopback_requested", 1), ("no_scrambling_requested", 2), ("inverted_ts1_detected", 1),
                 ("tseq_detected", 1), ("power_on_reset", 1)]
LEVELS = [("phy_ready", [1, 1, 1, 0]), ("in_usb_reset", [0, 1]), ("disable_scrambling", [0, 1]),
          ("lfps_cycles_sent", [0, 5, 12, 13, 15, 16, 17, 20, 24, 40, 1000]), ("link_partner_detected", [0, 1]),
          ("lfps_polling_detected", [0, 1]), ("ts2_detected", [0, 1]), ("hot_reset_requested", [0, 1]),
          ("ts1_detected", [0, 1]), ("idle_handshake_complete", [0, 1]), ("ts_burst_complete", [0, 1])]
_WAIT = [(1, 4), (2, 4), (3, 3), (5, 3), (8, 2), (20, 2), (50, 2), (97, 1), (99, 1), (100, 1), (101, 1), (103, 1),
         (598, 1), (599, 1), (600, 1), (601, 1), (603, 1), (700, 1), (2000, 1), (17999, 1), (18001, 1)]
# one step of a cooperative script may be left out: the DUT must then NOT reach U0 through that script
_SKIP = [("", 8), ("partner", 1), ("lfps", 1), ("tseq", 1), ("burst_min", 1), ("ts1", 1), ("ts2", 1), ("burst_ts2", 1),
         ("burst_exit", 1), ("idle", 1)]
# points of a cooperative script after which a warm reset may be injected (the state the step leads to, on the way to U0)
BRING_POINTS = ["partner", "lfps", "tseq", "burst_min", "ts1", "ts2", "burst_ts2", "burst_exit"]
REC_POINTS = ["enter", "burst_min", "ts1", "ts2", "burst_ts2", "burst_exit"]
HOT_POINTS = ["hot_enter", "hot_burst", "hot_ts2", "hot_burst_ts2"]        # Hot Reset.Active x3, Hot Reset.Exit
_SMALL = [(1, 5), (2, 4), (3, 3), (4, 2), (7, 2), (12, 1), (30, 1), (99, 1), (120, 1), (650, 1)]


def _steps(focused=False):
    wait = st.fixed_dictionaries(dict(k=st.just("w"), n=weighted(_WAIT)))
    pulse = st.fixed_dictionaries(dict(k=st.just("p"), s=st.lists(weighted(PULSE_SIGNALS), min_size=1, max_size=2),
                                       w=weighted([(1, 6), (2, 2), (4, 1)])))
    level = st.sampled_from(range(len(LEVELS))).flatmap(
        lambda i: st.fixed_dictionaries(dict(k=st.just("l"), s=st.just(LEVELS[i][0]),
                                             v=st.sampled_from(LEVELS[i][1]))))
    # a warm reset (in_usb_reset) that begins *inside* a cooperative script: [injection point, delay, length]; the
    # partner script simply carries on afterwards (it has not noticed), so on a correct LTSSM the rest of it meets a
    # DUT that is detecting again.  Lengths: shorter and longer than the 2 ms / 12 ms substate timeouts.
    wr_len = weighted([(1, 3), (2, 2), (8, 2), (30, 1), (99, 1), (101, 1), (130, 2), (640, 1)])
    wr_raw = st.one_of(st.none(), st.none(),
                       st.tuples(st.integers(0, 63), weighted([(0, 4), (1, 2), (3, 1), (10, 1), (60, 1), (97, 1)]),
                                 wr_len).map(list))

    def place(points_plain, points_hot):
        def fix(d):
            wr = d.pop("wr_raw")
            if wr is not None:
                pts = points_plain + (points_hot * 3 if d["hot"] else [])      # weight on the hot-reset substates
                d["wr"] = [pts[wr[0] % len(pts)], wr[1], wr[2]]
            return d
        return fix

    bring = st.fixed_dictionaries(dict(
        k=st.just("bring"), d=st.lists(weighted(_SMALL), min_size=14, max_size=14),
        lfps=weighted([("lfps", 3), ("ts1", 1)]), hot=weighted([(0, 3), (1, 1)]), noscr=weighted([(0, 3), (1, 1)]),
        inv=weighted([(0, 5), (1, 1)]), race=weighted([(0, 6), (1, 1)]),
        stop=weighted([("", 8), ("lfps", 1), ("ts1", 1), ("ts2", 1), ("idle", 1), ("loopback", 1)]),
        over=st.integers(-3, 4), skip=weighted(_SKIP), wr_raw=wr_raw)).map(place(BRING_POINTS, HOT_POINTS))
    rec = st.fixed_dictionaries(dict(
        k=st.just("rec"), d=st.lists(weighted(_SMALL), min_size=12, max_size=12),
        how=weighted([("ts1", 1), ("trigger", 1)]), noscr=weighted([(0, 3), (1, 1)]), hot=weighted([(0, 3), (1, 1)]),
        race=weighted([(0, 6), (1, 1)]), skip=weighted(_SKIP), wr_raw=wr_raw)).map(place(REC_POINTS, HOT_POINTS))
    if focused:
        # histories made of cooperative scripts only (nothing left out, short waits in between): most of them get
        # somewhere, so the injected warm resets and the hot-reset paths are actually reached
        def clean(d):
            return dict(d, skip="", **({"stop": ""} if d["k"] == "bring" else {}))
        short = st.fixed_dictionaries(dict(k=st.just("w"), n=weighted([(1, 2), (3, 2), (8, 2), (30, 1), (101, 1), (110, 1)])))
        return st.tuples(bring.map(clean), st.lists(st.one_of(short, rec.map(clean), rec.map(clean), bring.map(clean)),
                                                    max_size=4)).map(lambda t: [t[0]] + t[1])
    return st.one_of(wait, wait, pulse, pulse, pulse, level, bring, rec)


def expand(steps):
    """steps -> event list [(input changes, cycles)] (total capped at MAX_CYCLES)."""
    ev = []

    def wait(n):
        ev.append(({}, max(1, n)))

    def pulse(names, w=1, gap=0):
        ev.append(({n: 1 for n in names}, w))
        ev.append(({n: 0 for n in names}, gap))

    def level(name, v):
        ev.append(({name: v}, 0))

    for s in steps:
        k = s["k"]
        if k == "w":
            wait(s["n"])
        elif k == "p":
            pulse(sorted(set(s["s"])), s["w"])
        elif k == "l":
            level(s["s"], s["v"])
        elif k == "bring":
            d = s["d"]
            skip = s.get("skip", "")
            stop = s.get("stop", "")

            wr = s.get("wr") or ["", 0, 0]

            def inject(point):
                if wr[0] == point:
                    if wr[1]:
                        wait(wr[1])
                    pulse(["in_usb_reset"], wr[2], 1)

            def step(name, names, w=1, gap=0, point=None):
                if skip == name:
                    wait(w + gap)
                else:
                    pulse(names, w, gap)
                inject(point or name)

            level("phy_ready", 1)
            level("in_usb_reset", 0)
            wait(d[0] + 1)
            step("partner", ["link_partner_detected"], 1, d[1])
            if stop == "lfps":                       # partner never answers: sit in LFPS polling up to its timeout
                wait(T360 + s["over"] - d[1])
                continue
            level("lfps_cycles_sent", 20)
            if s["lfps"] == "lfps":
                step("lfps", ["lfps_polling_detected"], 1, d[2])
                level("lfps_cycles_sent", 30)
                wait(2)
            else:
                step("lfps", ["ts1_detected"], 1, d[2])
            step("tseq", ["ts_burst_complete"], 1, d[3])                      # TSEQ burst done -> TS1 phase
            if stop == "ts1":
                wait(T12 + s["over"] - d[3])
                continue
            step("burst_min", ["ts_burst_complete"], 1, d[4])                 # minimum TS1 burst sent
            step("ts1", ["inverted_ts1_detected" if s["inv"] else "ts1_detected"], 1, d[5])      # -> TS2 phase
            if stop == "ts2":
                wait(T12 + s["over"] - d[5])
                continue
            if s["hot"]:
                pulse(["hot_reset_requested"], 2, 1)
            if s["noscr"]:
                pulse(["no_scrambling_requested"], 2, 1)
            if stop == "loopback":
                pulse(["loopback_requested"], 1, 1)
            step("ts2", ["ts2_detected"], 1, d[6])
            step("burst_ts2", ["ts_burst_complete"], 1, d[7])                 # TS2 seen + burst -> final burst
            step("burst_exit", ["ts_burst_complete"], 1, d[8])                # -> idle handshake
            if stop == "idle":
                wait(T2 + s["over"] - d[8])
                continue
            if s["hot"]:
                inject("hot_enter")                                           # Hot Reset.Active, reset bit still sent
                pulse(["ts_burst_complete"], 1, d[9])
                inject("hot_burst")
                step("ts2", ["ts2_detected"], 1, 1, point="hot_ts2")
                step("burst_ts2", ["ts_burst_complete"], 1, d[10], point="hot_burst_ts2")     # -> Hot Reset.Exit
            step("idle", ["idle_handshake_complete"] + (["in_usb_reset"] if s["race"] else []), 1, d[11])
        elif k == "rec":
            d = list(s["d"]) + [1] * 4
            skip = s.get("skip", "")
            wr = s.get("wr") or ["", 0, 0]

            def inject(point):
                if wr[0] == point:
                    if wr[1]:
                        wait(wr[1])
                    pulse(["in_usb_reset"], wr[2], 1)

            def step(name, names, w=1, gap=0, point=None):
                if skip == name:
                    wait(w + gap)
                else:
                    pulse(names, w, gap)
                inject(point or name)

            pulse(["ts1_detected" if s["how"] == "ts1" else "trigger_link_recovery"], 1, d[0])
            inject("enter")
            step("burst_min", ["ts_burst_complete"], 1, d[1])
            step("ts1", ["ts1_detected"], 1, d[2])
            if s.get("hot"):
                pulse(["hot_reset_requested"], 2, 1)
            if s["noscr"]:
                pulse(["no_scrambling_requested"], 1, 1)
            step("ts2", ["ts2_detected"], 1, d[3])
            step("burst_ts2", ["ts_burst_complete"], 1, d[4])
            step("burst_exit", ["ts_burst_complete"], 1, d[5])
            if s.get("hot"):                                                  # Recovery.Idle -> Hot Reset.Active
                inject("hot_enter")
                pulse(["ts_burst_complete"], 1, d[8])
                inject("hot_burst")
                step("ts2", ["ts2_detected"], 1, 1, point="hot_ts2")
                step("burst_ts2", ["ts_burst_complete"], 1, d[9], point="hot_burst_ts2")      # -> Hot Reset.Exit
            step("idle", ["idle_handshake_complete"] + (["in_usb_reset"] if s["race"] else []), 1, d[6])
    ev.append(({}, 6))
    # merge zero-length events into their successor and cap the total length
    out = []
    pend = {}
    total = 0
    for sets, n in ev:
        pend.update(sets)
        if n == 0:
            continue
        n = min(n, MAX_CYCLES - total)
        if n <= 0:
            break
        out.append((pend, n))
        pend = {}
        total += n
    return out


def segments(events, changes, total):
    """Merge the piecewise-constant input and output histories -> [(t0, t1, ins, outs)], t1 exclusive."""
    in_pts = []
    cur = {n: 0 for n in INPUTS}
    t = 0
    for sets, n in events:
        cur = dict(cur)
        cur.update(sets)
        in_pts.append((t, cur))
        t += n
    out_pts = list(changes)
    if not out_pts or out_pts[0][0] != 0:
        out_pts.insert(0, (0, {n: 0 for n in OUTPUTS}))
    cuts = sorted({p[0] for p in in_pts} | {p[0] for p in out_pts} | {total})
    segs = []
    ii = oi = 0
    for a, b in zip(cuts, cuts[1:]):
        while ii + 1 < len(in_pts) and in_pts[ii + 1][0] <= a:
            ii += 1
        while oi + 1 < len(out_pts) and out_pts[oi + 1][0] <= a:
            oi += 1
        segs.append((a, b, in_pts[ii][1], out_pts[oi][1]))
    return segs


def runs(segs, pred):
    """Maximal cycle intervals [a, b) on which pred(ins, outs) holds."""
    out = []
    start = None
    for a, b, i, o in segs:
        if pred(i, o):
            if start is None:
                start = a
            end = b
        elif start is not None:
            out.append((start, end))
            start = None
    if start is not None:
        out.append((start, end))
    return out


def first_cycle(segs, pred, lo, hi):
    """First cycle in [lo, hi) at which pred holds, else None."""
    for a, b, i, o in segs:
        if b <= lo or a >= hi:
            continue
        if pred(i, o):
            return max(a, lo)
    return None


def quiet_sig(i, o):
    return bool(o["tx_electrical_idle"] and o["engage_terminations"] and not o["perform_rx_detection"]
                and not o["send_lfps_polling"] and not o["link_ready"])


class LtssmSub(Sub):
    name = "ltssm"
    budget = {"quick": 1500, "thorough": 25000}
    shrink_budget = 60
    rule = ("event-list histories for LTSSMController(50 kHz, loosen_requirements on/off): cooperative partner "
            "scripts (bring-up via LFPS or TS1, optional hot reset / no-scrambling / inverted polarity, recovery "
            "scripts with optional hot reset, idle-handshake-vs-reset races, a warm reset of 1..640 cycles beginning inside "
            "any substate of a script incl. Hot Reset.Active/Exit and the Recovery substates) interleaved with adversarial pulses, level changes and waits "
            "around every timeout; port-history monitors: link_ready rising => partner detected while requested, "
            "polling LFPS (or TS1 when loosened) with >= 16 sent, TS2 seen and burst completed while sending TS2 "
            "since the last TS1/hot-reset phase start, idle handshake completed; in_usb_reset(t) => no link_ready "
            "at t+1 while it lasts; TS1 / TS2-without-completion / idle / quiet / LFPS phases last <= timeout+1; "
            "enable_scrambling in U0 = not requested off by either side; non-trivial = U0 reached and afterwards "
            "left, or a timed phase ran into its timeout after U0 was reached once")

    def setup(self):
        self.h = {}

    def harness(self, loosen):
        if loosen not in self.h:
            self.h[loosen] = LtssmHarness(bool(loosen))
        return self.h[loosen]

    def strategy(self):
        general = long_lists(_steps(), min_size=1, max_size=40, average=12)
        return st.fixed_dictionaries(dict(
            loosen=st.integers(0, 1),
            steps=st.one_of(general, general, _steps(focused=True))))

    def enumerate(self, tier):
        d = [1] * 14
        b = dict(k="bring", d=d, lfps="lfps", hot=0, noscr=0, inv=0, race=0, stop="", over=0, skip="")
        r = dict(k="rec", d=[1] * 8, how="ts1", noscr=0, race=0, skip="")
        w = lambda n: dict(k="w", n=n)
        cases = []
        for loosen in (0, 1):
            cases += [
                dict(loosen=loosen, steps=[b, w(20)]),
                dict(loosen=loosen, steps=[dict(b, hot=1), w(20)]),
                dict(loosen=loosen, steps=[dict(b, noscr=1), w(20), r, w(10)]),
                dict(loosen=loosen, steps=[dict(b, race=1), w(10)]),
                dict(loosen=loosen, steps=[b, w(5), dict(r, race=1), w(10)]),
                dict(loosen=loosen, steps=[dict(b, lfps="ts1"), w(20)]),
                dict(loosen=loosen, steps=[b, w(5), dict(k="p", s=["in_usb_reset"], w=2), w(10), b, w(10)]),
                dict(loosen=loosen, steps=[b, w(5), dict(k="p", s=["ts1_detected"], w=1), w(700), w(700), w(30)]),
                dict(loosen=loosen, steps=[dict(k="l", s="disable_scrambling", v=1), b, w(20)]),
                dict(loosen=loosen, steps=[dict(b, stop="ts1", over=3), w(30), b, w(20)]),
                dict(loosen=loosen, steps=[dict(b, skip="partner"), w(30)]),
                dict(loosen=loosen, steps=[dict(b, skip="lfps"), w(30)]),
                dict(loosen=loosen, steps=[dict(b, skip="tseq"), w(30)]),
                dict(loosen=loosen, steps=[dict(b, skip="burst_min"), w(30)]),
                dict(loosen=loosen, steps=[dict(b, skip="ts1"), w(30)]),
                dict(loosen=loosen, steps=[dict(b, skip="ts2"), w(30)]),
                dict(loosen=loosen, steps=[dict(b, skip="burst_ts2"), w(30)]),
                dict(loosen=loosen, steps=[dict(b, skip="burst_exit"), w(30)]),
                dict(loosen=loosen, steps=[dict(b, skip="idle"), w(30)]),
                dict(loosen=loosen, steps=[b, w(5), dict(r, skip="burst_min"), w(30)]),
                dict(loosen=loosen, steps=[b, w(5), dict(r, skip="ts1"), w(30)]),
                dict(loosen=loosen, steps=[b, w(5), dict(r, skip="ts2"), w(30)]),
                dict(loosen=loosen, steps=[b, w(5), dict(r, skip="burst_ts2"), w(30)]),
                dict(loosen=loosen, steps=[b, w(5), dict(r, skip="burst_exit"), w(30)]),
                dict(loosen=loosen, steps=[b, w(5), dict(r, skip="idle"), w(30)]),
                dict(loosen=loosen, steps=[dict(b, hot=1, skip="ts2"), w(30)]),
                dict(loosen=loosen, steps=[dict(b, stop="ts2", over=3), w(30), b, w(20)]),
                dict(loosen=loosen, steps=[dict(b, stop="idle", over=3), w(30), b, w(20)]),
                dict(loosen=loosen, steps=[dict(b, stop="lfps", over=3), w(30), b, w(20)]),
                dict(loosen=loosen, steps=[b, w(5), dict(r, hot=1), w(20)]),
            ]
            # a warm reset beginning inside every substate of the hot-reset path (bring-up and recovery) and of the
            # plain scripts: short, and longer than the substate's timeout
            for n in (2, 130, 640):
                for pt in HOT_POINTS:
                    cases.append(dict(loosen=loosen, steps=[dict(b, hot=1, wr=[pt, 1, n]), w(30)]))
                    cases.append(dict(loosen=loosen, steps=[b, w(5), dict(r, hot=1, wr=[pt, 1, n]), w(30)]))
                for pt in BRING_POINTS:
                    cases.append(dict(loosen=loosen, steps=[dict(b, wr=[pt, 1, n]), w(30)]))
                for pt in REC_POINTS:
                    cases.append(dict(loosen=loosen, steps=[b, w(5), dict(r, wr=[pt, 1, n]), w(30)]))
        return cases

    def run(self, case):
        events = expand(case["steps"])
        changes, total = self.harness(case["loosen"]).run(events)
        segs = segments(events, changes, total)
        return judge(segs, total, bool(case["loosen"]))


def judge(segs, total, loosen):
    labels = set()
    end = total - 2

    # ---- warm / power-on reset removes link_ready within one cycle and keeps it away ----------
    for a, b in runs(segs, lambda i, o: o["link_ready"]):
        t = first_cycle(segs, lambda i, o: i["in_usb_reset"], max(0, a - 1), b - 1)
        if t is not None:
            sig = "link-ready-during-reset"
            if t == a - 1 and first_cycle(segs, lambda i, o: i["idle_handshake_complete"] and
                                          o["perform_idle_handshake"], a - 1, a) is not None:
                sig = "u0-entered-under-reset-when-idle-handshake-completes"
            return fail(f"in_usb_reset is asserted in cycle {t} but link_ready is high in cycle {max(t + 1, a)} "
                        f"(link_ready high during cycles {a}..{b - 1})", signature=sig)

    # ---- timed phases ---------------------------------------------------------------------------
    def over(name, pred, limit):
        for a, b in runs(segs, pred):
            if b - a > limit + 1 and a + limit + 1 < end:
                return fail(f"{name} phase lasts from cycle {a} to {min(b, end)} (> {limit}+1 cycles)",
                            signature="timeout-not-honoured-" + name)
            if b - a >= limit and b < end:
                labels.add("timeout-" + name)
        return None

    for name, pred, limit in (("ts1", lambda i, o: o["send_ts1_burst"], T12),
                              ("idle", lambda i, o: o["perform_idle_handshake"], T2),
                              ("quiet", quiet_sig, T12),
                              ("lfps", lambda i, o: o["send_lfps_polling"], T360)):
        r = over(name, pred, limit)
        if r:
            return r
    ts1_runs = runs(segs, lambda i, o: o["send_ts1_burst"])
    for a, b in runs(segs, lambda i, o: o["send_ts2_burst"]):
        # TS2 may have been seen since the start of the TS1 phase that led here (or of this phase after a hot reset)
        since = max([x for x, y in ts1_runs if y <= a] + [0])
        seen = first_cycle(segs, lambda i, o: i["ts2_detected"], since, b)
        done = None
        if seen is not None:
            done = first_cycle(segs, lambda i, o: i["ts_burst_complete"], max(a, seen), b)
        timed_end = b if done is None else done + 1
        if timed_end - a > T12 + 1 and a + T12 + 1 < end:
            return fail(f"TS2 phase from cycle {a}: no burst completed after TS2 was seen until cycle "
                        f"{min(timed_end, end)} (> {T12}+1 cycles)", signature="timeout-not-honoured-ts2")
        if done is None and b - a >= T12 and b < end:
            labels.add("timeout-ts2")

    # ---- preconditions of link_ready ------------------------------------------------------------
    ready_runs = runs(segs, lambda i, o: o["link_ready"])
    for n, (u, ue) in enumerate(ready_runs):
        resets = runs(segs, lambda i, o: i["in_usb_reset"])
        e_reset = max([y for x, y in resets if y <= u] + [0])       # first cycle after the last reset
        p = first_cycle(segs, lambda i, o: i["link_partner_detected"] and o["perform_rx_detection"], e_reset, u)
        if p is None:
            # a reset that came while the DUT was polling/detecting and was ignored?
            sig = "ready-without-partner-detection-since-reset"
            return fail(f"link_ready rises in cycle {u}, but since the last reset (ended cycle {e_reset}) no partner "
                        f"was detected while detection was requested", signature=sig)
        q = first_cycle(segs, lambda i, o: o["send_lfps_polling"] and
                        (i["lfps_polling_detected"] or (loosen and i["ts1_detected"])), p, u)
        q16 = first_cycle(segs, lambda i, o: o["send_lfps_polling"] and i["lfps_cycles_sent"] >= 16, p, u)
        if q is None or q16 is None:
            return fail(f"link_ready rises in cycle {u}, but after partner detection (cycle {p}) polling LFPS was "
                        f"{'not seen' if q is None else 'seen'} and >=16 bursts were "
                        f"{'never' if q16 is None else ''} reported sent while polling",
                        signature="ready-without-lfps-exchange")
        starts = [x for x, y in ts1_runs if x < u] + [x for x, y in runs(segs, lambda i, o: o["request_hot_reset"])
                                                      if x < u]
        if not starts:
            return fail(f"link_ready rises in cycle {u} without any TS1 phase before it",
                        signature="ready-without-training")
        e = max(starts)
        if e < q:
            return fail(f"link_ready rises in cycle {u}: last TS1/hot-reset phase started in cycle {e}, before the "
                        f"LFPS exchange (cycle {q})", signature="ready-without-training")
        s2 = first_cycle(segs, lambda i, o: i["ts2_detected"], e, u)
        b2 = first_cycle(segs, lambda i, o: i["ts_burst_complete"] and o["send_ts2_burst"], e, u)
        if s2 is None or b2 is None:
            return fail(f"link_ready rises in cycle {u}: since the last TS1/hot-reset phase start (cycle {e}) TS2 was "
                        f"{'never ' if s2 is None else ''}seen and a burst was {'never ' if b2 is None else ''}"
                        f"completed while sending TS2", signature="ready-without-ts2-exchange")
        ih = first_cycle(segs, lambda i, o: i["idle_handshake_complete"] and o["perform_idle_handshake"],
                         max(e, b2), u)
        if ih is None:
            return fail(f"link_ready rises in cycle {u} without a completed idle handshake after cycle {b2}",
                        signature="ready-without-idle-handshake")
        labels.add("reached-u0")
        if first_cycle(segs, lambda i, o: o["request_hot_reset"], e_reset, u) is not None:
            labels.add("hot-reset-path")
        if first_cycle(segs, lambda i, o: o["invert_rx_polarity"], e, u) is not None:
            labels.add("inverted-polarity")
        if loosen and first_cycle(segs, lambda i, o: o["send_lfps_polling"] and i["lfps_polling_detected"],
                                  p, u) is None:
            labels.add("loosened-ts1-instead-of-lfps")
        if n:
            labels.add("u0-again")
        if ue < end:
            labels.add("left-u0")

        # ---- scrambling in U0 --------------------------------------------------------------------
        tr = [x for x, y in ts1_runs if x < u] + [x for x, y in runs(segs, lambda i, o: o["send_tseq_burst"])
                                                  if x < u]
        e_scr = max(tr)
        for a, b, i, o in segs:
            if b <= u or a >= ue:
                continue
            lo, hi = max(a, u), min(b, ue)
            must = first_cycle(segs, lambda i2, o2: i2["no_scrambling_requested"], e_scr + 1, lo - 1) is not None
            may = first_cycle(segs, lambda i2, o2: i2["no_scrambling_requested"], max(0, e_scr - 2), hi) is not None
            local = o["request_no_scrambling"]
            want = None
            if local or must:
                want = 0
            elif not may:
                want = 1
            if want is not None and o["enable_scrambling"] != want:
                who = "this side (request_no_scrambling)" if local else "the partner"
                return fail(f"U0 cycles {lo}..{hi - 1}: enable_scrambling={o['enable_scrambling']} but "
                            + (f"{who} requested scrambling off" if want == 0 else
                               "nobody requested scrambling off since the training phase started in cycle "
                               f"{e_scr}"), signature="scrambling-" + ("not-disabled" if want == 0 else "disabled"))
            if local:
                labels.add("scrambling-off-local")
            if must:
                labels.add("scrambling-off-remote")
        # the local request must be the disable_scrambling input as of the start of the training phase
        stable = {i["disable_scrambling"] for a, b, i, o in segs if b > e_scr - 3 and a < e_scr + 2}
        if len(stable) == 1:
            want = stable.pop()
            got = first_cycle(segs, lambda i, o: o["request_no_scrambling"] != want, e_scr + 1, u)
            if got is not None:
                return fail(f"disable_scrambling={want} when the training phase started (cycle {e_scr}) but "
                            f"request_no_scrambling={1 - want} in cycle {got}",
                            signature="local-scrambling-request-not-latched")

    if first_cycle(segs, lambda i, o: o["emit_compliance_pattern"], 0, total) is not None:
        labels.add("compliance")
    if first_cycle(segs, lambda i, o: o["act_as_loopback"], 0, total) is not None:
        labels.add("loopback")
    if any(first_cycle(segs, lambda i, o: i["in_usb_reset"], y - 1, y) is not None for x, y in ready_runs):
        labels.add("reset-ends-u0")
    reached = "reached-u0" in labels
    timeouts = any(lab.startswith("timeout-") for lab in labels)
    nontrivial = reached and ("left-u0" in labels or timeouts)
    labels.add("loosened" if loosen else "strict")
    return Result(ok=True, nontrivial=nontrivial, labels=tuple(sorted(labels)))


SUBS = [LtssmSub()]
