"""C15 — isochronous IN endpoints send exactly the requested bytes per frame (packetisation, PIDs, zero fill)."""

from hypothesis import strategies as st

from lunaverif.core import Sub, Result, fail
from lunaverif.simkit import CycleHarness
from lunaverif.gen import long_lists, weighted
from lunaverif.bfm.g8_ephost import EpHost, Segments, interface_ports
from lunaverif.bfm import g8_gen as G

PROPERTY = "C15"
ASSUMPTIONS = [
    "the endpoint is driven at its EndpointInterface with the strobe order/timing device.py produces",
    "bytes_in_frame holds the frame's value from >= 3 cycles before the SOF strobe through the strobe cycle "
    "(it is documented as latched at the start of the frame; it may change afterwards)",
    "the host sends no SOF and no token while the endpoint is transmitting; isochronous packets are never ACKed",
    "the stream producer obeys valid/ready (payload stable while valid and not ready); its payload lines carry "
    "garbage while valid is low",
    "the PID of a zero-length packet sent after the frame's data is exhausted (or in an empty frame) is not asserted",
    "tx.ready is driven the way USBDataPacketGenerator drives it (device.py attaches endpoint tx to transmitter.stream; "
    "packet.py: stream.ready is 0 in IDLE, SEND_PID and both CRC states and follows the PHY only in SEND_PAYLOAD). The "
    "generator is idle whenever a token's ready_for_response arrives (a host sends no token while the device "
    "transmits), so tx.ready is never high in the single cycle in which this endpoint presents a ZLP; a sink that "
    "drives tx.ready freely during a ZLP is not generated (a change that is visible only then is out of reach of this "
    "check AND of any real device: confirmed on a full USBDevice, see reports/fix-misses-a.md)",
]

# (max_packet_size, endpoint number)
CONFIGS = [(8, 1), (13, 5), (64, 2), (1024, 9)]


def _in(ep):
    return st.fixed_dictionaries(dict(k=st.just("in"), ep=st.just(ep), mine=st.just(True), hs=st.just("none"),
                                      gap=G.gap, timeout=st.integers(1, 6)))


class IsoInSub(Sub):
    name = "iso-in"
    budget = {"quick": 3000, "thorough": 40000}
    shrink_budget = 300
    rule = ("USBIsochronousStreamInEndpoint (mps 8/13/64/1024) at its EndpointInterface: frames with bytes_in_frame "
            "0..3*mps (boundary values favoured), 0..4 IN tokens per frame at generated times, background traffic, "
            "stream valid pattern, PHY tx_ready stalls, response delay 1/2/10. Oracle: IN token i of a frame gets one "
            "packet of min(mps, remaining) bytes (ZLP when nothing is left), data PIDs DATA(N-1-i) for N = "
            "ceil(n/mps); each transmitted byte is the stream's current byte (consumed exactly then) or 0 when the "
            "stream is not valid; no stream byte is consumed without being sent. Non-trivial = a frame needing >= 2 "
            "packets with >= 2 fetched, plus both a zero-filled and a real stream byte sent.")

    def setup(self):
        self.h = {}

    def harness(self, cfg):
        if cfg not in self.h:
            from luna.gateware.usb.usb2.endpoints.isochronous_stream_in import USBIsochronousStreamInEndpoint
            mps, ep = CONFIGS[cfg]
            dut = USBIsochronousStreamInEndpoint(endpoint_number=ep, max_packet_size=mps)
            ins, outs = interface_ports(dut.interface)
            ins.update(s_valid=dut.stream.valid, s_data=dut.stream.payload, bif=dut.bytes_in_frame)
            outs.update(s_ready=dut.stream.ready)
            self.h[cfg] = CycleHarness(dut, ins, outs, domain="usb")
        return self.h[cfg]

    def strategy(self):
        def case(cfg):
            mps, ep = CONFIGS[cfg]
            big = mps >= 512
            n = st.one_of(
                st.sampled_from([0, 1, mps - 1, mps, mps + 1, 2 * mps - 1, 2 * mps, 2 * mps + 1, 3 * mps - 1, 3 * mps]),
                st.integers(0, 3 * mps))
            ev = st.one_of(_in(ep), _in(ep), _in(ep), G.background(ep, "in", with_sof=False))
            frame = st.fixed_dictionaries(dict(
                n=n, scramble=st.one_of(st.none(), st.integers(0, 3 * mps)),
                ev=long_lists(ev, max_size=3 if big else 8, average=2 if big else 4)))
            svalid = st.one_of(
                G.segments(weighted([(1, 2), (0, 1)]), max_dwell=12),
                G.segments(weighted([(0, 2), (1, 1)]), max_dwell=6),
                st.just([[1, 1]]), st.just([[0, 1]]))
            return st.fixed_dictionaries(dict(
                cfg=st.just(cfg), d=G.delay, phy=G.phy if not big else st.just([1]), pid_wait=G.pid_wait,
                pre=st.lists(ev, max_size=2),
                frames=long_lists(frame, min_size=1, max_size=2 if big else 5, average=1.5 if big else 3),
                sdata=st.lists(G.byte, min_size=1, max_size=40),
                svalid=svalid, sofgap=G.gap))
        return weighted([(0, 9), (1, 5), (2, 5), (3, 1)]).flatmap(case)

    def run(self, case):
        cfg = case["cfg"]
        mps, ep = CONFIGS[cfg]
        frames = case["frames"]
        events = list(case["pre"])
        for i, f in enumerate(frames):
            events.append(dict(k="sof", frame=(i + 1) & 0x7FF, gap=case["sofgap"] + 3))
            events += f["ev"]
        sdata = case["sdata"]
        vpat = Segments(case["svalid"])
        st_ = dict(idx=0, offering=False, nlog=0, frame=-1, bif=frames[0]["n"], tstrobe=None)
        offered = []        # per cycle (valid, payload)

        def side(t, prev, host):
            # bytes_in_frame: the frame's value from the start of its SOF event until after the strobe
            log = host.log
            while st_["nlog"] < len(log):
                if log[st_["nlog"]]["k"] == "sof":
                    st_["frame"] += 1
                    st_["bif"] = frames[st_["frame"]]["n"]
                st_["nlog"] += 1
            fr = st_["frame"]
            if fr >= 0:
                rec = [r for r in log if r["k"] == "sof"][fr]
                scr = frames[fr]["scramble"]
                if scr is not None and "t_frame" in rec and t > rec["t_frame"]:
                    st_["bif"] = scr
            # stream producer
            if st_["offering"] and prev is not None and prev.s_ready:
                st_["idx"] += 1
                st_["offering"] = False
            if not st_["offering"] and vpat.at(t):
                st_["offering"] = True
            if st_["offering"]:
                v, p = 1, sdata[st_["idx"] % len(sdata)]
            else:
                v, p = 0, (0xA5 ^ (t * 37)) & 0xFF or 0x5A
            offered.append((v, p))
            return dict(s_valid=v, s_data=p, bif=st_["bif"])

        host = EpHost(events, d=case["d"], phy=case["phy"], pid_wait=case["pid_wait"], side=side)
        trace = self.harness(cfg).run_driver(host, 400000)
        if host.done_at is None:
            raise RuntimeError("host script did not finish")
        if host.hs_out:
            c, k = host.hs_out[0]
            return fail(f"isochronous endpoint requested a {k} handshake in cycle {c}", signature="unexpected-handshake")

        # ---- per-beat stream/zero-fill check -------------------------------------------------------------
        acc = dict(host.tx.accepts)
        zero_fill = real = 0
        for t, o in enumerate(trace):
            v, p = offered[t]
            if t in acc:
                if v:
                    if acc[t] != p:
                        return fail(f"cycle {t}: transmitted {acc[t]:#x} while the stream offered {p:#x}",
                                    signature="wrong-byte")
                    if not o.s_ready:
                        return fail(f"cycle {t}: stream byte {p:#x} transmitted but not consumed (stream.ready low)",
                                    signature="byte-sent-not-consumed")
                    real += 1
                else:
                    if acc[t] != 0:
                        return fail(f"cycle {t}: transmitted {acc[t]:#x} while the stream had no data (expected 0 fill)",
                                    signature="no-zero-fill")
                    zero_fill += 1
            elif v and o.s_ready:
                return fail(f"cycle {t}: stream byte {p:#x} consumed without being transmitted",
                            signature="byte-consumed-not-sent")

        # ---- per-frame packetisation -------------------------------------------------------------------------
        log, pk = host.log, host.tx.packets
        n = 0            # before the first SOF nothing is to be sent
        remaining, N, i = 0, 0, 0
        labels = set()
        multi = False
        for j, rec in enumerate(log):
            np1 = log[j + 1]["np0"] if j + 1 < len(log) else len(pk)
            mine = pk[rec["np0"]:np1]
            if rec["k"] == "sof":
                fidx = rec["frame"] - 1
                n = frames[fidx]["n"]
                remaining, N, i = n, -(-n // mps), 0
                labels.add(f"N={N}")
            is_poll = rec["k"] == "in" and rec["ep"] == ep
            if not is_poll:
                if mine:
                    return fail(f"packet started in cycle {mine[0]['start']} during a {rec['k']} event (ep {rec['ep']})",
                                signature="unsolicited-packet")
                continue
            if len(mine) != 1:
                return fail(f"IN token (end cycle {rec['T']}, frame n={n}, packet #{i}) answered by {len(mine)} packets",
                            signature="no-response" if not mine else "multiple-packets")
            p = mine[0]
            if p["aborted"] or p.get("late_first"):
                return fail(f"malformed packet {p}", signature="malformed-packet")
            want = min(mps, remaining)
            if len(p["data"]) != want:
                return fail(f"frame n={n} mps={mps}: packet #{i} carries {len(p['data'])} bytes, expected {want} "
                            f"(token end cycle {rec['T']}, d={case['d']})", signature="wrong-packet-length")
            if want > 0:
                if p["pid"] != N - 1 - i:
                    return fail(f"frame n={n} mps={mps}: packet #{i} of {N} labelled DATA{p['pid']}, expected "
                                f"DATA{N - 1 - i}", signature="wrong-data-pid")
                if i >= 1:
                    multi = True
            else:
                labels.add("zlp-empty-frame" if n == 0 else "zlp-after-data")
            remaining -= want
            i += 1
        if remaining:
            labels.add("frame-not-fully-fetched")
        if zero_fill:
            labels.add("zero-fill")
        labels.add(f"d={case['d']}")
        labels.add(f"mps={mps}")
        return Result(ok=True, nontrivial=bool(multi and zero_fill and real), labels=tuple(sorted(labels)))


SUBS = [IsoInSub()]
