"""C36 — header and data packets are transmitted with correct framing and CRCs."""
from amaranth import Elaboratable, Module, Signal, ResetInserter
from hypothesis import strategies as st

from lunaverif.core import Sub, Result, fail
from lunaverif.gen import long_lists, weighted, bits
from lunaverif.simkit import CycleHarness
from lunaverif.ref import g4_usb3 as R

PROPERTY = "C36"
ASSUMPTIONS = [
    "the payload producer is a registered stream without bubbles (DataPacketTransmitter.data_source): valid from "
    "before the header is requested, each word held until accepted, byte-valid mask 1111 except on the last word "
    "(0001/0011/0111/1111 with `last`), unused byte lanes of the last word carry arbitrary data",
    "`generate` is either held until `done` with a stable header (PacketTransmitter) or a one-cycle strobe after "
    "which the header inputs change (documented as latched); the header's crc16/crc5 inputs are arbitrary",
    "a DATA header's data-length field equals the number of payload bytes supplied; payloads are 0..1024 bytes "
    "(DataPacketReceiver.MAX_PACKET_SIZE, the largest SuperSpeed data packet payload)",
    "header types are the four defined ones (LMP, TP, DATA, ITP); a zero-length data packet is requested by a "
    "DATA header with no valid payload word",
    "symbols after EPF that pad the final word are not judged; the DataPacketReceiver used for the round trip is "
    "reset between packets so that its own sequencing defects (C40) do not mask transmitter behaviour",
]

TYPES = [R.TYPE_LMP, R.TYPE_TP, R.TYPE_DATA, R.TYPE_ITP]
MAXLEN = 64
MAXPAYLOAD = 1024          # largest SuperSpeed data packet payload (USB 3.2 §8.6; DataPacketReceiver.MAX_PACKET_SIZE)
# lengths around every power of two up to the maximum, and the last few before the maximum (each trailing-byte count)
LARGE_EDGES = sorted({v for k in range(7, 11) for v in ((1 << k) - 3, (1 << k) - 2, (1 << k) - 1, 1 << k, (1 << k) + 1)
                      if MAXLEN < v <= MAXPAYLOAD})


# payload words whose BYTE VALUES equal framing ordered sets (sent as plain data, ctrl = 0): header-packet start,
# data-payload start / end / abort, link-command start, SKP / COM runs -- legal data that must stay data
ALIAS_WORDS = [[0xFB, 0xFB, 0xFB, 0xF7], [0x5C, 0x5C, 0x5C, 0xF7], [0xFD, 0xFD, 0xFD, 0xF7], [0x66, 0x66, 0x66, 0xF7],
               [0xFE, 0xFE, 0xFE, 0xF7], [0x3C, 0x3C, 0x3C, 0x3C], [0xBC, 0xBC, 0xBC, 0xBC], [0xF7, 0xFB, 0xFB, 0xFB],
               [0xFB, 0xFB, 0xF7, 0xF7], [0xFD, 0xFD, 0xFD, 0xFE]]


def synth_payload(n, seed, fill):
    """Large payloads are described compactly (plen, pseed, pfill) and expanded here, deterministically:
    fill 0 = pseudo-random bytes (LCG), 1 = all 0x00, 2 = all 0xFF, 3 = incrementing from seed, 4 = pseudo-random
    with words whose bytes equal framing ordered sets."""
    if fill == 1:
        return [0] * n
    if fill == 2:
        return [0xFF] * n
    if fill == 3:
        return [(seed + i) & 0xFF for i in range(n)]
    out = []
    x = (seed ^ 0x5DEECE66D) & 0xFFFFFFFF
    for _ in range(n):
        x = (x * 1664525 + 1013904223) & 0xFFFFFFFF
        out.append(x >> 24)
    if fill == 4:                       # pseudo-random with framing-symbol images on word boundaries
        step = 5 + seed % 7
        for k, w in enumerate(range((seed >> 3) % step, n // 4, step)):
            out[4 * w:4 * w + 4] = ALIAS_WORDS[(seed + k) % len(ALIAS_WORDS)]
    return out


def expand_pkt(p):
    """Case dictionaries keep `payload` as a byte list (old replays) or, for large packets, plen/pseed/pfill."""
    if p.get("plen") is None:
        return p
    q = dict(p)
    q["payload"] = synth_payload(p["plen"], p.get("pseed", 0), p.get("pfill", 0)) if p["type"] == R.TYPE_DATA else []
    return q


class _Loop(Elaboratable):
    def __init__(self):
        from luna.gateware.usb.usb3.link.transmitter import RawPacketTransmitter
        from luna.gateware.usb.usb3.link.receiver import RawHeaderPacketReceiver
        from luna.gateware.usb.usb3.link.data import DataPacketReceiver
        self.tx = RawPacketTransmitter()
        self.hrx = RawHeaderPacketReceiver()
        self.drx = DataPacketReceiver()
        self.ready = Signal()
        self.drx_reset = Signal()

    def elaborate(self, platform):
        m = Module()
        m.submodules.tx = tx = self.tx
        m.submodules.hrx = hrx = self.hrx
        m.submodules.drx = ResetInserter({"ss": self.drx_reset})(self.drx)
        m.d.comb += tx.source.ready.eq(self.ready)
        for rx in (hrx, self.drx):
            m.d.comb += [
                rx.sink.valid.eq(tx.source.valid & self.ready),
                rx.sink.data.eq(tx.source.data),
                rx.sink.ctrl.eq(tx.source.ctrl),
            ]
        return m


def payload_words(payload, junk):
    """[(data, valid_mask, first, last)] as the producer presents them; junk fills unused lanes of the last word."""
    out = []
    n = len(payload)
    for i in range(0, n, 4):
        chunk = payload[i:i + 4]
        d = 0
        for j, b in enumerate(chunk):
            d |= b << (8 * j)
        if len(chunk) < 4:
            d |= (junk << (8 * len(chunk))) & 0xFFFFFFFF
        out.append((d, (1 << len(chunk)) - 1, int(i == 0), int(i + 4 >= n)))
    return out


class _Driver:
    """pkt = dict(type, dw0, dw1, dw2, seq, flags, crcs, payload, junk, hold, lead, gap, pending, garbage)"""

    def __init__(self, pkts, ready):
        self.pkts = pkts
        self.ready = ready
        self.i = -1
        self.phase = "next"
        self.tail = 8
        self.ev = []              # per packet: dict(gen=cycle, done=cycle, transfers=n)
        self.used_ready = []
        self.hang = False

    def _hdr(self, p):
        dw0 = (p["dw0"] & ~0x1F & 0xFFFFFFFF) | p["type"]
        f = p["flags"]
        dw1 = p["dw1"]
        if p["type"] == R.TYPE_DATA:      # a data header announces the length of its payload (caller contract)
            dw1 = (dw1 & 0xFFFF) | (len(p["payload"]) << 16)
        return dict(dw0=dw0, dw1=dw1, dw2=p["dw2"], seq=p["seq"], rsv=f & 7, hub=(f >> 3) & 7,
                    dl=(f >> 6) & 1, df=(f >> 7) & 1, crc16=p["crcs"] & 0xFFFF, crc5=(p["crcs"] >> 16) & 0x1F)

    def step(self, t, prev):
        rdy = self.ready[t % len(self.ready)]
        upd = dict(ready=rdy, drx_reset=0)
        # payload handshake result of the previous cycle
        if prev is not None and self.phase in ("lead", "busy") and self.words and self.wi < len(self.words):
            if prev.dready and self.presented:
                self.wi += 1
                self.cur["transfers"] += 1
        if self.phase == "busy" and prev is not None and prev.done:
            self.cur["done"] = t - 1
            self.phase = "next"
            upd["drx_reset"] = 1
        if self.phase == "next":
            self.i += 1
            if self.i >= len(self.pkts):
                self.phase = "end"
            else:
                p = self.pkts[self.i]
                self.p = p
                self.h = self._hdr(p)
                is_data = p["type"] == R.TYPE_DATA
                pl = p["payload"] if is_data else (list(p["junk"].to_bytes(4, "little")) if p["pending"] else [])
                if is_data and (self.h["dl"]) and not p["pending"]:
                    pl = []
                self.words = payload_words(pl, p["junk"])
                self.wi = 0
                self.gap = p["gap"]
                self.lead = p["lead"] if self.words else 0
                self.cur = dict(gen=None, done=None, transfers=0)
                self.ev.append(self.cur)
                self.phase = "gap"
        if self.phase == "end":
            upd.update(generate=0, dvalid=0, ready=1)
            self.tail -= 1
            self.used_ready.append(1)
            return upd if self.tail >= 0 else None
        self.presented = False
        if self.phase == "gap":
            if self.gap > 0:
                self.gap -= 1
                upd.update(generate=0, dvalid=0)
                self.used_ready.append(rdy)
                return upd
            self.phase = "lead"
        # present payload word (if any left)
        if self.words and self.wi < len(self.words):
            d, vm, fi, la = self.words[self.wi]
            upd.update(dvalid=vm, ddata=d, dfirst=fi, dlast=la)
            self.presented = True
        else:
            upd.update(dvalid=0, dlast=0, dfirst=0)
        if self.phase == "lead":
            if self.lead > 0:
                self.lead -= 1
                upd.update(generate=0)
                self.used_ready.append(rdy)
                return upd
            h = self.h
            upd.update(generate=1, dw0=h["dw0"], dw1=h["dw1"], dw2=h["dw2"], seq=h["seq"], rsv=h["rsv"], hub=h["hub"],
                       dl=h["dl"], df=h["df"], crc16=h["crc16"], crc5=h["crc5"])
            self.cur["gen"] = t
            self.phase = "busy"
            self.used_ready.append(rdy)
            return upd
        # busy (the header receiver checks the previous packet's sequence number one cycle after its last word,
        # so its expected_sequence input moves on one cycle after the next generate)
        upd["exp_seq"] = self.h["seq"]
        if self.p["hold"]:
            upd.update(generate=1)
        else:
            g = self.p["garbage"]
            upd.update(generate=0, dw0=g & 0xFFFFFFFF, dw1=(g * 7 + 3) & 0xFFFFFFFF, dw2=(g >> 3) & 0xFFFFFFFF,
                       seq=(g >> 5) & 7, rsv=(g >> 9) & 7, hub=(g >> 12) & 7, dl=(g >> 15) & 1, df=(g >> 16) & 1)
        self.used_ready.append(rdy)
        return upd


def expected_symbols(h, payload, is_data):
    hw = R.header_words(h["dw0"], h["dw1"], h["dw2"], h["seq"], h["rsv"], h["hub"], h["dl"], h["df"])
    syms = R.unpack_words(hw)
    parts = [("hpstart", 4), ("dw0", 4), ("dw1", 4), ("dw2", 4), ("crc16", 2), ("link-control-word", 2)]
    if is_data:
        if h["dl"]:
            syms += R.dpp_symbols(b"", abort=True)
            parts += [("dpp-start", 4), ("abort-framing", 4)]
        else:
            syms += R.dpp_symbols(bytes(payload))
            parts += [("dpp-start", 4), ("payload", len(payload)), ("crc32", 4), ("end-framing", 4)]
    return syms, parts


class TxSub(Sub):
    name = "rawtx"
    budget = {"quick": 5000, "thorough": 80000}
    shrink_budget = 600
    rule = ("sequences of 1..5 packets: header (random dw0-dw2, defined type, seq, reserved/hub-depth/delayed/"
            "deferred, arbitrary crc inputs), DATA headers with payload 0..64 bytes (every length mod 4, junk in "
            "unused lanes) and, for one DATA packet in ten, 65..1024 bytes (the maximum packet size; lengths around "
            "every power of two and the last few below the maximum favoured); a quarter of the payloads contain words whose "
            "byte values equal framing ordered sets (HPSTART, DPP start/end/abort, LCSTART, SKP/COM runs) sent as data; delayed flag, held or strobed generate, 0..3 idle cycles between packets, cyclic PHY ready "
            "pattern. Oracle: accepted wire symbols == independent reference encoding (framing, CRC-16, CRC-5, CRC-32 "
            "right after the last byte, END END END EPF, or EDB abort when delayed); source held while stalled; done "
            "on the last word; each payload word consumed exactly once; round trip through RawHeaderPacketReceiver "
            "(same fields, no bad_packet) and DataPacketReceiver (good first, same bytes). Non-trivial: a DATA packet "
            "with >=1 payload byte and >=1 stalled wire word.")

    def setup(self):
        dut = _Loop()
        tx, hrx, drx = dut.tx, dut.hrx, dut.drx
        hd = tx.header
        self.h = CycleHarness(
            dut,
            ins=dict(generate=tx.generate, dw0=hd.dw0, dw1=hd.dw1, dw2=hd.dw2, seq=hd.sequence_number,
                     rsv=hd.dw3_reserved, hub=hd.hub_depth, dl=hd.delayed, df=hd.deferred, crc16=hd.crc16, crc5=hd.crc5,
                     dvalid=tx.data_sink.valid, ddata=tx.data_sink.data, dfirst=tx.data_sink.first,
                     dlast=tx.data_sink.last, ready=dut.ready, drx_reset=dut.drx_reset, exp_seq=hrx.expected_sequence),
            outs=dict(valid=tx.source.valid, data=tx.source.data, ctrl=tx.source.ctrl, done=tx.done,
                      dready=tx.data_sink.ready,
                      hnew=hrx.new_packet, hbad=hrx.bad_packet, hbadseq=hrx.bad_sequence,
                      h0=hrx.packet.dw0, h1=hrx.packet.dw1, h2=hrx.packet.dw2, hseq=hrx.packet.sequence_number,
                      hrsv=hrx.packet.dw3_reserved, hhub=hrx.packet.hub_depth, hdl=hrx.packet.delayed,
                      hdf=hrx.packet.deferred,
                      good=drx.packet_good, bad=drx.packet_bad, sv=drx.source.valid, sd=drx.source.data),
            domain="ss")

    def strategy(self):
        length = st.one_of(st.integers(0, 9), st.integers(0, MAXLEN), st.sampled_from([0, 1, 2, 3, 4, 5, 6, 7, 8, 61, 62, 63, 64]))

        @st.composite
        def pkt(draw):
            typ = draw(weighted([(R.TYPE_DATA, 6), (R.TYPE_TP, 2), (R.TYPE_LMP, 1), (R.TYPE_ITP, 1)]))
            L = draw(length) if typ == R.TYPE_DATA else 0
            big = None
            if typ == R.TYPE_DATA and draw(weighted([(0, 9), (1, 1)])):
                # large payloads up to the maximum packet size, described compactly (expanded in run())
                big = dict(plen=draw(st.one_of(st.sampled_from(LARGE_EDGES + [MAXPAYLOAD]),
                                               st.integers(MAXLEN + 1, MAXPAYLOAD))),
                           pseed=draw(bits(32)), pfill=draw(weighted([(0, 5), (1, 1), (2, 1), (3, 1), (4, 3)])))
                L = 0
            flags = draw(bits(8))
            if draw(weighted([(0, 4), (1, 1)])) == 0:
                flags &= ~0x40          # most packets are not delayed
            d = dict(type=typ, dw0=draw(bits(32)), dw1=draw(bits(32)), dw2=draw(bits(32)), seq=draw(bits(3)),
                     flags=flags, crcs=draw(bits(21)),
                     payload=draw(st.lists(st.one_of(st.just(0), st.just(0xFF), bits(8)), min_size=L, max_size=L)),
                     junk=draw(bits(32)), hold=draw(st.integers(0, 1)), lead=draw(st.integers(1, 3)),
                     gap=draw(weighted([(0, 4), (1, 2), (3, 1)])), pending=draw(weighted([(0, 3), (1, 1)])),
                     garbage=draw(bits(32)))
            if L >= 4 and draw(weighted([(0, 3), (1, 1)])):
                # one or two payload words carry the byte values of a framing ordered set (as data)
                for _ in range(draw(st.integers(1, 2))):
                    w = draw(st.integers(0, L // 4 - 1))
                    d["payload"][4 * w:4 * w + 4] = draw(st.sampled_from(ALIAS_WORDS))
            if big:
                d.update(big)
            return d
        return st.fixed_dictionaries(dict(
            pkts=long_lists(pkt(), min_size=1, max_size=5, average=3),
            ready=st.lists(weighted([(1, 3), (0, 2)]), min_size=3, max_size=24)))

    def run(self, case):
        pkts = [expand_pkt(p) for p in case["pkts"]]
        ready = list(case["ready"])
        if not any(ready):
            ready.append(1)
        drv = _Driver(pkts, ready)
        per_word = len(ready) + 1
        max_cycles = 60 + sum(p["gap"] + p["lead"] + 2 + per_word * (12 + (len(p["payload"]) + 3) // 4) for p in pkts)
        trace = self.h.run_driver(drv, max_cycles)
        if drv.phase != "end":
            k = drv.i
            return fail(f"packet {k} did not complete within {max_cycles} cycles (generate at cycle "
                        f"{drv.cur['gen']}, payload words consumed {drv.cur['transfers']})", signature="transmitter-hang")
        used = drv.used_ready
        # ---- wire: accepted words, stream protocol, done
        acc = []
        prev = None
        stalls = 0
        for t, o in enumerate(trace):
            rdy = used[t]
            if prev is not None and prev[0] and not prev[3]:
                if not o.valid or (o.data, o.ctrl) != (prev[1], prev[2]):
                    return fail(f"cycle {t}: source changed ({prev[1]:#x},{prev[2]:#x}) -> valid={o.valid} "
                                f"({o.data:#x},{o.ctrl:#x}) while stalled", signature="source-not-held-while-stalled")
            if o.valid and rdy:
                acc.append((t, o.data, o.ctrl))
            if o.valid and not rdy:
                stalls += 1
            prev = (o.valid, o.data, o.ctrl, rdy)
        labels = set()
        nontrivial = False
        pos = 0
        hdr_expect = []
        last_cycles = []
        for k, (p, e) in enumerate(zip(pkts, drv.ev)):
            h = drv._hdr(p)
            is_data = p["type"] == R.TYPE_DATA
            payload = p["payload"] if is_data else []
            syms, parts = expected_symbols(h, payload, is_data)
            nwords = -(-len(syms) // 4)
            mine = acc[pos:pos + nwords]
            got = R.unpack_words([(d, c) for _, d, c in mine])
            desc = (f"packet {k} (type {p['type']}, seq {h['seq']}, delayed {h['dl']}, payload {len(payload)} bytes, "
                    f"generate at cycle {e['gen']})")
            if len(mine) < nwords:
                return fail(f"{desc}: only {len(mine)} of {nwords} expected words were transmitted", signature="wire-truncated")
            if got[:len(syms)] != syms:
                j = next(i for i in range(len(syms)) if got[i] != syms[i])
                off = 0
                part = "?"
                for name, n in parts:
                    if j < off + n:
                        part = name
                        break
                    off += n
                shown = mine if nwords <= 40 else mine[max(0, j // 4 - 2):j // 4 + 3]
                return fail(f"{desc}: wire symbol {j} ({part}) is {got[j]} expected {syms[j]}; words "
                            f"{'' if nwords <= 40 else 'around it '}{[(hex(d), c) for _, d, c in shown]}",
                            signature="wire-" + part)
            last_cycle = mine[-1][0]
            first_cycle = mine[0][0]
            if first_cycle <= e["gen"] or e["done"] != last_cycle:
                return fail(f"{desc}: words accepted in cycles {first_cycle}..{last_cycle}, done in cycle {e['done']}",
                            signature="done-timing")
            last_cycles.append(last_cycle)
            exp_transfers = len(payload_words(payload, 0)) if (is_data and not h["dl"]) else 0
            if e["transfers"] != exp_transfers:
                sig = "payload-consumed-without-dpp" if exp_transfers == 0 else "payload-word-count"
                return fail(f"{desc}: {e['transfers']} payload words were taken from the producer, expected "
                            f"{exp_transfers}", signature=sig)
            # ---- round trip, data receiver
            if is_data:
                dpp_start = mine[5][0]
                reports = [(t, "good" if trace[t].good else "bad") for t in range(dpp_start, last_cycle + 1)
                           if trace[t].good or trace[t].bad]
                if h["dl"]:
                    if any(kind == "good" for _, kind in reports):
                        return fail(f"{desc}: aborted (delayed) payload was received as good", signature="roundtrip-abort-good")
                else:
                    if not reports or reports[0][1] != "good":
                        return fail(f"{desc}: DataPacketReceiver reports {reports} for the transmitted packet",
                                    signature="roundtrip-data-not-good")
                    got_bytes = bytearray()
                    for t in range(dpp_start, last_cycle + 1):
                        o = trace[t]
                        for i in range(4):
                            if (o.sv >> i) & 1:
                                got_bytes.append((o.sd >> (8 * i)) & 0xFF)
                    if bytes(got_bytes) != bytes(payload):
                        if len(payload) > MAXLEN:
                            j = next((i for i, (a, b) in enumerate(zip(got_bytes, payload)) if a != b),
                                     min(len(got_bytes), len(payload)))
                            return fail(f"{desc}: DataPacketReceiver delivered {len(got_bytes)} bytes, expected "
                                        f"{len(payload)}; first difference at byte {j} (got "
                                        f"{bytes(got_bytes[j:j + 8]).hex()} expected {bytes(payload[j:j + 8]).hex()})",
                                        signature="roundtrip-payload")
                        return fail(f"{desc}: DataPacketReceiver delivered {bytes(got_bytes).hex()} expected "
                                    f"{bytes(payload).hex()}", signature="roundtrip-payload")
            hdr_expect.append((h, desc))
            pos += nwords
            # labels
            if is_data:
                labels.add("delayed-data" if h["dl"] else ("zlp" if not payload else f"len%4={len(payload) % 4}"))
                if len(payload) > MAXLEN and not h["dl"]:
                    labels.add("len=max" if len(payload) == MAXPAYLOAD else "len>64")
                pkt_stalls = sum(1 for t in range(e["gen"], last_cycle + 1) if trace[t].valid and not used[t])
                if payload and not h["dl"] and pkt_stalls:
                    nontrivial = True
            else:
                labels.add(f"type={p['type']}")
            if p["pending"] and (not is_data or h["dl"]):
                labels.add("data-pending-unused")
            if k and p["gap"] == 0:
                labels.add("back-to-back")
        if pos != len(acc):
            t, d, c = acc[pos]
            return fail(f"unsolicited word ({d:#x},{c:#x}) transmitted in cycle {t} after the last packet",
                        signature="wire-extra-words")
        dones = [t for t, o in enumerate(trace) if o.done]
        if dones != last_cycles:
            return fail(f"done asserted in cycles {dones}; last words of the packets accepted in cycles {last_cycles}",
                        signature="done-timing")
        # ---- round trip, header receiver
        hbad = [t for t, o in enumerate(trace) if o.hbad or o.hbadseq]
        if hbad:
            return fail(f"RawHeaderPacketReceiver flagged bad_packet/bad_sequence in cycle {hbad[0]}",
                        signature="roundtrip-header-bad")
        news = [(t, o) for t, o in enumerate(trace) if o.hnew]
        if len(news) != len(pkts):
            return fail(f"{len(pkts)} headers sent, RawHeaderPacketReceiver accepted {len(news)}",
                        signature="roundtrip-header-count")
        for (t, o), (h, desc) in zip(news, hdr_expect):
            gotf = (o.h0, o.h1, o.h2, o.hseq, o.hrsv, o.hhub, o.hdl, o.hdf)
            expf = (h["dw0"], h["dw1"], h["dw2"], h["seq"], h["rsv"], h["hub"], h["dl"], h["df"])
            if gotf != expf:
                return fail(f"{desc}: header received as {gotf} expected {expf}", signature="roundtrip-header-fields")
        labels.add("stalled" if stalls else "no-stall")
        labels.add(f"packets={len(pkts)}")
        return Result(ok=True, nontrivial=nontrivial, labels=tuple(sorted(labels)))


SUBS = [TxSub()]
